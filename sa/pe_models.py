"""Models of the builtins / numpy / scipy subset used by the repository's numeric code."""
from __future__ import annotations

import ast
import math
from fractions import Fraction

from . import dag
from .arr import Arr, elementwise, matmul, einsum, broadcast_to
from .dag import Node, Undecidable


def install(pe):
    from .pe import ExtRef

    E = pe.ext
    B = "builtins."

    # ----------------------------------------------------------------- builtins
    E[B + "len"] = lambda pe, a, k: _len(pe, a[0])
    E[B + "range"] = lambda pe, a, k: range(*[pe.as_index(x) for x in a])
    E[B + "enumerate"] = lambda pe, a, k: [(i + (pe.as_index(a[1]) if len(a) > 1 else k.get("start", 0)), x)
                                          for i, x in enumerate(pe.iterate(a[0]))]
    E[B + "zip"] = lambda pe, a, k: [tuple(t) for t in zip(*[pe.iterate(x) for x in a])]
    E[B + "abs"] = lambda pe, a, k: _abs(pe, a[0])
    E[B + "min"] = lambda pe, a, k: _minmax(pe, a, k, min)
    E[B + "max"] = lambda pe, a, k: _minmax(pe, a, k, max)
    E[B + "sum"] = lambda pe, a, k: _sum(pe, a[0], a[1] if len(a) > 1 else 0)
    E[B + "int"] = lambda pe, a, k: _int(pe, a[0]) if a else 0
    E[B + "float"] = lambda pe, a, k: _float(pe, a[0]) if a else Fraction(0)
    E[B + "complex"] = lambda pe, a, k: _complex(pe, a)
    E[B + "bool"] = lambda pe, a, k: pe.truth(a[0]) if a else False
    E[B + "str"] = lambda pe, a, k: str(pe.to_py(a[0])) if a else ""
    E[B + "repr"] = lambda pe, a, k: repr(pe.to_py(a[0]))
    E[B + "list"] = lambda pe, a, k: list(pe.iterate(a[0])) if a else []
    E[B + "tuple"] = lambda pe, a, k: tuple(pe.iterate(a[0])) if a else ()
    E[B + "set"] = lambda pe, a, k: set(pe.hashable(x) for x in pe.iterate(a[0])) if a else set()
    E[B + "frozenset"] = lambda pe, a, k: frozenset(pe.hashable(x) for x in pe.iterate(a[0])) if a else frozenset()
    E[B + "dict"] = lambda pe, a, k: _dict(pe, a, k)
    E[B + "dict.fromkeys"] = lambda pe, a, k: {pe.hashable(x): (a[1] if len(a) > 1 else None) for x in pe.iterate(a[0])}
    E[B + "sorted"] = lambda pe, a, k: _sorted(pe, a, k)

    def _defaultdict(pe, a, k):
        from .pe import DefaultDict

        d = DefaultDict()
        d.factory = a[0] if a else None
        return d

    E["collections.defaultdict"] = _defaultdict
    E[B + "reversed"] = lambda pe, a, k: list(reversed(pe.iterate(a[0])))
    E[B + "isinstance"] = lambda pe, a, k: _isinstance(pe, a[0], a[1])
    E[B + "print"] = lambda pe, a, k: None
    E[B + "round"] = lambda pe, a, k: _round(pe, a)
    E[B + "any"] = lambda pe, a, k: any(pe.truth(x) for x in pe.iterate(a[0]))
    E[B + "all"] = lambda pe, a, k: all(pe.truth(x) for x in pe.iterate(a[0]))
    E[B + "map"] = lambda pe, a, k: [pe.apply(a[0], list(t), {}) for t in zip(*[pe.iterate(x) for x in a[1:]])]
    E[B + "filter"] = lambda pe, a, k: [x for x in pe.iterate(a[1]) if pe.truth(pe.apply(a[0], [x], {}) if a[0] is not None else x)]
    E[B + "iter"] = lambda pe, a, k: _iter(pe, a[0])
    E[B + "next"] = lambda pe, a, k: a[0].next()
    E[B + "divmod"] = lambda pe, a, k: (pe._floordiv(a[0], a[1]), pe._mod(a[0], a[1]))
    E[B + "pow"] = lambda pe, a, k: pe.s_pow(a[0], a[1])
    E[B + "getattr"] = lambda pe, a, k: _getattr(pe, a)
    E[B + "hasattr"] = lambda pe, a, k: _hasattr(pe, a[0], a[1])
    E[B + "setattr"] = lambda pe, a, k: a[0].attrs.__setitem__(a[1], a[2])
    E[B + "type"] = lambda pe, a, k: _type(pe, a[0])
    E[B + "callable"] = lambda pe, a, k: True
    E[B + "slice"] = lambda pe, a, k: slice(*[None if x is None else pe.as_index(x) for x in a])
    E[B + "id"] = lambda pe, a, k: id(a[0])
    E[B + "hash"] = lambda pe, a, k: hash(pe.hashable(a[0]))
    import base64 as _b64

    for _nm in ("urlsafe_b64encode", "urlsafe_b64decode", "b64encode", "b64decode"):
        E["base64." + _nm] = lambda pe, a, k, f=getattr(_b64, _nm): f(a[0])
    for exc in ("ValueError", "NotImplementedError", "TypeError", "KeyError", "IndexError", "Exception",
                "RuntimeError", "AssertionError", "AttributeError", "StopIteration", "LookupError"):
        E[B + exc] = (lambda nm: lambda pe, a, k: _mkexc(pe, nm, a))(exc)

    # ----------------------------------------------------------------- numpy
    N = "numpy."
    E[N + "zeros"] = lambda pe, a, k: Arr.full(_shape(pe, a[0]), 0, _dtype(a, k))
    E[N + "ones"] = lambda pe, a, k: Arr.full(_shape(pe, a[0]), 1, _dtype(a, k))
    E[N + "empty"] = lambda pe, a, k: Arr.full(_shape(pe, a[0]), 0, _dtype(a, k))
    E[N + "full"] = lambda pe, a, k: Arr.full(_shape(pe, a[0]), a[1], _dtype(a[1:], k))
    E[N + "zeros_like"] = lambda pe, a, k: Arr.full(_asarr(pe, a[0]).shape, 0)
    E[N + "ones_like"] = lambda pe, a, k: Arr.full(_asarr(pe, a[0]).shape, 1)
    E[N + "full_like"] = lambda pe, a, k: Arr.full(_asarr(pe, a[0]).shape, a[1])
    E[N + "eye"] = lambda pe, a, k: _eye(pe, a, k)
    E[N + "identity"] = lambda pe, a, k: _eye(pe, a, k)
    E[N + "array"] = lambda pe, a, k: _array(pe, a[0], copy=True)
    E[N + "asarray"] = lambda pe, a, k: _array(pe, a[0], copy=False)
    E[N + "ascontiguousarray"] = lambda pe, a, k: _ascontig(pe, a[0])
    E[N + "copy"] = lambda pe, a, k: _asarr(pe, a[0]).copy()
    E[N + "diag"] = lambda pe, a, k: _diag(pe, a[0])
    E[N + "arange"] = lambda pe, a, k: Arr.from_nested(list(range(*[pe.as_index(x) for x in a])), "int")
    E[N + "shape"] = lambda pe, a, k: _asarr(pe, a[0]).shape
    E[N + "transpose"] = lambda pe, a, k: _asarr(pe, a[0]).transpose(*a[1:])
    E[N + "reshape"] = lambda pe, a, k: _asarr(pe, a[0]).reshape(a[1])
    E[N + "concatenate"] = lambda pe, a, k: _concat(pe, a, k)
    E[N + "append"] = lambda pe, a, k: Arr.from_nested(_asarr(pe, a[0]).flat() + (_asarr(pe, a[1]).flat() if isinstance(a[1], (Arr, list, tuple)) else [a[1]]))
    E[N + "stack"] = lambda pe, a, k: Arr.from_nested([_asarr(pe, x) for x in pe.iterate(a[0])])
    E[N + "block"] = lambda pe, a, k: _block(pe, a[0])
    E[N + "outer"] = lambda pe, a, k: _outer(pe, a[0], a[1])
    E[N + "dot"] = lambda pe, a, k: _dot(pe, a[0], a[1])
    E[N + "matmul"] = lambda pe, a, k: matmul(_asarr(pe, a[0]), _asarr(pe, a[1]), pe.s_add, pe.s_mul)
    def _einsum(pe, a, k):
        res = einsum(a[0], [_asarr(pe, x) for x in a[1:]], pe.s_add, pe.s_mul)
        out = k.get("out")
        if out is not None:  # numpy writes into the given array and returns it (aliasing is preserved)
            out[...] = res
            return out
        return res

    E[N + "einsum"] = _einsum
    E[N + "empty_like"] = lambda pe, a, k: Arr.full(_asarr(pe, a[0]).shape, 0)

    def _swapaxes(pe, a, k):
        x = _asarr(pe, a[0])
        ax = list(range(len(x.shape)))
        i, j = a[1], a[2]
        ax[i], ax[j] = ax[j], ax[i]
        return x.transpose(*ax)

    E[N + "swapaxes"] = _swapaxes
    E[N + "sum"] = lambda pe, a, k: _npsum(pe, a, k)
    E[N + "prod"] = lambda pe, a, k: _npprod(pe, a, k)
    E[N + "trace"] = lambda pe, a, k: _sum(pe, [_asarr(pe, a[0])[i, i] for i in range(_asarr(pe, a[0]).shape[0])], 0)
    E[N + "cumsum"] = lambda pe, a, k: _cumsum(pe, a[0])
    E[N + "linalg.inv"] = lambda pe, a, k: _inv(pe, _asarr(pe, a[0]))
    E[N + "linalg.det"] = lambda pe, a, k: _det(pe, _asarr(pe, a[0]))
    E[N + "linalg.matrix_power"] = lambda pe, a, k: _matpow(pe, _asarr(pe, a[0]), pe.as_index(a[1]))
    for nm, at in (("log", "log"), ("exp", "exp"), ("sqrt", "sqrt"), ("arctan", "atan"), ("cbrt", "cbrt"),
                   ("sin", "sin"), ("cos", "cos"), ("tan", "tan"), ("arctanh", "atanh"), ("conj", "conj"),
                   ("conjugate", "conj"), ("imag", "Im"), ("angle", "arg"), ("sign", "sign"), ("log2", "log2"),
                   ("log10", "log10"), ("arcsin", "asin"), ("arccos", "acos"), ("sinh", "sinh"), ("cosh", "cosh"),
                   ("tanh", "tanh"), ("floor", "floor"), ("ceil", "ceil")):
        E[N + nm] = (lambda at: lambda pe, a, k: _map1(pe, at, a[0]))(at)
    E[N + "real"] = lambda pe, a, k: a[0] if pe.real_is_identity else _map1(pe, "Re", a[0])
    E[N + "abs"] = lambda pe, a, k: _abs(pe, a[0])
    E[N + "absolute"] = E[N + "abs"]
    E[N + "fabs"] = E[N + "abs"]
    _seq = lambda pe, x: _asarr(pe, x) if isinstance(x, (list, tuple)) else x
    E[N + "power"] = lambda pe, a, k: pe.binop(ast.Pow(), _seq(pe, a[0]), _seq(pe, a[1]))
    E[N + "square"] = lambda pe, a, k: pe.binop(ast.Mult(), a[0], a[0])
    E[N + "multiply"] = lambda pe, a, k: pe.binop(ast.Mult(), a[0], a[1])
    E[N + "add"] = lambda pe, a, k: pe.binop(ast.Add(), a[0], a[1])
    E[N + "subtract"] = lambda pe, a, k: pe.binop(ast.Sub(), a[0], a[1])
    E[N + "divide"] = lambda pe, a, k: pe.binop(ast.Div(), a[0], a[1])
    E[N + "float64"] = lambda pe, a, k: _float(pe, a[0])
    E[N + "float32"] = lambda pe, a, k: _float(pe, a[0])
    E[N + "complex128"] = lambda pe, a, k: a[0]
    E[N + "int64"] = lambda pe, a, k: _int(pe, a[0])
    E[N + "int32"] = lambda pe, a, k: _int(pe, a[0])
    E[N + "isclose"] = lambda pe, a, k: _isclose(pe, a, k)
    E[N + "allclose"] = lambda pe, a, k: _allclose(pe, a, k)
    E[N + "array_equal"] = lambda pe, a, k: _array_equal(pe, a[0], a[1])
    E[N + "all"] = lambda pe, a, k: all(pe.truth(x) for x in (_asarr(pe, a[0]).flat() if isinstance(a[0], (Arr, list, tuple)) else [a[0]]))
    E[N + "any"] = lambda pe, a, k: any(pe.truth(x) for x in (_asarr(pe, a[0]).flat() if isinstance(a[0], (Arr, list, tuple)) else [a[0]]))
    E[N + "isnan"] = lambda pe, a, k: _isnan(pe, a[0])
    E[N + "isinf"] = lambda pe, a, k: isinstance(a[0], float)
    E[N + "isfinite"] = lambda pe, a, k: not isinstance(a[0], float)
    E[N + "geomspace"] = lambda pe, a, k: _geomspace(pe, a, k)
    E[N + "isin"] = lambda pe, a, k: Arr.from_nested([any(pe.truth(pe.compare(ast.Eq(), x, y)) for y in (_asarr(pe, a[1]).flat())) for x in _asarr(pe, a[0]).flat()], "bool") \
        if len(_asarr(pe, a[0]).shape) == 1 else elementwise(lambda x: any(pe.truth(pe.compare(ast.Eq(), x, y)) for y in _asarr(pe, a[1]).flat()), _asarr(pe, a[0]))
    E[N + "in1d"] = E[N + "isin"]
    E[N + "sort"] = lambda pe, a, k: _npsort(pe, a[0])
    E[N + "argsort"] = lambda pe, a, k: _npargsort(pe, a[0])
    E[N + "digitize"] = lambda pe, a, k: _digitize(pe, a[0], a[1])
    E[N + "unique"] = lambda pe, a, k: _npsort(pe, _uniq(pe, a[0]))
    E[N + "where"] = lambda pe, a, k: _where(pe, a)
    E[N + "max"] = lambda pe, a, k: _minmax(pe, [_asarr(pe, a[0]).flat()], k, max)
    E[N + "min"] = lambda pe, a, k: _minmax(pe, [_asarr(pe, a[0]).flat()], k, min)
    E[N + "maximum"] = lambda pe, a, k: _minmax(pe, a, k, max)
    E[N + "minimum"] = lambda pe, a, k: _minmax(pe, a, k, min)
    E[N + "mean"] = lambda pe, a, k: pe.s_div(_sum(pe, _asarr(pe, a[0]).flat(), 0), _asarr(pe, a[0]).size)
    E[N + "iscomplexobj"] = lambda pe, a, k: False
    E[N + "isrealobj"] = lambda pe, a, k: True
    E[N + "ndim"] = lambda pe, a, k: _asarr(pe, a[0]).ndim if isinstance(a[0], (Arr, list, tuple)) else 0
    E[N + "atleast_1d"] = lambda pe, a, k: _asarr(pe, a[0]) if isinstance(a[0], (Arr, list, tuple)) else Arr.from_nested([a[0]])
    E[N + "squeeze"] = lambda pe, a, k: _squeeze(pe, a[0])
    E[N + "flip"] = lambda pe, a, k: Arr.from_nested(list(reversed(_asarr(pe, a[0]).tolist())))

    # numba helpers
    E["numba.typed.List"] = lambda pe, a, k: list(pe.iterate(a[0])) if a else []
    E["numba.typed.Dict.empty"] = lambda pe, a, k: {}
    E["numba.literal_unroll"] = lambda pe, a, k: a[0]
    E["numba.prange"] = E[B + "range"]

    # scipy / math
    E["scipy.special.zeta"] = lambda pe, a, k: dag.fn("zeta", a[0])
    E["scipy.special.digamma"] = lambda pe, a, k: dag.fn("psi0", a[0])
    E["scipy.special.loggamma"] = lambda pe, a, k: dag.fn("loggamma", a[0])
    E["scipy.special.gamma"] = lambda pe, a, k: dag.fn("Gamma", a[0])
    E["scipy.special.factorial"] = lambda pe, a, k: math.factorial(pe.as_index(a[0]))
    E["math.factorial"] = lambda pe, a, k: math.factorial(pe.as_index(a[0]))
    E["math.comb"] = lambda pe, a, k: math.comb(pe.as_index(a[0]), pe.as_index(a[1]))
    E["scipy.special.binom"] = lambda pe, a, k: math.comb(pe.as_index(a[0]), pe.as_index(a[1]))
    E["math.log"] = lambda pe, a, k: _map1(pe, "log", a[0])
    E["math.exp"] = lambda pe, a, k: _map1(pe, "exp", a[0])
    E["math.sqrt"] = lambda pe, a, k: _map1(pe, "sqrt", a[0])

    def _gamma(pe, a, k):
        c = dag.as_const(a[0]) if isinstance(a[0], Node) else a[0]
        if isinstance(c, (int, Fraction)) and not isinstance(c, bool) and Fraction(c).denominator == 1 and 1 <= int(c) <= 60:
            return Fraction(math.factorial(int(c) - 1))
        return dag.fn("gamma", dag.tonode(a[0]))

    E["math.gamma"] = _gamma
    E["math.factorial"] = lambda pe, a, k: Fraction(math.factorial(int(a[0])))
    E["math.isclose"] = lambda pe, a, k: _isclose(pe, a, k)
    E["math.floor"] = lambda pe, a, k: math.floor(_exact(pe, a[0]))
    E["math.ceil"] = lambda pe, a, k: math.ceil(_exact(pe, a[0]))
    E["functools.reduce"] = lambda pe, a, k: _reduce(pe, a)
    E["copy.deepcopy"] = lambda pe, a, k: _deepcopy(pe, a[0])
    E["copy.copy"] = lambda pe, a, k: _deepcopy(pe, a[0], shallow=True)
    E["dataclasses.asdict"] = lambda pe, a, k: _asdict(pe, a[0])
    E["dataclasses.fields"] = lambda pe, a, k: _dc_fields(pe, a[0])
    E["dataclasses.is_dataclass"] = lambda pe, a, k: type(a[0]).__name__ in ("Obj", "ClassRef") and a[0].cls.is_dataclass
    E["dataclasses.replace"] = lambda pe, a, k: _replace(pe, a[0], k)
    E["itertools.product"] = lambda pe, a, k: _product(pe, a, k)
    E["itertools.chain"] = lambda pe, a, k: [x for it in a for x in pe.iterate(it)]
    E["logging.getLogger"] = lambda pe, a, k: Top_logger
    E["warnings.warn"] = lambda pe, a, k: None
    E["logging.noop"] = lambda pe, a, k: None

    # value-like externals (accessed as attributes, not called)
    pe.ext_values = {
        "numpy.pi": dag.sym("pi"),
        "math.pi": dag.sym("pi"),
        "numpy.e": dag.fn("exp", 1),
        "numpy.inf": float("inf"),
        "math.inf": float("inf"),
        "numpy.newaxis": None,
        "numpy.nan": _nan(),
        "math.nan": _nan(),
        "numpy.euler_gamma": dag.sym("euler_gamma"),
        "numpy.float64": ExtRef("numpy.float64"),
        "numpy.complex128": ExtRef("numpy.complex128"),
    }
    # patch getattr on ExtRef to resolve value-like externals
    orig_getattr = pe.getattr

    def getattr_(base, attr):
        if isinstance(base, ExtRef):
            q = f"{base.qname}.{attr}"
            if q in pe.ext_values:
                return pe.ext_values[q]
        return orig_getattr(base, attr)

    pe.getattr = getattr_
    orig_import = pe.import_ref

    def import_ref_(q):
        r = orig_import(q)
        if isinstance(r, ExtRef) and r.qname in pe.ext_values:
            return pe.ext_values[r.qname]
        return r

    pe.import_ref = import_ref_


def _nan():
    from .pe import NAN

    return NAN


def _isnan(pe, x):
    from .pe import NaNTop

    if isinstance(x, Arr):
        return elementwise(lambda v: isinstance(v, NaNTop), x)
    return isinstance(x, NaNTop)


class _Logger:
    def __repr__(self):
        return "<logger>"


Top_logger = _Logger()


def _exact(pe, x):
    from .pe import _as_exact

    r = _as_exact(x)
    if r is None:
        raise Undecidable("exact value of symbolic quantity needed")
    return r


def _mkexc(pe, name, a):
    from .pe import PERaise

    msg = a[0] if a and isinstance(a[0], str) else (str(pe.to_py(a[0])) if a else "")
    return PERaise(name, msg)


def _len(pe, x):
    from .pe import Obj, Bound, Closure, PEError, Top

    if isinstance(x, Top):
        raise Undecidable(f"len of unknown {x.why}")
    if isinstance(x, (list, tuple, dict, str, set, frozenset, range)):
        return len(x)
    if isinstance(x, Arr):
        return len(x)
    if isinstance(x, Obj):
        m = pe.src.find_method(x.cls, "__len__")
        if m:
            return pe.apply(Bound(x, Closure(m, m.node, None, m.module, m.qname)), [], {})
    raise PEError(f"len() of {type(x).__name__}")


def _abs(pe, x):
    from .pe import Top

    if isinstance(x, Top):
        return x
    if isinstance(x, Arr):
        return elementwise(lambda v: _abs(pe, v), x)
    if isinstance(x, Node):
        return abs(x)
    return abs(x)


def _key(pe, x):
    from .pe import _as_exact

    if isinstance(x, float):
        return x
    if isinstance(x, (tuple, list)):
        return tuple(_key(pe, e) for e in x)
    if isinstance(x, str):
        return x
    if type(x).__module__.startswith("pathlib") or any(c.__module__.startswith("pathlib") for c in type(x).__mro__):
        return str(x)
    r = _as_exact(x)
    if r is None:
        rep = pe.order_rep() if getattr(pe, "order_rep", None) else None
        if rep and isinstance(x, Node) and dag.symbols(x) <= set(rep):
            # ordered by the representative values of the regime under evaluation (the check runs every regime)
            try:
                return dag.eval_fraction(x, rep)
            except Exception:
                pass
        raise Undecidable(f"ordering of symbolic value {dag.short(x)}")
    return r


def _minmax(pe, a, k, f):
    items = pe.iterate(a[0]) if len(a) == 1 else list(a)
    if any(isinstance(x, Arr) for x in items):
        return elementwise(lambda *xs: _minmax(pe, list(xs), {}, f), *items)
    if "key" in k:
        return f(items, key=lambda x: _key(pe, pe.apply(k["key"], [x], {})))
    if not items and "default" in k:
        return k["default"]
    return f(items, key=lambda x: _key(pe, x))


def _sum(pe, it, start):
    acc = start
    for x in pe.iterate(it) if not isinstance(it, list) else it:
        acc = pe.binop(ast.Add(), acc, x)
    return acc


def _int(pe, x):
    from .pe import Obj

    if isinstance(x, str):
        return int(x)
    if isinstance(x, Obj) and "_value_" in x.attrs:
        return _int(pe, x.attrs["_value_"])
    v = _exact(pe, x)
    return int(v)


def _float(pe, x):
    from .pe import Top, PERaise

    if isinstance(x, Top):
        return x
    if isinstance(x, str):
        return dag.frac_of_float(float(x))
    if isinstance(x, Arr):
        if x.size == 1 and x.ndim == 0:
            return x.item()
        if x.size == 1:
            # NumPy >= 2 refuses float() of a 1-d array (only 0-d arrays convert)
            raise PERaise("TypeError", "only 0-dimensional arrays can be converted to Python scalars")
        raise PERaise("TypeError", "only length-1 arrays can be converted to Python scalars")
    if isinstance(x, bool):
        return int(x)
    return x


def _complex(pe, a):
    if len(a) == 1:
        return a[0]
    return pe.s_add(a[0], pe.s_mul(a[1], dag.sym("I")))


def _dict(pe, a, k):
    d = {}
    if a:
        src = a[0]
        if isinstance(src, dict):
            d.update(src)
        else:
            for kv in pe.iterate(src):
                kk, vv = pe.iterate(kv)
                d[pe.hashable(kk)] = vv
    d.update(k)
    return d


def _sorted(pe, a, k):
    items = pe.iterate(a[0])
    keyf = k.get("key")
    rev = pe.truth(k.get("reverse", False))
    if keyf is not None:
        return sorted(items, key=lambda x: _key(pe, pe.apply(keyf, [x], {})), reverse=rev)
    return sorted(items, key=lambda x: _key(pe, x), reverse=rev)


def _isinstance(pe, x, t):
    from .pe import ClassRef, ExtRef, Obj, Closure, Top

    if isinstance(t, tuple):
        return any(_isinstance(pe, x, tt) for tt in t)
    if isinstance(x, Top):
        raise Undecidable("isinstance of unknown")
    if isinstance(t, ClassRef):
        if not isinstance(x, Obj):
            return False
        seen = set()
        stack = [x.cls]
        while stack:
            c = stack.pop()
            if c.qname == t.cls.qname:
                return True
            if c.qname in seen:
                continue
            seen.add(c.qname)
            stack.extend(pe.src.class_bases(c))
        return False
    if isinstance(t, ExtRef):
        q = t.qname
        if q == "builtins.int":
            return isinstance(x, int) and not isinstance(x, bool) or isinstance(x, bool)
        if q == "builtins.bool":
            return isinstance(x, bool)
        if q in ("builtins.float", "numpy.floating", "numpy.float64"):
            return isinstance(x, (Fraction, float)) or (isinstance(x, Node))
        if q == "builtins.complex":
            return False
        if q == "builtins.str":
            return isinstance(x, str)
        if q == "builtins.list":
            return isinstance(x, list)
        if q == "builtins.tuple":
            return isinstance(x, tuple)
        if q == "builtins.dict":
            return isinstance(x, dict)
        if q == "builtins.set":
            return isinstance(x, set)
        if q in ("numpy.ndarray", "numpy.typing.NDArray"):
            return isinstance(x, Arr)
        if q in ("numbers.Number", "numbers.Real"):
            return isinstance(x, (int, Fraction, Node, float))
        if q in ("numpy.generic", "numpy.number", "numpy.integer"):
            return False
        if q in ("enum.Enum", "enum.IntEnum", "enum.StrEnum"):
            from .pe import _is_enum

            return isinstance(x, Obj) and "_value_" in x.attrs and _is_enum(pe.src, x.cls)
        if q in ("pathlib.Path", "pathlib.PurePath", "os.PathLike"):
            import pathlib

            return isinstance(x, pathlib.PurePath)
        if q.startswith("collections.abc.") or q.startswith("typing."):
            nm = q.rsplit(".", 1)[1]
            if nm in ("Sequence", "Iterable", "Collection"):
                return isinstance(x, (list, tuple, str, Arr))
            if nm in ("Mapping", "MutableMapping", "Dict"):
                return isinstance(x, dict)
    raise Undecidable(f"isinstance against {t!r}")


def _round(pe, a):
    v = _exact(pe, a[0])
    nd = pe.as_index(a[1]) if len(a) > 1 and a[1] is not None else None
    if nd is None:
        return round(v)
    return Fraction(round(v, nd))


def _iter(pe, x):
    from .pe import _Iter

    return _Iter(pe.iterate(x))


def _getattr(pe, a):
    from .pe import PERaise

    try:
        return pe.getattr(a[0], a[1])
    except PERaise as e:
        if e.etype == "AttributeError" and len(a) > 2:
            return a[2]
        raise


def _hasattr(pe, o, name):
    from .pe import PERaise

    try:
        pe.getattr(o, name)
        return True
    except PERaise as e:
        if e.etype == "AttributeError":
            return False
        raise


def _type(pe, x):
    from .pe import ClassRef, ExtRef, Obj

    if isinstance(x, Obj):
        return ClassRef(x.cls)
    for t, nm in ((bool, "bool"), (int, "int"), (str, "str"), (list, "list"), (tuple, "tuple"), (dict, "dict")):
        if isinstance(x, t):
            return ExtRef("builtins." + nm)
    if isinstance(x, (Fraction, Node)):
        return ExtRef("builtins.float")
    if isinstance(x, Arr):
        return ExtRef("numpy.ndarray")
    return ExtRef("builtins.object")


# ---------------------------------------------------------------------- numpy helpers


def _shape(pe, s):
    if isinstance(s, (tuple, list)):
        return tuple(pe.as_index(x) for x in s)
    return (pe.as_index(s),)


def _dtype(a, k):
    d = k.get("dtype", a[1] if len(a) > 1 else None)
    s = repr(d)
    if "int" in s:
        return "int"
    if "complex" in s:
        return "complex"
    return "float"


def _asarr(pe, x):
    from .pe import Top, PEError

    if isinstance(x, Arr):
        return x
    if isinstance(x, (list, tuple)):
        return Arr.from_nested(_unnest(pe, x))
    if isinstance(x, Top):
        raise Undecidable(f"array from unknown: {x.why}")
    return Arr([x], ())


def _unnest(pe, x):
    if isinstance(x, (list, tuple)):
        return [_unnest(pe, e) for e in x]
    return x


def _array(pe, x, copy=True):
    from .pe import Top

    if isinstance(x, Top):
        return x
    if isinstance(x, Arr):
        return x.copy() if copy else x
    if isinstance(x, (list, tuple)):
        if getattr(pe, "np_scalars", False):
            from .fsmodel import NpScalar

            def plain(v):
                if isinstance(v, (list, tuple)):
                    return [plain(e) for e in v]
                if isinstance(v, Arr):
                    return [plain(e) for e in v]
                return v.value if isinstance(v, NpScalar) else v

            r = Arr.from_nested(_unnest(pe, plain(x)))
            # the array's type as numpy infers it: one float makes every element a float
            r.dtype = "np:int64" if all(isinstance(v, int) and not isinstance(v, bool) for v in r.flat()) else "np:float64"
            return r
        return Arr.from_nested(_unnest(pe, x))
    return x  # 0-d array of a scalar behaves as the scalar for our purposes


def _ascontig(pe, x):
    """np.ascontiguousarray: returns the SAME buffer when the input is already C-contiguous."""
    if isinstance(x, Arr):
        return x if x.is_contiguous() else x.copy()
    return _array(pe, x)


def _eye(pe, a, k):
    n = pe.as_index(a[0])
    m = pe.as_index(a[1]) if len(a) > 1 and a[1] is not None and not hasattr(a[1], "qname") else n
    out = Arr.full((n, m), 0, _dtype((), k))
    for i in range(min(n, m)):
        out[i, i] = 1
    return out


def _diag(pe, x):
    x = _asarr(pe, x)
    if x.ndim == 1:
        n = x.shape[0]
        out = Arr.full((n, n), 0)
        for i in range(n):
            out[i, i] = x[i]
        return out
    return Arr.from_nested([x[i, i] for i in range(min(x.shape))])


def _concat(pe, a, k):
    parts = [_asarr(pe, x) for x in pe.iterate(a[0])]
    axis = pe.as_index(k.get("axis", a[1] if len(a) > 1 else 0))
    if axis == 0:
        rows = []
        for p in parts:
            rows.extend(p.tolist() if p.ndim > 0 else [p.item()])
        return Arr.from_nested(rows)
    if axis in (1, -1) and all(p.ndim == 2 for p in parts):
        rows = []
        for i in range(parts[0].shape[0]):
            r = []
            for p in parts:
                r.extend(p[i].tolist())
            rows.append(r)
        return Arr.from_nested(rows)
    raise Undecidable("concatenate axis not modelled")


def _block(pe, x):
    rows = []
    for brow in x:
        blocks = [_asarr(pe, b) for b in brow]
        h = blocks[0].shape[0]
        for i in range(h):
            r = []
            for b in blocks:
                r.extend(b[i].tolist())
            rows.append(r)
    return Arr.from_nested(rows)


def _outer(pe, a, b):
    a, b = _asarr(pe, a), _asarr(pe, b)
    fa, fb = a.flat(), b.flat()
    return Arr([pe.s_mul(x, y) for x in fa for y in fb], (len(fa), len(fb)))


def _dot(pe, a, b):
    if not isinstance(a, (Arr, list, tuple)) or not isinstance(b, (Arr, list, tuple)):
        return pe.binop(ast.Mult(), a, b)
    return matmul(_asarr(pe, a), _asarr(pe, b), pe.s_add, pe.s_mul)


def _npsum(pe, a, k):
    from .pe import Top

    x = a[0]
    if isinstance(x, Top):
        return x
    axis = k.get("axis", a[1] if len(a) > 1 else None)
    x = _asarr(pe, x)
    if axis is None:
        return _sum(pe, x.flat(), 0)
    axis = pe.as_index(axis)
    if axis < 0:
        axis += x.ndim
    moved = x.transpose(*([axis] + [i for i in range(x.ndim) if i != axis]))
    acc = None
    for i in range(moved.shape[0]):
        s = moved[i]
        acc = s if acc is None else pe.binop(ast.Add(), acc, s)
    return acc if not isinstance(acc, Arr) else acc.copy()


def _npprod(pe, a, k):
    x = _asarr(pe, a[0])
    acc = 1
    for v in x.flat():
        acc = pe.s_mul(acc, v)
    return acc


def _cumsum(pe, x):
    x = _asarr(pe, x)
    out = []
    acc = 0
    for v in x.flat():
        acc = pe.s_add(acc, v)
        out.append(acc)
    return Arr.from_nested(out)


def _det(pe, m):
    n = m.shape[0]
    if m.ndim != 2 or m.shape[1] != n:
        raise Undecidable("det of non-square")
    if n == 1:
        return m[0, 0]
    if n == 2:
        return pe.s_sub(pe.s_mul(m[0, 0], m[1, 1]), pe.s_mul(m[0, 1], m[1, 0]))
    acc = 0
    for j in range(n):
        minor = Arr.from_nested([[m[i, jj] for jj in range(n) if jj != j] for i in range(1, n)])
        term = pe.s_mul(m[0, j], _det(pe, minor))
        acc = pe.s_add(acc, term) if j % 2 == 0 else pe.s_sub(acc, term)
    return acc


def _inv(pe, m):
    """formal inverse: adjugate / determinant (exact rational functions of the entries)"""
    n = m.shape[0]
    d = _det(pe, m)
    if n == 1:
        return Arr.from_nested([[pe.s_div(1, d)]])
    out = Arr.full((n, n), 0)
    for i in range(n):
        for j in range(n):
            minor = Arr.from_nested([[m[r, c] for c in range(n) if c != i] for r in range(n) if r != j])
            cof = _det(pe, minor)
            if (i + j) % 2:
                cof = pe.s_neg(cof)
            out[i, j] = pe.s_div(cof, d)
    return out


def _matpow(pe, m, k):
    n = m.shape[0]
    out = _eye(pe, [n], {})
    for _ in range(k):
        out = matmul(out, m, pe.s_add, pe.s_mul)
    return out


def _map1(pe, name, x):
    from .pe import Top

    if isinstance(x, Top):
        return x
    if isinstance(x, (list, tuple)):
        x = _asarr(pe, x)
    if isinstance(x, Arr):
        return elementwise(lambda v: pe.s_unary(name, v), x)
    return pe.s_unary(name, x)


def _close(pe, x, y, rtol, atol):
    """np.isclose on exact values; symbolic -> undecidable"""
    from .pe import _as_exact

    if isinstance(x, float) or isinstance(y, float):
        return x == y
    xe, ye = _as_exact(x), _as_exact(y)
    if xe is None or ye is None:
        if isinstance(x, Node) and isinstance(y, Node) and x is y:
            return True
        r = _close_numeric(x, y, rtol, atol)
        if r is not None:
            return r
        raise Undecidable(f"isclose on symbolic values {dag.short(x)} ~ {dag.short(y)}")
    return abs(Fraction(xe) - Fraction(ye)) <= atol + rtol * abs(Fraction(ye))


def _close_numeric(x, y, rtol, atol):
    """Closed-form constants (roots, logarithms of rationals): decided with 50-digit arithmetic when the margin is clear."""
    try:
        xn, yn = dag.tonode(x), dag.tonode(y)
        if {s_ for s_ in dag.symbols(xn) | dag.symbols(yn)} - {"I", "pi"}:
            return None
        from . import numeval

        unint = set()
        xv, yv = numeval.evaluate(xn, {}, uninterpreted=unint), numeval.evaluate(yn, {}, uninterpreted=unint)
        if unint:
            return None
        lhs = abs(xv - yv)
        rhs = numeval.mp.mpf(atol.numerator) / atol.denominator + (numeval.mp.mpf(rtol.numerator) / rtol.denominator) * abs(yv)
        if abs(lhs - rhs) <= numeval.mp.mpf(10) ** -30 * (abs(lhs) + abs(rhs) + 1):
            return None
        return bool(lhs <= rhs)
    except (KeyError, ValueError, TypeError, ZeroDivisionError):
        return None


def _tol(pe, a, k, i, name, default):
    v = k.get(name, a[i] if len(a) > i else default)
    return Fraction(_exact(pe, v))


def _isclose(pe, a, k):
    is_math = False
    rtol = _tol(pe, a, k, 2, "rtol", k.get("rel_tol", Fraction(1, 10 ** 5)))
    atol = _tol(pe, a, k, 3, "atol", k.get("abs_tol", Fraction(1, 10 ** 8)))
    if isinstance(a[0], Arr) or isinstance(a[1], Arr):
        return elementwise(lambda x, y: _close(pe, x, y, rtol, atol), a[0], a[1])
    return _close(pe, a[0], a[1], rtol, atol)


def _allclose(pe, a, k):
    r = _isclose(pe, a, k)
    if isinstance(r, Arr):
        return all(r.flat())
    return r


def _array_equal(pe, x, y):
    x, y = _asarr(pe, x), _asarr(pe, y)
    if x.shape != y.shape:
        return False
    return all(pe.truth(pe.compare(ast.Eq(), u, v)) for u, v in zip(x.flat(), y.flat()))


def _geomspace(pe, a, k):
    num = pe.as_index(k.get("num", a[2] if len(a) > 2 else 50))
    if num == 2:
        return Arr.from_nested([a[0], a[1]])
    if num == 1:
        return Arr.from_nested([a[0]])
    # general: a0 * (a1/a0)^(i/(num-1))
    r = pe.s_div(a[1], a[0])
    out = [a[0]]
    for i in range(1, num - 1):
        out.append(pe.s_mul(a[0], pe.s_pow(r, Fraction(i, num - 1))))
    out.append(a[1])
    return Arr.from_nested(out)


def _npsort(pe, x):
    x = _asarr(pe, x)
    return Arr.from_nested(sorted(x.flat(), key=lambda v: _key(pe, v)))


def _npargsort(pe, x):
    x = _asarr(pe, x).flat()
    return Arr.from_nested(sorted(range(len(x)), key=lambda i: _key(pe, x[i])), "int")


def _uniq(pe, x):
    out = []
    for v in _asarr(pe, x).flat():
        if not any(pe.truth(pe.compare(ast.Eq(), v, w)) for w in out):
            out.append(v)
    return out


def _digitize(pe, x, bins):
    """np.digitize(x, bins) for increasing bins: i such that bins[i-1] <= x < bins[i]"""
    b = _asarr(pe, bins).flat()

    def one(v):
        i = 0
        for e in b:
            if pe.truth(pe.compare(ast.GtE(), v, e)):
                i += 1
            else:
                break
        return i

    if isinstance(x, (Arr, list, tuple)):
        return elementwise(one, _asarr(pe, x))
    return one(x)


def _where(pe, a):
    if len(a) == 3:
        return elementwise(lambda c, x, y: x if pe.truth(c) else y, *a)
    x = _asarr(pe, a[0])
    if x.ndim == 1:
        return (Arr.from_nested([i for i, v in enumerate(x.flat()) if pe.truth(v)], "int"),)
    raise Undecidable("np.where on rank>1")


def _squeeze(pe, x):
    x = _asarr(pe, x)
    shape = [n for n in x.shape if n != 1]
    r = x.reshape(shape) if shape else x.flat()[0]
    return r


def _reduce(pe, a):
    f, it = a[0], pe.iterate(a[1])
    if len(a) > 2:
        acc = a[2]
    else:
        acc = it[0]
        it = it[1:]
    for x in it:
        acc = pe.apply(f, [acc, x], {})
    return acc


def _deepcopy(pe, x, shallow=False):
    from .pe import Obj

    if isinstance(x, Arr):
        return x.copy()
    if isinstance(x, list):
        return [(_deepcopy(pe, e) if not shallow else e) for e in x]
    if isinstance(x, dict):
        return {k: (_deepcopy(pe, v) if not shallow else v) for k, v in x.items()}
    if isinstance(x, tuple):
        return tuple((_deepcopy(pe, e) if not shallow else e) for e in x)
    if isinstance(x, Obj):
        if "_value_" in x.attrs and "_name_" in x.attrs:
            return x
        o = Obj(x.cls)
        o.attrs = {k: (_deepcopy(pe, v) if not shallow else v) for k, v in x.attrs.items()}
        return o
    return x


def _asdict(pe, o):
    from .pe import Obj

    if isinstance(o, Obj) and o.cls.is_dataclass:
        return {k: _asdict(pe, v) for k, v in o.attrs.items() if k in pe.all_fields(o.cls)}
    if isinstance(o, list):
        return [_asdict(pe, e) for e in o]
    if isinstance(o, tuple):
        return tuple(_asdict(pe, e) for e in o)
    if isinstance(o, dict):
        return {k: _asdict(pe, v) for k, v in o.items()}
    return _deepcopy(pe, o)


def _replace(pe, o, k):
    o2 = _deepcopy(pe, o, shallow=True)
    o2.attrs.update(k)
    return o2


def _product(pe, a, k):
    import itertools

    rep = pe.as_index(k.get("repeat", 1))
    return [tuple(t) for t in itertools.product(*[pe.iterate(x) for x in a], repeat=rep)]


# ---------------------------------------------------------------------- methods of builtin values


def builtin_method(pe, obj, name, args, kwargs):
    from .pe import PEError, PERaise, Top

    if isinstance(obj, Arr):
        if name == "copy":
            return obj.copy()
        if name == "tobytes":
            return ("bytes-of", tuple(obj.shape), tuple(pe.hashable(v) for v in obj.flat()))     # equal arrays give equal tokens
        if name == "tolist":
            return obj.tolist()
        if name == "item":
            return obj.item()
        if name == "flatten" or name == "ravel":
            return Arr.from_nested(obj.flat())
        if name == "reshape":
            return obj.reshape(*[(tuple(pe.as_index(y) for y in x) if isinstance(x, (tuple, list)) else pe.as_index(x)) for x in args])
        if name == "transpose":
            return obj.transpose(*args)
        if name == "sum":
            return _npsum(pe, [obj] + list(args), kwargs)
        if name == "dot":
            return matmul(obj, _asarr(pe, args[0]), pe.s_add, pe.s_mul)
        if name == "astype":
            return obj.copy()
        if name == "conj" or name == "conjugate":
            return elementwise(lambda v: pe.s_unary("conj", v), obj)
        if name == "fill":
            obj[...] = args[0]
            return None
        if name == "max":
            return _minmax(pe, [obj.flat()], {}, max)
        if name == "min":
            return _minmax(pe, [obj.flat()], {}, min)
        if name == "all":
            return all(pe.truth(x) for x in obj.flat())
        if name == "any":
            return any(pe.truth(x) for x in obj.flat())
        if name == "squeeze":
            return _squeeze(pe, obj)
        if name == "mean":
            return pe.s_div(_sum(pe, obj.flat(), 0), obj.size)
        if name == "sort" and len(obj.shape) == 1:   # in place
            obj[...] = Arr.from_nested(sorted(obj.flat(), key=lambda v: _key(pe, v)))
            return None
        raise PEError(f"ndarray.{name} not modelled")
    if isinstance(obj, list):
        if name == "append":
            obj.append(args[0])
            return None
        if name == "extend":
            obj.extend(pe.iterate(args[0]))
            return None
        if name == "insert":
            obj.insert(pe.as_index(args[0]), args[1])
            return None
        if name == "pop":
            try:
                return obj.pop(*[pe.as_index(x) for x in args])
            except IndexError as e:
                raise PERaise("IndexError", str(e))
        if name == "copy":
            return list(obj)
        if name == "index":
            for i, e in enumerate(obj):
                if pe.truth(pe.compare(ast.Eq(), e, args[0])):
                    return i
            raise PERaise("ValueError", f"{pe.to_py(args[0])!r} is not in list")
        if name == "count":
            return sum(1 for e in obj if pe.truth(pe.compare(ast.Eq(), e, args[0])))
        if name == "reverse":
            obj.reverse()
            return None
        if name == "sort":
            keyf = kwargs.get("key")
            obj.sort(key=(lambda x: _key(pe, pe.apply(keyf, [x], {}))) if keyf else (lambda x: _key(pe, x)),
                     reverse=pe.truth(kwargs.get("reverse", False)))
            return None
        if name == "remove":
            for i, e in enumerate(obj):
                if pe.truth(pe.compare(ast.Eq(), e, args[0])):
                    del obj[i]
                    return None
            raise PERaise("ValueError", "list.remove(x): x not in list")
        if name == "clear":
            obj.clear()
            return None
    if isinstance(obj, tuple):
        if name == "index":
            for i, e in enumerate(obj):
                if pe.truth(pe.compare(ast.Eq(), e, args[0])):
                    return i
            raise PERaise("ValueError", "tuple.index(x): x not in tuple")
        if name == "count":
            return sum(1 for e in obj if pe.truth(pe.compare(ast.Eq(), e, args[0])))
    if isinstance(obj, dict):
        if name == "get":
            k = pe.hashable(args[0])
            return obj.get(k, args[1] if len(args) > 1 else kwargs.get("default"))
        if name == "items":
            return [(k, v) for k, v in obj.items()]
        if name == "keys":
            return list(obj.keys())
        if name == "values":
            return list(obj.values())
        if name == "update":
            if args:
                obj.update(args[0] if isinstance(args[0], dict) else {pe.hashable(k): v for k, v in pe.iterate(args[0])})
            obj.update(kwargs)
            return None
        if name == "copy":
            return dict(obj)
        if name == "pop":
            k = pe.hashable(args[0])
            if k in obj:
                return obj.pop(k)
            if len(args) > 1:
                return args[1]
            raise PERaise("KeyError", repr(k))
        if name == "setdefault":
            return obj.setdefault(pe.hashable(args[0]), args[1] if len(args) > 1 else None)
        if name == "clear":
            obj.clear()
            return None
    if isinstance(obj, (set, frozenset)):
        if name == "add":
            obj.add(pe.hashable(args[0]))
            return None
        if name == "union":
            return obj.union(*[set(pe.hashable(x) for x in pe.iterate(a)) for a in args])
        if name == "intersection":
            return obj.intersection(*[set(pe.hashable(x) for x in pe.iterate(a)) for a in args])
        if name == "difference":
            return obj.difference(*[set(pe.hashable(x) for x in pe.iterate(a)) for a in args])
        if name == "issubset":
            return obj.issubset(set(pe.hashable(x) for x in pe.iterate(args[0])))
        if name == "update":
            obj.update(pe.hashable(x) for x in pe.iterate(args[0]))
            return None
        if name == "discard":
            obj.discard(pe.hashable(args[0]))
            return None
        if name == "copy":
            return set(obj)
    if isinstance(obj, str):
        if name == "format":
            return obj.format(*[pe.to_py(a) for a in args], **{k: pe.to_py(v) for k, v in kwargs.items()})
        if name == "join":
            return obj.join(str(pe.to_py(x)) for x in pe.iterate(args[0]))
        if name in ("startswith", "endswith", "split", "strip", "lower", "upper", "replace", "rstrip", "lstrip",
                    "isdigit", "find", "count", "title", "capitalize", "rsplit", "partition", "rpartition", "zfill"):
            r = getattr(obj, name)(*[pe.to_py(a) if not isinstance(a, (str, tuple)) else a for a in args])
            return list(r) if isinstance(r, list) else r
    if isinstance(obj, (Node, Fraction, int)):
        if name == "tobytes":
            return ("bytes-of", (), (pe.hashable(obj),))
        if name == "conjugate":
            return pe.s_unary("conj", obj) if isinstance(obj, Node) else obj
        if name == "item":
            return obj
        if name == "is_integer":
            return _exact(pe, obj) == int(_exact(pe, obj))
        if name == "copy":
            return obj
    if isinstance(obj, int) and not isinstance(obj, bool) and name in ("to_bytes", "bit_length"):
        try:
            return getattr(obj, name)(*[pe.to_py(a) for a in args], **{k: pe.to_py(v) for k, v in kwargs.items()})
        except OverflowError as e:
            raise PERaise("OverflowError", str(e))
    if isinstance(obj, (bytes, bytearray)) and name in ("decode", "hex", "startswith", "endswith"):
        return getattr(obj, name)(*args, **kwargs)
    raise PEError(f"method {type(obj).__name__}.{name} not modelled")


def _dc_fields(pe, o):
    """dataclasses.fields(obj or class): objects with .name (and .type as annotation text), ClassVar entries excluded"""
    from types import SimpleNamespace

    cls = o.cls
    out = []
    for name, (owner, default) in pe.all_fields(cls).items():
        ann = owner.fields()[name][0]
        typ = ann
        hook = getattr(pe, "annotation_hook", None)
        if hook is not None:   # the evaluated annotation (sa/typemodel.py), as dataclasses gives it at run time
            typ = hook(pe, owner, name)
        dflt = default
        if default is None:
            from .pe import ExtRef

            dflt = ExtRef("dataclasses.MISSING")
        out.append(SimpleNamespace(name=name, type=typ, default=dflt))
    return out
