"""Shared helpers for the flavour-space checks (C01, C32, C52): reference bases and symbolic operator members."""
from __future__ import annotations

from fractions import Fraction

from . import dag
from .arr import Arr
from .pe import PE, Obj

BR = "eko.basis_rotation"
PIDS = [22, -6, -5, -4, -3, -2, -1, 21, 1, 2, 3, 4, 5, 6]
QUARKS = "dusc bt".replace(" ", "")  # d u s c b t  (pid 1..6)


def idx(pid):
    return PIDS.index(pid)


def vec(weights: dict):
    v = [Fraction(0)] * 14
    for pid, w in weights.items():
        v[idx(pid)] = Fraction(w)
    return v


def quark_pm(q: int, sign: int):
    return vec({q: 1, -q: sign})


def reference_basis(nf: int, qed: bool):
    """label -> flavour content (list of 14 Fractions, order PIDS), written from the documented definitions of the
    intrinsic evolution bases with nf active flavours; NOT read from the repository tables."""
    B = {}
    act = list(range(1, nf + 1))
    B["g"] = vec({21: 1})
    B["ph"] = vec({22: 1})
    S = {}
    V = {}
    for q in act:
        S[q] = S[-q] = 1
        V[q], V[-q] = 1, -1
    B["S"] = vec(S)
    B["V"] = vec(V)
    if not qed:
        # T_{k^2-1} = sum_{j<k} q_j^+ - (k-1) q_k^+  in the order u, d, s, c, b, t
        order = [2, 1, 3, 4, 5, 6]
        for k in range(2, nf + 1):
            T, Vn = {}, {}
            for j in range(k - 1):
                q = order[j]
                T[q] = T[-q] = 1
                Vn[q], Vn[-q] = 1, -1
            q = order[k - 1]
            T[q] = T[-q] = -(k - 1)
            Vn[q], Vn[-q] = -(k - 1), (k - 1)
            B[f"T{k * k - 1}"] = vec(T)
            B[f"V{k * k - 1}"] = vec(Vn)
    else:
        ups = [q for q in act if q % 2 == 0]
        downs = [q for q in act if q % 2 == 1]
        r = Fraction(len(downs), len(ups))  # nd/nu
        Sd, Vd = {}, {}
        for q in ups:
            Sd[q] = Sd[-q] = r
            Vd[q], Vd[-q] = r, -r
        for q in downs:
            Sd[q] = Sd[-q] = -1
            Vd[q], Vd[-q] = -1, 1
        B["Sdelta"] = vec(Sd)
        B["Vdelta"] = vec(Vd)
        combos = {"d3": (3, {1: 1, 3: -1}), "u3": (4, {2: 1, 4: -1}), "d8": (5, {1: 1, 3: 1, 5: -2}), "u8": (6, {2: 1, 4: 1, 6: -2})}
        for name, (need, w) in combos.items():
            if nf >= need:
                T, Vn = {}, {}
                for q, c in w.items():
                    T[q] = T[-q] = c
                    Vn[q], Vn[-q] = c, -c
                B[f"T{name}"] = vec(T)
                B[f"V{name}"] = vec(Vn)
    names = {4: "c", 5: "b", 6: "t"}
    for q in range(nf + 1, 7):
        B[f"{names[q]}+"] = quark_pm(q, 1)
        B[f"{names[q]}-"] = quark_pm(q, -1)
    return B


def invert(rows):
    """exact inverse of a square matrix of Fractions (list of rows)"""
    n = len(rows)
    a = [list(r) + [Fraction(int(i == j)) for j in range(n)] for i, r in enumerate(rows)]
    for c in range(n):
        p = next((r for r in range(c, n) if a[r][c] != 0), None)
        if p is None:
            raise ZeroDivisionError("singular basis")
        a[c], a[p] = a[p], a[c]
        pv = a[c][c]
        a[c] = [x / pv for x in a[c]]
        for r in range(n):
            if r != c and a[r][c] != 0:
                f = a[r][c]
                a[r] = [x - f * y for x, y in zip(a[r], a[c])]
    return [r[n:] for r in a]


def make_member(pe: PE, value, n=1):
    """OpMember with an n x n value (symbolic scalar times identity pattern if scalar) and zero error"""
    cls = pe.src.cls("eko.member.OpMember")
    o = Obj(cls)
    if not isinstance(value, Arr):
        value = Arr.from_nested([[value if i == j else 0 for j in range(n)] for i in range(n)]) if n > 1 else Arr.from_nested([[value]])
    o.attrs["value"] = value
    o.attrs["error"] = Arr.full(value.shape, 0)
    return o


def symbolic_members(pe: PE, labels, prefix="o"):
    out = {}
    for lab in labels:
        name = f"{prefix}_{lab[0]}_{lab[1]}"
        out[tuple(lab)] = make_member(pe, dag.sym(name))
    return out


def reference_tensor(members: dict, nf_in: int, nf_out: int, qed: bool):
    """members: 'target.input' -> scalar (dag/number).  Returns 14x14 list of dag nodes:
    B_out^{-1} . O . B_in  on the intrinsic bases with nf_out / nf_in active flavours."""
    Bin = reference_basis(nf_in, qed)
    Bout = reference_basis(nf_out, qed)
    lin = sorted(Bin)
    lout = sorted(Bout)
    if len(lin) != 14 or len(lout) != 14:
        raise ValueError("intrinsic basis does not have 14 members")
    Binv = invert([Bout[l] for l in lout])  # columns: dual vectors; Binv[flavour][label]
    T = [[dag.ZERO for _ in range(14)] for _ in range(14)]
    for name, val in members.items():
        tgt, inp = name.split(".")
        if tgt not in Bout or inp not in Bin:
            raise KeyError(name)
        k = lout.index(tgt)
        for o in range(14):
            co = Binv[o][k]
            if co == 0:
                continue
            for i in range(14):
                ci = Bin[inp][i]
                if ci == 0:
                    continue
                T[o][i] = dag.add(T[o][i], dag.mul(co * ci, val))
    return T
