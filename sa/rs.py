"""Rust front-end (subset): lexical model of the crates for cross-language checks (C54), and a lark-based expression front-end for
the numeric kernels of crates/ekore (C28).  Only what the repository's Rust sources use is covered; anything else raises
AnalysisError (a vanished or unparsable anchor never passes silently)."""
from __future__ import annotations

import re
from dataclasses import dataclass, field
from pathlib import Path

from .core import AnalysisError, REPO


def strip_comments(text: str) -> str:
    """remove // and /* */ comments, keeping string literals and line structure"""
    out = []
    i, n = 0, len(text)
    while i < n:
        c = text[i]
        if c == '"':
            j = i + 1
            while j < n and text[j] != '"':
                j += 2 if text[j] == "\\" else 1
            out.append(text[i:j + 1])
            i = j + 1
        elif text.startswith("//", i):
            j = text.find("\n", i)
            i = n if j < 0 else j
        elif text.startswith("/*", i):
            j = text.find("*/", i)
            seg = text[i:(n if j < 0 else j + 2)]
            out.append("\n" * seg.count("\n"))
            i = n if j < 0 else j + 2
        else:
            out.append(c)
            i += 1
    return "".join(out)


@dataclass
class RsFile:
    path: Path
    rel: str
    text: str          # comment-free, tests module removed
    raw: str

    def line_of(self, pos: int) -> int:
        return self.text.count("\n", 0, pos) + 1

    def consts(self) -> dict:
        """const NAME: TYPE = literal;  ->  {NAME: python value}"""
        out = {}
        for m in re.finditer(r"\bconst\s+(\w+)\s*:\s*([^=;]+?)\s*=\s*([^;]+);", self.text):
            name, typ, val = m.group(1), m.group(2).strip(), m.group(3).strip()
            if val.startswith('"'):
                out[name] = val.strip('"')
            else:
                try:
                    out[name] = float(val.replace("_", "")) if any(ch in val for ch in ".eE") else int(val.replace("_", ""))
                except ValueError:
                    out[name] = val
        return out

    def find(self, pattern: str):
        return [(m, self.line_of(m.start())) for m in re.finditer(pattern, self.text, re.S)]


class Crates:
    def __init__(self, repo: Path | None = None):
        self.repo = Path(repo or REPO)
        root = self.repo / "crates"
        if not root.is_dir():
            raise AnalysisError(f"crates directory {root} missing")
        self.files: dict[str, RsFile] = {}
        for p in sorted(root.rglob("*.rs")):
            raw = p.read_text()
            body = raw.split("#[cfg(test)]")[0]
            self.files[str(p.relative_to(self.repo))] = RsFile(p, str(p.relative_to(self.repo)), strip_comments(body), raw)

    def file(self, rel: str) -> RsFile:
        if rel not in self.files:
            raise AnalysisError(f"anchor vanished: {rel}")
        return self.files[rel]
