"""Frozen literature table (DESIGN.md 3.5).  Normalisation a = alpha/(4 pi), d/dln(mu^2).

Every entry: exact value as a dag expression in nf (and zeta atoms) + citation + an independent
numeric form from the literature used only to self-test THIS table (never the repository).
"""
from __future__ import annotations

from fractions import Fraction as F

from . import dag

nf = dag.sym("nf")
z3 = dag.fn("zeta", 3)
z4 = dag.fn("zeta", 4)
z5 = dag.fn("zeta", 5)
ZETA_NUM = {3: 1.2020569031595942, 4: 1.0823232337111381, 5: 1.0369277551433699, 2: 1.6449340668482264}

CA, CF, TR, NC = 3, F(4, 3), F(1, 2), 3
EU2, ED2 = F(4, 9), F(1, 9)


def _p(*coefs):
    """polynomial in nf with given coefficients (each number or dag node)"""
    return dag.addn([dag.mul(c, dag.power(nf, i)) for i, c in enumerate(coefs)])


# ---- QCD beta function: Herzog, Ruijl, Ueda, Vermaseren, Vogt 2017 (arXiv:1701.01404) eq. 3.1-3.4 (a_s = alpha_s/4pi)
BETA_QCD = {
    (2, 0): (_p(11, F(-2, 3)), "Herzog:2017ohr eq 3.1", [11.0, -0.6666666666666666]),
    (3, 0): (_p(102, F(-38, 3)), "Herzog:2017ohr eq 3.2", [102.0, -12.666666666666666]),
    (4, 0): (_p(F(2857, 2), F(-5033, 18), F(325, 54)), "Herzog:2017ohr eq 3.3", [1428.5, -279.6111111, 6.018518519]),
    (5, 0): (_p(dag.add(F(149753, 6), dag.mul(3564, z3)),
                dag.neg(dag.add(F(1078361, 162), dag.mul(F(6508, 27), z3))),
                dag.add(F(50065, 162), dag.mul(F(6472, 81), z3)),
                F(1093, 729)),
             "Herzog:2017ohr eq 3.4 / van Ritbergen-Vermaseren-Larin 1997", [29242.964, -6946.2896, 405.08904, 1.4993141]),
}

# ---- quark mass anomalous dimension: Vermaseren, Larin, van Ritbergen 1997 (hep-ph/9703284) eq 6 / Chetyrkin 1997
# (hep-ph/9703278); gamma_m = sum gamma_k a^(k+1), a = alpha_s/4pi  (their coefficients in alpha_s/pi times 4^(k+1))
GAMMA_QCD = {
    1: (_p(4), "VLR97 gamma_0 = 1 (x4)", [4.0]),
    2: (_p(F(202, 3), F(-20, 9)), "VLR97 gamma_1 (x16)", [67.33333333, -2.222222222]),
    3: (_p(1249, dag.neg(dag.add(F(2216, 27), dag.mul(F(160, 3), z3))), F(-140, 81)),
        "VLR97 gamma_2 (x64)", [1249.0, -146.18378, -1.728395062]),
    4: (_p(dag.addn([F(4603055, 162), dag.mul(F(135680, 27), z3), dag.mul(-8800, z5)]),
           dag.addn([F(-91723, 27), dag.mul(F(-34192, 9), z3), dag.mul(880, z4), dag.mul(F(18400, 9), z5)]),
           dag.addn([F(5242, 243), dag.mul(F(800, 9), z3), dag.mul(F(-160, 3), z4)]),
           dag.addn([F(-332, 243), dag.mul(F(64, 27), z3)])),
        "VLR97 eq 6 / Chetyrkin97: gamma_3/256 = 98.9434 - 19.1075 nf + 0.276163 nf^2 + 0.00579322 nf^3",
        [256 * 98.9434, 256 * -19.1075, 256 * 0.276163, 256 * 0.00579322]),
}


def _charges(n: int):
    nu = n // 2
    nd = n - nu
    return nu, nd


# ---- QED and mixed coefficients: Surguladze 1996 (hep-ph/9803211) ; per concrete nf (charge sums) and nl
def beta_qed_aem2(n, nl):
    nu, nd = _charges(n)
    return F(-4, 3) * (nl + NC * (nu * EU2 + nd * ED2))


def beta_qed_aem3(n, nl):
    nu, nd = _charges(n)
    return F(-4) * (nl + NC * (nu * EU2 ** 2 + nd * ED2 ** 2))


def beta_qcd_as2aem1(n):
    nu, nd = _charges(n)
    return F(-4) * TR * (nu * EU2 + nd * ED2)


def beta_qed_aem2as1(n):
    nu, nd = _charges(n)
    return F(-4) * CF * NC * (nu * EU2 + nd * ED2)


def selftest():
    """the table's own numeric cross-check (floats are used here only, on the table itself)"""
    bad = []
    for name, tab in (("beta", BETA_QCD), ("gamma", GAMMA_QCD)):
        for k, (expr, cite, nums) in tab.items():
            import sympy as sp

            e = dag.to_sympy(expr, fntab={"zeta": lambda x: sp.Float(ZETA_NUM[int(x)])})
            poly = sp.Poly(sp.expand(e), sp.Symbol("nf")) if e.has(sp.Symbol("nf")) else None
            coefs = list(reversed(poly.all_coeffs())) if poly is not None else [e]
            for i, ref in enumerate(nums):
                got = float(coefs[i]) if i < len(coefs) else 0.0
                if abs(got - ref) > 2e-5 * max(1.0, abs(ref)):
                    bad.append(f"{name}{k} nf^{i}: table {got} vs literature numeric {ref}")
    return bad
