"""Exact special values of harmonic sums and related Mellin transforms (from their DEFINITIONS, not from the repository).

Values live in Q[z2, z3, z4, z5, l2] (zeta(k), log 2), as sympy expressions.  Integer-argument sums are finite nested
sums; half-integer arguments use polygamma special values; g3(N) = M[Li2(x)/(1+x)](N) uses
g3(1) = zeta2 log2 - 5/8 zeta3 and the exact recurrence g3(N) + g3(N+1) = (zeta2 - S1(N)/N)/N.
"""
from __future__ import annotations

from fractions import Fraction

import sympy as sp

z2, z3, z4, z5, l2 = sp.symbols("z2 z3 z4 z5 l2")
ZETA = {2: z2, 3: z3, 4: z4, 5: z5}
NUM = {z2: sp.Float("1.64493406684822643647241516664602518921894990120679843773556", 50),
       z3: sp.Float("1.20205690315959428539973816151144999076498629234049888179227", 50),
       z4: sp.Float("1.08232323371113819151600369654116790277475095191872690768298", 50),
       z5: sp.Float("1.03692775514336992633136548645703416805708091950191281197419", 50),
       l2: sp.Float("0.693147180559945309417232121458176568075500134360255254120680", 50)}


def R(x):
    x = sp.nsimplify(x) if not isinstance(x, (sp.Rational, sp.Integer)) else x
    return x


def S(k: int, n):
    """harmonic sum S_k(n) for n a non-negative integer or half-integer"""
    n = sp.Rational(n)
    if n.q == 1:
        if n < 0:
            raise ValueError("negative argument")
        return sum(sp.Rational(1, i ** k) for i in range(1, int(n) + 1)) if n > 0 else sp.Integer(0)
    if n.q == 2 and n > 0:
        # S_k(1/2) from polygamma special values, then the recurrence S_k(x+1) = S_k(x) + 1/(x+1)^k
        base = {1: 2 - 2 * l2, 2: 4 - 2 * z2, 3: 8 - 6 * z3, 4: 16 - 14 * z4, 5: 32 - 30 * z5}[k]
        x = sp.Rational(1, 2)
        v = base
        while x < n:
            x += 1
            v += 1 / x ** k
        return v
    raise ValueError(f"S_{k}({n}) not tabulated")


def Sm(k: int, n, flag: int):
    """analytic continuation of S_{-k}: flag 1 (even-type), 0 (odd-type)"""
    n = sp.Rational(n)
    arg = n / 2 if flag == 1 else (n - 1) / 2
    return sp.Rational(1, 2 ** (k - 1)) * S(k, arg) - S(k, n)


def nested(indices, n: int):
    """finite nested harmonic sum S_{a1,a2,...}(n) with negative indices alternating (definition)"""
    n = int(n)

    def rec(idx, m):
        if not idx:
            return sp.Integer(1)
        a = idx[0]
        tot = sp.Integer(0)
        for i in range(1, m + 1):
            sgn = (-1) ** i if a < 0 else 1
            tot += sp.Rational(sgn, i ** abs(a)) * rec(idx[1:], i)
        return tot

    return rec(list(indices), n)


def g3(n):
    """M[Li2(x)/(1+x)](n), n positive integer"""
    n = int(n)
    v = z2 * l2 - sp.Rational(5, 8) * z3  # n = 1
    for m in range(1, n):
        v = (z2 - S(1, m) / m) / m - v
    return v


NESTED = {"S21": (2, 1), "S2m1": (2, -1), "Sm21": (-2, 1), "Sm2m1": (-2, -1), "S31": (3, 1), "Sm31": (-3, 1), "Sm22": (-2, 2),
          "S211": (2, 1, 1), "Sm211": (-2, 1, 1)}


def fntab():
    """atom name -> callable for dag.to_sympy (arguments are exact sympy numbers)"""
    t = {"zeta": lambda k: ZETA[int(k)], "log": lambda x: l2 if x == 2 else sp.log(x)}
    for k in range(1, 6):
        t[f"H_S{k}"] = (lambda k: lambda n: S(k, n))(k)
        t[f"H_Sm{k}"] = (lambda k: lambda n, f: Sm(k, n, int(f)))(k)
    for k in range(1, 4):
        t[f"H_S{k}h"] = (lambda k: lambda n: S(k, sp.Rational(n) / 2))(k)
        t[f"H_S{k}mh"] = (lambda k: lambda n: S(k, (sp.Rational(n) - 1) / 2))(k)
        t[f"H_S{k}ph"] = (lambda k: lambda n: S(k, (sp.Rational(n) + 1) / 2))(k)
    t["H_S1p2"] = lambda n: S(1, sp.Rational(n) + 2)
    t["H_g3"] = lambda n: g3(n)
    t["H_g3p2"] = lambda n: g3(int(n) + 2)
    for name, idx in NESTED.items():
        if any(i < 0 for i in idx):
            def f(n, flag, idx=idx):
                n = sp.Rational(n)
                if n.q != 1 or (int(n) % 2 == 0) != (int(flag) == 1):
                    raise ValueError("nested alternating sum requested with a parity flag that does not match the integer moment")
                return nested(idx, int(n))
            t["H_" + name] = f
        else:
            t["H_" + name] = (lambda idx: lambda n: nested(idx, int(n)))(idx)
    return t


def numeric(expr, digits=30):
    expr = sp.sympify(expr)
    sub = dict(NUM)
    for s in expr.free_symbols:
        if s.name == "pi":
            sub[s] = sp.pi
        elif s.name == "euler_gamma":
            sub[s] = sp.EulerGamma
    return sp.N(expr.subs(sub), digits + 20).evalf(digits)
