"""CLI: python3-vt -m sa.check C20 [--tier quick|thorough] [--replay file]"""
from __future__ import annotations

import argparse
import importlib
import json
import os
import sys

from .core import big_stack, run_check

# property id -> (module, evidence level)
REGISTRY: dict[str, tuple[str, str]] = {}


def _discover():
    import pkgutil
    from . import checks

    for mi in pkgutil.iter_modules(checks.__path__):
        if mi.name.startswith("c") and mi.name[1:].isdigit():
            REGISTRY[mi.name.upper()] = (f"sa.checks.{mi.name}", "")


def main(argv=None) -> int:
    ap = argparse.ArgumentParser()
    ap.add_argument("pid")
    ap.add_argument("--tier", default=os.environ.get("VERIF_TIER", "quick"), choices=["quick", "thorough"])
    ap.add_argument("--replay", default=None)
    args = ap.parse_args(argv)
    _discover()
    pid = args.pid.upper()
    if pid not in REGISTRY:
        print(f"ANALYSIS-ERROR property={pid} no such check")
        return 2
    try:
        seed = int(os.environ.get("VERIF_SEED", "0") or 0)
    except ValueError:
        seed = 0
    only = None
    if args.replay:
        try:
            rec = json.load(open(args.replay))
            only = rec["key"]
            seed = int(rec.get("seed", seed))
        except Exception as e:
            print(f"ANALYSIS-ERROR property={pid} unreadable replay file: {e}")
            return 2
    try:
        mod = importlib.import_module(REGISTRY[pid][0])
    except Exception as e:
        import traceback

        traceback.print_exc()
        print(f"ANALYSIS-ERROR property={pid} cannot load check: {e}")
        return 2
    level = getattr(mod, "LEVEL", "other")
    if args.tier == "thorough":
        from . import dag

        dag.K_MULT = 4      # four times as many independent random interpretations for every identity test
    return run_check(pid, lambda chk: big_stack(lambda: mod.run(chk)), args.tier, seed, level, only)


if __name__ == "__main__":
    sys.exit(main())
