"""Generate /verif/MANIFEST.json from the check modules' META and the not-applicable table.

python3-vt -m sa.manifest      (validates against /root/.vp/MANIFEST.schema.json when present)
"""
from __future__ import annotations

import importlib
import json
import pkgutil
from pathlib import Path

VERIF = Path(__file__).resolve().parent.parent

# Properties not claimed (DESIGN.md section 6). A property listed here AND having a check module
# is an error.
NOT_APPLICABLE = {
    "C05": "sum rules of evolved PDFs depend on Mellin-quadrature and interpolation accuracy; no source-visible clause beyond those decided under C11/C25/C34",
    "C06": "numerical agreement of split evolution paths and its decrease under grid refinement are runtime quantities; exact kernel composition is C10, part ordering is C02",
    "C50": "a scaling law in a_s of end-to-end numerical results (x-space distributions under a rescaled coupling); the N-space ingredients it follows from are decided elsewhere: kernels solve their equation (C07/C08), the coupling's decoupling logarithms (C16), the renormalisation-group logarithms of the matching elements through third order in the non-singlet sector and at first order in the singlet (C29), matching wiring (C02/C19)",
}

# Properties whose check is not built (yet); reason is cost, stated honestly.
NOT_BUILT: dict[str, str] = {}


def build() -> dict:
    from . import checks

    props = [json.loads(l) for l in (VERIF / "properties.jsonl").read_text().splitlines() if l.strip()]
    ids = [p["id"] for p in props]
    mods = {}
    for mi in pkgutil.iter_modules(checks.__path__):
        if mi.name.startswith("c") and mi.name[1:].isdigit():
            mods[mi.name.upper()] = importlib.import_module(f"sa.checks.{mi.name}")
    out_checks = []
    na = []
    for pid in ids:
        if pid in mods:
            assert pid not in NOT_APPLICABLE, pid
            meta = mods[pid].META
            level = getattr(mods[pid], "LEVEL", "other")
            out_checks.append({
                "property_id": pid,
                "quick_cmd": f"./check {pid} --tier quick",
                "thorough_cmd": f"./check {pid} --tier thorough",
                "evidence_file": f"evidence/{pid}.json",
                "replay_cmd_template": f"./check {pid} --replay {{path}}",
                "engine": meta.get("engine", "sa"),
                "level_claimed": {
                    "category": level,
                    "text": meta["text"],
                    "design_ref": meta.get("design_ref", f"DESIGN.md section 5, {pid}"),
                },
                "level_note": meta["note"],
                "technique": meta["technique"],
            })
        elif pid in NOT_APPLICABLE:
            na.append({"property_id": pid, "reason": NOT_APPLICABLE[pid]})
        else:
            na.append({"property_id": pid, "reason": NOT_BUILT.get(
                pid, "static check designed (DESIGN.md section 5) but not built; not claimed")})
    return {
        "version": 1,
        "setup_cmd": "python3-vt -B -m sa.selfcheck",
        "hooks": {
            "guard": "NNPDF_EKO_VERIF",
            "enable": "none needed: the checks parse /repo's working tree and never build or run it",
            "baseline_off_cmd": "cd /repo && /venv/bin/python -m pytest -ra -q -p no:cacheprovider --timeout=900 --continue-on-collection-errors",
            "source_commits": [],
            "add_only": True,
        },
        "engines": [
            {"name": "sa", "path": "sa/", "serves_properties": [c["property_id"] for c in out_checks],
             "kind_free_text": "repository-specific static analysis on Python ast (source model, CFG, call graph, "
                               "effects, formula extraction by partial evaluation, polynomial identity testing) "
                               "plus a small Rust front-end; never imports or executes the repository"},
        ],
        "checks": out_checks,
        "notes": "All checks are static: they parse /repo's current working tree on every run. Exit 2 + "
                 "ANALYSIS-ERROR means an anchor vanished or a value could not be decided (never a pass). "
                 "Known findings: known_findings.txt.",
        "not_applicable": na,
    }


def main():
    m = build()
    (VERIF / "MANIFEST.json").write_text(json.dumps(m, indent=1) + "\n")
    schema = Path("/root/.vp/MANIFEST.schema.json")
    if schema.exists():
        try:
            import jsonschema

            jsonschema.validate(m, json.loads(schema.read_text()))
            print("MANIFEST.json valid;", len(m["checks"]), "checks,", len(m["not_applicable"]), "not applicable")
        except ImportError:
            print("MANIFEST.json written (jsonschema not available)")


if __name__ == "__main__":
    main()
