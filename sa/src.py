"""SRC - source model of /repo/src: modules, imports, functions, classes, call resolution.

Everything is derived from ``ast``; the repository is never imported.
"""
from __future__ import annotations

import ast
import os
from dataclasses import dataclass, field
from pathlib import Path

from .core import REPO, AnalysisError

PACKAGES = ("eko", "ekore", "ekobox")


@dataclass
class Func:
    qname: str            # e.g. eko.kernels.non_singlet.lo_exact  or eko.couplings.Couplings.compute
    module: "Module"
    node: ast.FunctionDef
    cls: "Class | None" = None
    parent: "Func | None" = None  # for nested defs

    @property
    def name(self):
        return self.node.name

    @property
    def lineno(self):
        return self.node.lineno

    @property
    def where(self):
        return f"{self.module.relpath}:{self.node.lineno}"

    def decorator_names(self):
        out = []
        for d in self.node.decorator_list:
            out.append(ast.unparse(d))
        return out

    @property
    def is_njit(self):
        for d in self.node.decorator_list:
            s = ast.unparse(d)
            if "njit" in s or s.endswith(".jit") or s.startswith("nb.jit") or "cfunc" in s:
                return True
        if self.cls is not None and self.cls.is_jitclass:
            return True
        return False

    @property
    def params(self):
        a = self.node.args
        return [x.arg for x in a.posonlyargs + a.args]


@dataclass
class Class:
    qname: str
    module: "Module"
    node: ast.ClassDef
    methods: dict[str, Func] = field(default_factory=dict)

    @property
    def is_jitclass(self):
        return any("jitclass" in ast.unparse(d) for d in self.node.decorator_list)

    @property
    def is_dataclass(self):
        return any("dataclass" in ast.unparse(d) for d in self.node.decorator_list)

    def fields(self):
        """dataclass-style annotated fields: name -> (annotation str, default node|None)"""
        out = {}
        for st in self.node.body:
            if isinstance(st, ast.AnnAssign) and isinstance(st.target, ast.Name):
                out[st.target.id] = (ast.unparse(st.annotation), st.value)
        return out

    @property
    def where(self):
        return f"{self.module.relpath}:{self.node.lineno}"


@dataclass
class Module:
    name: str
    path: Path
    relpath: str
    tree: ast.Module
    source: str
    is_pkg: bool
    imports: dict[str, str] = field(default_factory=dict)   # local name -> qualified target
    funcs: dict[str, Func] = field(default_factory=dict)
    classes: dict[str, Class] = field(default_factory=dict)
    consts: dict[str, ast.expr] = field(default_factory=dict)  # module level NAME = expr

    @property
    def package(self):
        return self.name if self.is_pkg else self.name.rpartition(".")[0]


class Source:
    def __init__(self, repo: Path | None = None, packages=PACKAGES):
        self.repo = Path(repo or REPO)
        self.modules: dict[str, Module] = {}
        self.funcs: dict[str, Func] = {}
        self.classes: dict[str, Class] = {}
        self.nfiles = 0
        self.nlines = 0
        src = self.repo / "src"
        if not src.is_dir():
            raise AnalysisError(f"source root {src} missing")
        for pkg in packages:
            root = src / pkg
            if not root.is_dir():
                raise AnalysisError(f"package {root} missing")
            for p in sorted(root.rglob("*.py")):
                self._load(p, src)
        for m in self.modules.values():
            self._index(m)

    # -- loading ----------------------------------------------------------
    def _load(self, p: Path, src: Path):
        rel = p.relative_to(src)
        parts = list(rel.with_suffix("").parts)
        is_pkg = parts[-1] == "__init__"
        if is_pkg:
            parts = parts[:-1]
        name = ".".join(parts)
        text = p.read_text()
        try:
            tree = ast.parse(text, filename=str(p))
        except SyntaxError as e:
            raise AnalysisError(f"cannot parse {p}: {e}")
        _inline_single_use_temporaries(tree)
        self.nfiles += 1
        self.nlines += text.count("\n")
        self.modules[name] = Module(name, p, str(p.relative_to(self.repo)), tree, text, is_pkg)

    def _index(self, m: Module):
        for st in m.tree.body:
            self._index_stmt(m, st)

    def _index_stmt(self, m: Module, st):
        if isinstance(st, ast.Import):
            for a in st.names:
                if a.asname:
                    m.imports[a.asname] = a.name
                else:
                    m.imports[a.name.split(".")[0]] = a.name.split(".")[0]
        elif isinstance(st, ast.ImportFrom):
            base = self._from_base(m, st)
            for a in st.names:
                m.imports[a.asname or a.name] = f"{base}.{a.name}" if base else a.name
        elif isinstance(st, (ast.FunctionDef, ast.AsyncFunctionDef)):
            f = Func(f"{m.name}.{st.name}", m, st)
            m.funcs[st.name] = f
            self.funcs[f.qname] = f
            self._index_nested(f)
        elif isinstance(st, ast.ClassDef):
            c = Class(f"{m.name}.{st.name}", m, st)
            m.classes[st.name] = c
            self.classes[c.qname] = c
            for b in st.body:
                if isinstance(b, (ast.FunctionDef, ast.AsyncFunctionDef)):
                    f = Func(f"{c.qname}.{b.name}", m, b, cls=c)
                    # property setters share a name; keep the first (getter) under the plain name
                    key = b.name
                    if key in c.methods:
                        key = b.name + "@" + ",".join(ast.unparse(d) for d in b.decorator_list)
                        f.qname = f"{c.qname}.{key}"
                    c.methods[key] = f
                    self.funcs[f.qname] = f
                    self._index_nested(f)
        elif isinstance(st, ast.Assign):
            for t in st.targets:
                if isinstance(t, ast.Name):
                    m.consts[t.id] = st.value
                elif isinstance(t, ast.Tuple) and isinstance(st.value, ast.Tuple) and len(t.elts) == len(st.value.elts):
                    for tt, vv in zip(t.elts, st.value.elts):
                        if isinstance(tt, ast.Name):
                            m.consts[tt.id] = vv
        elif isinstance(st, ast.AnnAssign) and isinstance(st.target, ast.Name) and st.value is not None:
            m.consts[st.target.id] = st.value
        elif isinstance(st, (ast.If, ast.Try)):
            for b in getattr(st, "body", []) + getattr(st, "orelse", []):
                self._index_stmt(m, b)

    def _index_nested(self, f: Func):
        for st in ast.walk(f.node):
            if st is f.node:
                continue
            if isinstance(st, ast.FunctionDef):
                g = Func(f"{f.qname}.<locals>.{st.name}", f.module, st, cls=None, parent=f)
                self.funcs.setdefault(g.qname, g)

    def _from_base(self, m: Module, st: ast.ImportFrom) -> str:
        if st.level == 0:
            return st.module or ""
        pkg = m.package.split(".")
        up = st.level - 1
        if up:
            pkg = pkg[:-up]
        base = ".".join(pkg)
        if st.module:
            base = f"{base}.{st.module}" if base else st.module
        return base

    # -- resolution -------------------------------------------------------
    def canonical(self, qname: str, depth: int = 0) -> str:
        """Follow re-exports: eko.kernels.ns -> eko.kernels.non_singlet etc."""
        if depth > 8:
            return qname
        if qname in self.modules or qname in self.funcs or qname in self.classes:
            return qname
        head, _, tail = qname.rpartition(".")
        if not head:
            return qname
        head_c = self.canonical(head, depth + 1)
        if head_c in self.modules:
            mod = self.modules[head_c]
            if tail in mod.imports:
                return self.canonical(mod.imports[tail], depth + 1)
            if tail in mod.funcs:
                return mod.funcs[tail].qname
            if tail in mod.classes:
                return mod.classes[tail].qname
            if f"{head_c}.{tail}" in self.modules:
                return f"{head_c}.{tail}"
            return f"{head_c}.{tail}"
        if head_c in self.classes:
            c = self.classes[head_c]
            f = self.find_method(c, tail)
            if f:
                return f.qname
        return f"{head_c}.{tail}"

    def dotted(self, node) -> str | None:
        if isinstance(node, ast.Name):
            return node.id
        if isinstance(node, ast.Attribute):
            b = self.dotted(node.value)
            return f"{b}.{node.attr}" if b else None
        return None

    def resolve_name(self, m: Module, dotted: str) -> str | None:
        """Resolve a dotted expression used in module m to a canonical qualified name."""
        head, _, rest = dotted.partition(".")
        if head in m.imports:
            q = m.imports[head]
        elif head in m.funcs:
            q = m.funcs[head].qname
        elif head in m.classes:
            q = m.classes[head].qname
        elif head in m.consts:
            q = f"{m.name}.{head}"
        else:
            return None
        if rest:
            q = f"{q}.{rest}"
        return self.canonical(q)

    def class_bases(self, c: Class):
        out = []
        for b in c.node.bases:
            d = self.dotted(b)
            if d:
                q = self.resolve_name(c.module, d)
                if q in self.classes:
                    out.append(self.classes[q])
        return out

    def find_method(self, c: Class, name: str, seen=None) -> Func | None:
        seen = seen or set()
        if c.qname in seen:
            return None
        seen.add(c.qname)
        if name in c.methods:
            return c.methods[name]
        for b in self.class_bases(c):
            f = self.find_method(b, name, seen)
            if f:
                return f
        return None

    def local_receivers(self, f: Func) -> dict:
        """local names of f bound exactly once to a call-free attribute chain (`acc = self.access`): name -> dotted chain"""
        cache = self.__dict__.setdefault("_recv_cache", {})
        if id(f) not in cache:
            stores: dict = {}
            for n in ast.walk(f.node):
                if isinstance(n, ast.Name) and isinstance(n.ctx, (ast.Store, ast.Del)):
                    stores[n.id] = stores.get(n.id, 0) + 1
            out = {}
            for n in ast.walk(f.node):
                if isinstance(n, ast.Assign) and len(n.targets) == 1 and isinstance(n.targets[0], ast.Name) and stores.get(n.targets[0].id) == 1 \
                        and isinstance(n.value, ast.Attribute) and n.targets[0].id not in f.params:
                    d = self.dotted(n.value)
                    if d:
                        out[n.targets[0].id] = d
            cache[id(f)] = out
        return cache[id(f)]

    @staticmethod
    def call_arg(callee: Func, call: ast.Call, name: str, bound: bool = False):
        """expression passed for parameter `name` of `callee` at `call` (by position or by keyword; `bound`: the call goes
        through an instance, so the first parameter is the receiver); None when omitted or hidden behind */** arguments"""
        for k in call.keywords:
            if k.arg == name:
                return k.value
        ps = list(callee.params)
        if name not in ps:
            return None
        i = ps.index(name) - (1 if bound else 0)
        if 0 <= i < len(call.args) and not any(isinstance(a, ast.Starred) for a in call.args[:i + 1]):
            return call.args[i]
        return None

    def resolve_call(self, f: Func, call: ast.Call, local_types: dict | None = None):
        """Return Func|Class|str(qualified external)|None for the callee of `call` inside f."""
        fn = call.func
        m = f.module
        d = self.dotted(fn)
        if d is None:
            return None
        head = d.split(".")[0]
        recv = self.local_receivers(f)
        if head in recv and "." in d:          # `acc = self.access; acc.assert_writeable()` resolves like `self.access.assert_writeable()`
            d = recv[head] + d[len(head):]
            head = d.split(".")[0]
        # nested local def
        if isinstance(fn, ast.Name):
            ff = f
            while ff is not None:
                q = f"{ff.qname}.<locals>.{fn.id}"
                if q in self.funcs:
                    return self.funcs[q]
                ff = ff.parent
        if head in ("self", "cls") and f.cls is not None or (f.parent and f.parent.cls and head in ("self", "cls")):
            cls = f.cls or (f.parent.cls if f.parent else None)
            parts = d.split(".")
            if len(parts) == 2 and cls is not None:
                g = self.find_method(cls, parts[1])
                if g:
                    return g
            if local_types and len(parts) >= 3:
                key = ".".join(parts[:-1])
                if key in local_types and local_types[key] in self.classes:
                    g = self.find_method(self.classes[local_types[key]], parts[-1])
                    if g:
                        return g
            return None
        if local_types:
            parts = d.split(".")
            for i in range(len(parts) - 1, 0, -1):
                key = ".".join(parts[:i])
                if key in local_types and local_types[key] in self.classes and i == len(parts) - 1:
                    g = self.find_method(self.classes[local_types[key]], parts[-1])
                    if g:
                        return g
        q = self.resolve_name(m, d)
        if q is None:
            return None
        if q in self.funcs:
            return self.funcs[q]
        if q in self.classes:
            return self.classes[q]
        return q

    # -- helpers ----------------------------------------------------------
    def func(self, qname: str) -> Func:
        if qname not in self.funcs:
            raise AnalysisError(f"anchor vanished: function {qname}")
        return self.funcs[qname]

    def cls(self, qname: str) -> Class:
        if qname not in self.classes:
            raise AnalysisError(f"anchor vanished: class {qname}")
        return self.classes[qname]

    def module(self, name: str) -> Module:
        if name not in self.modules:
            raise AnalysisError(f"anchor vanished: module {name}")
        return self.modules[name]

    def const(self, modname: str, name: str) -> ast.expr:
        m = self.module(modname)
        if name not in m.consts:
            raise AnalysisError(f"anchor vanished: constant {modname}.{name}")
        return m.consts[name]

    def calls_in(self, f: Func):
        """All ast.Call nodes lexically in f, excluding nested defs' bodies."""
        out = []

        def walk(n):
            for ch in ast.iter_child_nodes(n):
                if isinstance(ch, (ast.FunctionDef, ast.AsyncFunctionDef, ast.ClassDef, ast.Lambda)):
                    continue
                if isinstance(ch, ast.Call):
                    out.append(ch)
                walk(ch)

        walk(f.node)
        return out

    def field_types(self, c: Class) -> dict:
        """'self.<field>' -> class qname, from the annotated fields of c (and its bases)"""
        out = {}
        for b in self.class_bases(c):
            out.update(self.field_types(b))
        for st in c.node.body:
            if isinstance(st, ast.AnnAssign) and isinstance(st.target, ast.Name):
                ann = st.annotation
                if isinstance(ann, ast.Subscript):  # Inventory[Evolution], Optional[EKO]
                    base = self.dotted(ann.value)
                    if base in ("Optional", "typing.Optional"):
                        ann = ann.slice
                    else:
                        ann = ann.value
                d = self.dotted(ann)
                if d:
                    q = self.resolve_name(c.module, d)
                    if q in self.classes:
                        out[f"self.{st.target.id}"] = q
        return out

    def callgraph(self, local_types_for=None):
        """edges: caller qname -> set of callee qnames (repo functions; classes map to __init__/__post_init__)."""
        edges: dict[str, set[str]] = {}
        unresolved: dict[str, list[str]] = {}
        if local_types_for is None:
            cache: dict = {}

            def local_types_for(f):
                c = f.cls or (f.parent.cls if f.parent else None)
                if c is None:
                    return None
                if c.qname not in cache:
                    cache[c.qname] = self.field_types(c)
                return cache[c.qname]
        for q, f in self.funcs.items():
            es = edges.setdefault(q, set())
            lt = local_types_for(f) if local_types_for else None
            for c in self.calls_in(f):
                r = self.resolve_call(f, c, lt)
                if isinstance(r, Func):
                    es.add(r.qname)
                elif isinstance(r, Class):
                    for nm in ("__init__", "__post_init__"):
                        g = self.find_method(r, nm)
                        if g:
                            es.add(g.qname)
                elif r is None:
                    unresolved.setdefault(q, []).append(ast.unparse(c.func))
            # nested defs are reachable from their parent
            for g in self.funcs.values():
                if g.parent is f:
                    es.add(g.qname)
        return edges, unresolved

    def closure(self, roots, edges):
        seen = set()
        stack = list(roots)
        while stack:
            q = stack.pop()
            if q in seen:
                continue
            seen.add(q)
            stack.extend(edges.get(q, ()))
        return seen


_CACHE: dict[str, Source] = {}


def load(repo: Path | None = None) -> Source:
    key = str(repo or REPO)
    if key not in _CACHE:
        _CACHE[key] = Source(repo)
    return _CACHE[key]


def stmt_text(node) -> str:
    return " ".join(ast.unparse(node).split())


def _inline_single_use_temporaries(tree):
    """Canonical form for the rules that look at statements: a local that is assigned once and used once, in the very next statement,
    as the test of an `if` / `while` or as the value of a `return`, is replaced by its definition

        tmp = EXPR            if EXPR:                 tmp = EXPR
        if tmp: ...     ->        ...                  return tmp     ->     return EXPR

    (`tmp` occurring nowhere else in the function).  The two forms are equivalent; the analyses then see one of them."""
    for fn in ast.walk(tree):
        if not isinstance(fn, (ast.FunctionDef, ast.AsyncFunctionDef)):
            continue
        uses = {}
        for n in ast.walk(fn):
            if isinstance(n, ast.Name):
                uses.setdefault(n.id, []).append(n)
        declared = {x for n in ast.walk(fn) if isinstance(n, (ast.Global, ast.Nonlocal)) for x in n.names}

        def fix(body):
            out = []
            i = 0
            while i < len(body):
                st = body[i]
                nxt = body[i + 1] if i + 1 < len(body) else None
                if isinstance(st, ast.Assign) and len(st.targets) == 1 and isinstance(st.targets[0], ast.Name) and nxt is not None:
                    nm = st.targets[0].id
                    occ = uses.get(nm, [])
                    slot = None
                    if isinstance(nxt, (ast.If, ast.While)) and isinstance(nxt.test, ast.Name) and nxt.test.id == nm:
                        slot = "test"
                    elif isinstance(nxt, ast.Return) and isinstance(nxt.value, ast.Name) and nxt.value.id == nm:
                        slot = "value"
                    if slot and len(occ) == 2 and nm not in declared and not isinstance(nxt, ast.While):
                        setattr(nxt, slot, st.value)
                        i += 1
                        continue
                out.append(st)
                i += 1
            for st in out:
                for field in ("body", "orelse", "finalbody"):
                    sub = getattr(st, field, None)
                    if isinstance(sub, list) and sub and isinstance(sub[0], ast.stmt):
                        setattr(st, field, fix(sub))
                for h in getattr(st, "handlers", []) or []:
                    h.body = fix(h.body)
            return out

        fn.body = fix(fn.body)
