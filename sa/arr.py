"""Arr - a small object-element ndarray with numpy's reference/view semantics.

Only what the repository's numeric code uses: basic indexing (ints, slices, None, Ellipsis),
views that write through, broadcasting elementwise operations, matmul, transpose, copy.
Elements are exact scalars (int, Fraction), dag.Node, or Top.
"""
from __future__ import annotations

import itertools
from fractions import Fraction


class Arr:
    __slots__ = ("data", "shape", "strides", "offset", "dtype")

    def __init__(self, data, shape, strides=None, offset=0, dtype="float"):
        self.data = data  # flat python list, shared between views
        self.shape = tuple(shape)
        if strides is None:
            strides = []
            s = 1
            for n in reversed(self.shape):
                strides.append(s)
                s *= n
            strides = tuple(reversed(strides))
        self.strides = tuple(strides)
        self.offset = offset
        self.dtype = dtype

    # -- construction -----------------------------------------------------
    @staticmethod
    def full(shape, value, dtype="float"):
        if isinstance(shape, int):
            shape = (shape,)
        n = 1
        for s in shape:
            n *= s
        return Arr([value] * n, shape, dtype=dtype)

    @staticmethod
    def from_nested(x, dtype="float"):
        if isinstance(x, Arr):
            return x.copy()
        shape = []
        y = x
        while isinstance(y, (list, tuple, Arr)):
            if isinstance(y, Arr):
                shape.extend(y.shape)
                break
            shape.append(len(y))
            if len(y) == 0:
                break
            y = y[0]
        flat = []

        def rec(z, d):
            if isinstance(z, Arr):
                if tuple(z.shape) != tuple(shape[d:]):
                    raise ValueError("ragged array literal")
                flat.extend(z.flat())
                return
            if d == len(shape):
                flat.append(z)
                return
            if not isinstance(z, (list, tuple)) or len(z) != shape[d]:
                raise ValueError("ragged array literal")
            for w in z:
                rec(w, d + 1)

        rec(x, 0)
        return Arr(flat, shape, dtype=dtype)

    # -- basics -----------------------------------------------------------
    @property
    def ndim(self):
        return len(self.shape)

    @property
    def size(self):
        n = 1
        for s in self.shape:
            n *= s
        return n

    def _pos(self, idx):
        p = self.offset
        for i, st in zip(idx, self.strides):
            p += i * st
        return p

    def indices(self):
        return itertools.product(*[range(n) for n in self.shape])

    def flat(self):
        return [self.data[self._pos(i)] for i in self.indices()]

    def copy(self):
        return Arr(self.flat(), self.shape, dtype=self.dtype)

    def tolist(self):
        if self.ndim == 0:
            return self.data[self.offset]
        if self.ndim == 1:
            return self.flat()
        return [self[i].tolist() for i in range(self.shape[0])]

    def item(self):
        if self.size != 1:
            raise ValueError("item() of non-scalar array")
        return self.flat()[0]

    @property
    def T(self):
        return Arr(self.data, self.shape[::-1], self.strides[::-1], self.offset, self.dtype)

    def transpose(self, *axes):
        if not axes:
            return self.T
        if len(axes) == 1 and isinstance(axes[0], (tuple, list)):
            axes = tuple(axes[0])
        return Arr(self.data, [self.shape[a] for a in axes], [self.strides[a] for a in axes], self.offset, self.dtype)

    def reshape(self, *shape):
        if len(shape) == 1 and isinstance(shape[0], (tuple, list)):
            shape = tuple(shape[0])
        flat = self.flat()
        shape = list(shape)
        if -1 in shape:
            k = shape.index(-1)
            n = 1
            for s in shape:
                if s != -1:
                    n *= s
            shape[k] = len(flat) // n
        return Arr(flat, shape, dtype=self.dtype)

    def is_whole(self):
        """contiguous and covering its own buffer from offset 0 (used for ascontiguousarray aliasing)"""
        return self.strides == Arr(None, self.shape).strides

    def is_contiguous(self):
        exp = Arr(None, self.shape).strides
        return all(s == e or n == 1 for s, e, n in zip(self.strides, exp, self.shape))

    # -- indexing ---------------------------------------------------------
    def _view(self, key):
        if not isinstance(key, tuple):
            key = (key,)
        # expand Ellipsis
        if any(k is Ellipsis for k in key):
            n_spec = sum(1 for k in key if k is not None and k is not Ellipsis)
            i = next(j for j, k in enumerate(key) if k is Ellipsis)
            key = key[:i] + (slice(None),) * (self.ndim - n_spec) + key[i + 1:]
        shape, strides = [], []
        off = self.offset
        ax = 0
        for k in key:
            if k is None:
                shape.append(1)
                strides.append(0)
                continue
            if ax >= self.ndim:
                raise IndexError("too many indices for array")
            n = self.shape[ax]
            st = self.strides[ax]
            if isinstance(k, slice):
                start, stop, step = k.indices(n)
                ln = len(range(start, stop, step))
                off += start * st
                shape.append(ln)
                strides.append(st * step)
            elif isinstance(k, int) and not isinstance(k, bool):
                if k < 0:
                    k += n
                if not 0 <= k < n:
                    raise IndexError(f"index {k} is out of bounds for axis {ax} with size {n}")
                off += k * st
            else:
                raise TypeError(f"unsupported index {k!r}")
            ax += 1
        shape.extend(self.shape[ax:])
        strides.extend(self.strides[ax:])
        return Arr(self.data, shape, strides, off, self.dtype)

    def __getitem__(self, key):
        if isinstance(key, Arr) or (isinstance(key, list)):
            idx = key.flat() if isinstance(key, Arr) else key
            if all(isinstance(i, bool) for i in idx):
                idx = [j for j, b in enumerate(idx) if b]
            rows = [self[int(i)] for i in idx]
            return Arr.from_nested([r if isinstance(r, Arr) else r for r in rows], self.dtype)
        v = self._view(key)
        if v.ndim == 0:
            return v.data[v.offset]
        return v

    def __setitem__(self, key, value):
        v = self._view(key)
        if isinstance(value, (list, tuple)):
            value = Arr.from_nested(value)
        if isinstance(value, Arr):
            src = broadcast_to(value, v.shape)
            vals = src.flat()  # read everything first (overlap safety)
            for idx, x in zip(v.indices(), vals):
                v.data[v._pos(idx)] = x
        else:
            for idx in v.indices():
                v.data[v._pos(idx)] = value

    def __len__(self):
        if self.ndim == 0:
            raise TypeError("len() of unsized object")
        return self.shape[0]

    def __iter__(self):
        for i in range(self.shape[0]):
            yield self[i]

    def __repr__(self):
        return f"Arr{self.shape}"


def broadcast_shapes(a, b):
    out = []
    for x, y in itertools.zip_longest(reversed(a), reversed(b), fillvalue=1):
        if x == y or y == 1:
            out.append(x)
        elif x == 1:
            out.append(y)
        else:
            raise ValueError(f"operands could not be broadcast together with shapes {a} {b}")
    return tuple(reversed(out))


def broadcast_to(a: Arr, shape) -> Arr:
    shape = tuple(shape)
    if a.shape == shape:
        return a
    nd = len(shape)
    if a.ndim > nd:
        # allow dropping leading 1s
        lead = a.shape[: a.ndim - nd]
        if all(x == 1 for x in lead):
            a = Arr(a.data, a.shape[a.ndim - nd:], a.strides[a.ndim - nd:], a.offset, a.dtype)
        else:
            raise ValueError(f"cannot broadcast {a.shape} to {shape}")
    sh = (1,) * (nd - a.ndim) + a.shape
    st = (0,) * (nd - a.ndim) + a.strides
    strides = []
    for n, m, s in zip(sh, shape, st):
        if n == m:
            strides.append(s)
        elif n == 1:
            strides.append(0)
        else:
            raise ValueError(f"cannot broadcast {a.shape} to {shape}")
    return Arr(a.data, shape, strides, a.offset, a.dtype)


def elementwise(f, *xs):
    """Apply scalar function f over broadcast operands (Arr or scalars)."""
    shape = ()
    for x in xs:
        if isinstance(x, Arr):
            shape = broadcast_shapes(shape, x.shape)
    ops = []
    for x in xs:
        if isinstance(x, Arr):
            ops.append(broadcast_to(x, shape).flat())
        else:
            ops.append(None)
    n = 1
    for s in shape:
        n *= s
    out = []
    for i in range(n):
        args = [o[i] if o is not None else x for o, x in zip(ops, xs)]
        out.append(f(*args))
    return Arr(out, shape)


def matmul(a: Arr, b: Arr, s_add, s_mul):
    if a.ndim == 1 and b.ndim == 1:
        if a.shape != b.shape:
            raise ValueError("matmul: shape mismatch")
        acc = 0
        for x, y in zip(a.flat(), b.flat()):
            acc = s_add(acc, s_mul(x, y))
        return acc
    if a.ndim == 2 and b.ndim == 2:
        if a.shape[1] != b.shape[0]:
            raise ValueError(f"matmul: shape mismatch {a.shape} @ {b.shape}")
        out = []
        for i in range(a.shape[0]):
            for j in range(b.shape[1]):
                acc = 0
                for k in range(a.shape[1]):
                    acc = s_add(acc, s_mul(a[i, k], b[k, j]))
                out.append(acc)
        return Arr(out, (a.shape[0], b.shape[1]))
    if a.ndim == 2 and b.ndim == 1:
        r = matmul(a, b.reshape(b.shape[0], 1), s_add, s_mul)
        return r.reshape(a.shape[0])
    if a.ndim == 1 and b.ndim == 2:
        r = matmul(a.reshape(1, a.shape[0]), b, s_add, s_mul)
        return r.reshape(b.shape[1])
    if a.ndim >= 3 or b.ndim >= 3:
        # stacked matmul over leading axes (broadcast)
        lead = broadcast_shapes(a.shape[:-2], b.shape[:-2])
        aa = broadcast_to(a, lead + a.shape[-2:])
        bb = broadcast_to(b, lead + b.shape[-2:])
        out = []
        for idx in itertools.product(*[range(n) for n in lead]):
            r = matmul(aa[idx], bb[idx], s_add, s_mul)
            out.extend(r.flat())
        return Arr(out, lead + (a.shape[-2], b.shape[-1]))
    raise ValueError("matmul: unsupported ranks")


def einsum(spec: str, ops, s_add, s_mul):
    spec = spec.replace(" ", "")
    if "->" in spec:
        ins, out = spec.split("->")
    else:
        ins = spec
        letters = "".join(ins.split(","))
        out = "".join(sorted(c for c in set(letters) if letters.count(c) == 1))
    ins = ins.split(",")
    if len(ins) != len(ops):
        raise ValueError("einsum: operand count")
    dims: dict = {}
    for s, o in zip(ins, ops):
        if len(s) != o.ndim:
            raise ValueError(f"einsum: spec {s} vs ndim {o.ndim}")
        for c, n in zip(s, o.shape):
            if dims.setdefault(c, n) != n:
                raise ValueError("einsum: size mismatch for " + c)
    summed = [c for c in dims if c not in out]
    res = []
    for oi in itertools.product(*[range(dims[c]) for c in out]):
        env = dict(zip(out, oi))
        acc = 0
        for si in itertools.product(*[range(dims[c]) for c in summed]):
            env.update(zip(summed, si))
            t = 1
            for s, o in zip(ins, ops):
                t = s_mul(t, o[tuple(env[c] for c in s)] if s else o.item())
            acc = s_add(acc, t)
        res.append(acc)
    if not out:
        return res[0]
    return Arr(res, [dims[c] for c in out])
