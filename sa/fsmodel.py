"""A model file system and stream/serialiser models for the partial evaluator.

Checks that decide writer/reader agreement evaluate the repository's own writer and reader code on this model instead of matching
source fragments: paths are `pathlib.PurePosixPath` objects bound to a model FS (a dict path -> content token), streams keep a
position, and the serialisers produce structured tokens:

    np.save(stream, a)                -> ("npy", copy of a)
    np.savez(stream, **members)       -> ("npz", {name: copy})
    lz4.frame.compress(tok)           -> ("lz4", tok)
    yaml.safe_dump(data)              -> ("yaml", plain copy of data)         (tuples become lists, as with YAML)
    yaml.dump(data)                   -> ("yaml", ...) or ("yaml-tagged", ...) when data holds values the safe loader refuses
    tar.add(dir, arcname=".")         -> ("tar", {relative name: content})

Readers accept exactly what the real readers accept (np.load refuses an empty or foreign buffer, lz4 refuses what was not
compressed, safe_load refuses python tags, ...).  Nothing touches the real file system.
"""
from __future__ import annotations

import fnmatch
import pathlib
import posixpath
from fractions import Fraction

from . import dag
from .arr import Arr
from .pe import Obj, Opaque, PERaise

EMPTY = ("bytes", ())


class NpScalar(Opaque):
    """a NumPy scalar (np.float64 / np.int64 ...): `.item()` gives the built-in number; YAML's safe dumper refuses it"""

    def __init__(self, value, kind="float64"):
        self.value, self.kind = value, kind

    def item(self):
        return self.value

    def __eq__(self, other):
        return self.value == (other.value if isinstance(other, NpScalar) else other)

    def __hash__(self):
        return hash(self.value)

    def __repr__(self):
        return f"np.{self.kind}({self.value})"


class NpzModel(Opaque):
    def __init__(self, members):
        self.members = dict(members)
        self.files = list(members)

    def __getitem__(self, k):
        if k not in self.members:
            raise PERaise("KeyError", f"{k} is not a file in the archive")
        return self.members[k]

    def __contains__(self, k):
        return k in self.members

    def close(self):
        pass


class FS:
    def norm(self, p):
        """absolute, normalised form of a path string of the modelled process"""
        return posixpath.normpath(p if p.startswith("/") else self.cwd.rstrip("/") + "/" + p)

    def __init__(self):
        self.files: dict = {}        # str path -> content token
        self.dirs: set = {"/"}
        self.log: list = []          # (op, path)
        self.cwd = "/"               # working directory of the modelled process
        self._tmp = 0
        fs = self

        class MP(type(pathlib.PurePosixPath()), Opaque):
            """path bound to this model file system"""

            def _s(self):
                return fs.norm(str(self))      # relative paths are taken from the model's working directory

            def exists(self):
                return self._s() in fs.files or self._s() in fs.dirs

            def is_dir(self):
                return self._s() in fs.dirs

            def is_file(self):
                return self._s() in fs.files

            def iterdir(self):
                if self._s() not in fs.dirs:
                    raise PERaise("FileNotFoundError", self._s())
                return [type(self)(p) for p in sorted(set(fs.files) | fs.dirs) if p != self._s() and str(pathlib.PurePosixPath(p).parent) == self._s()]

            def glob(self, pattern):
                return [p for p in self.iterdir() if fnmatch.fnmatch(p.name, pattern)]

            def mkdir(self, mode=0o777, parents=False, exist_ok=False):
                s = self._s()
                if s in fs.dirs or s in fs.files:
                    if not exist_ok or s in fs.files:
                        raise PERaise("FileExistsError", s)
                    return
                par = str(self.parent)
                if par not in fs.dirs:
                    if not parents:
                        raise PERaise("FileNotFoundError", par)
                    type(self)(par).mkdir(parents=True, exist_ok=True)
                fs.dirs.add(s)
                fs.log.append(("mkdir", s))

            def unlink(self, missing_ok=False):
                s = self._s()
                if s not in fs.files:
                    if missing_ok:
                        return
                    raise PERaise("FileNotFoundError", s)
                del fs.files[s]
                fs.log.append(("unlink", s))

            def write_text(self, data, encoding=None, errors=None, newline=None):
                fs.write(self._s(), data)

            def write_bytes(self, data):
                fs.write(self._s(), data)

            def read_text(self, encoding=None, errors=None):
                return fs.read(self._s())

            def read_bytes(self):
                return fs.read(self._s())

            def open(self, mode="r", *a, **k):
                return Stream(fs, self._s(), mode)

            def touch(self, exist_ok=True):
                if self._s() not in fs.files:
                    fs.write(self._s(), EMPTY)

            def resolve(self, strict=False):
                return type(self)(self._s())

            def absolute(self):
                return type(self)(self._s())

            def rmdir(self):
                s = self._s()
                if s not in fs.dirs:
                    raise PERaise("FileNotFoundError", s)
                if any(p.startswith(s + "/") for p in list(fs.files) + list(fs.dirs)):
                    raise PERaise("OSError", f"Directory not empty: {s}")
                fs.dirs.discard(s)

            def replace(self, target):
                s, t = self._s(), fs.norm(str(target))
                if s not in fs.files:
                    raise PERaise("FileNotFoundError", s)
                fs.files[t] = fs.files.pop(s)
                fs.log.append(("replace", s, t))
                return type(self)(t)

            def rename(self, target):
                fs.files[str(target)] = fs.files.pop(self._s())
                return type(self)(str(target))

        self.Path = MP

    # -- primitives
    def path(self, s):
        return self.Path(s)

    def write(self, s, content):
        s = self.norm(str(s))
        par = str(pathlib.PurePosixPath(s).parent)
        if par not in self.dirs:
            raise PERaise("FileNotFoundError", f"no such directory: {par}")
        if s in self.dirs:
            raise PERaise("IsADirectoryError", s)
        self.files[s] = content
        self.log.append(("write", s))

    def read(self, s):
        s = self.norm(str(s))
        if s not in self.files:
            raise PERaise("FileNotFoundError", s)
        self.log.append(("read", s))
        return self.files[s]

    def mkdtemp(self):
        self._tmp += 1
        d = f"/tmp/T{self._tmp}"
        self.dirs.update({"/tmp", d})
        return d

    def subtree(self, root):
        root = str(root).rstrip("/")
        return {p[len(root) + 1:]: c for p, c in self.files.items() if p.startswith(root + "/")}, \
               sorted(p[len(root) + 1:] for p in self.dirs if p.startswith(root + "/"))

    def names(self, d):
        return sorted(pathlib.PurePosixPath(p).name for p in self.files if str(pathlib.PurePosixPath(p).parent) == str(d))


class Stream(Opaque):
    """binary/text stream with a position: content is one token (or EMPTY); reading anywhere but at the start gives EMPTY"""

    def __init__(self, fs=None, path=None, mode="r", initial=None):
        self.fs, self.path, self.mode = fs, path, mode
        self.pos = 0
        self.closed = False
        if fs is not None:
            if "w" in mode:
                fs.write(path, EMPTY)
                self.content = EMPTY
            elif "a" in mode:
                self.content = fs.files.get(path, EMPTY)
                self.pos = 1
            else:
                self.content = fs.read(path)
        else:
            self.content = EMPTY if initial is None else initial

    def write(self, tok):
        if self.fs is not None and not any(m in self.mode for m in "wa+"):
            raise PERaise("UnsupportedOperation", "not writable")
        self.content = tok if (self.content == EMPTY or self.pos == 0) else ("cat", self.content, tok)
        self.pos = 1
        if self.fs is not None:
            self.fs.write(self.path, self.content)
        return 1

    def read(self, n=-1):
        if self.pos != 0:
            return EMPTY
        self.pos = 1
        return self.content

    def seek(self, off, whence=0):
        self.pos = 0 if (off == 0 and whence == 0) else 1
        return self.pos

    def tell(self):
        return self.pos

    def getvalue(self):
        return self.content

    def close(self):
        self.closed = True

    def flush(self):
        pass

    def __enter__(self):
        return self

    def __exit__(self, *a):
        self.closed = True
        return False


class TarModel(Opaque):
    def __init__(self, fs, path, mode):
        self.fs, self.path, self.mode = fs, str(path), mode
        if "w" in mode:
            self.members = {}
            self.dirs = []
            fs.write(self.path, ("tar", self.members, self.dirs))
        else:
            tok = fs.read(self.path)
            if not (isinstance(tok, tuple) and tok and tok[0] == "tar"):
                raise PERaise("ReadError", "file could not be opened successfully: not a tar archive")
            self.members, self.dirs = tok[1], tok[2]

    def add(self, name, arcname=None, recursive=True, **k):
        name = str(name)
        arc = name if arcname is None else str(arcname)
        arc = "" if arc in (".", "./") else arc.rstrip("/") + "/"
        if name in self.fs.dirs:
            files, dirs = self.fs.subtree(name)
            for rel, c in files.items():
                self.members[arc + rel] = c
            self.dirs.extend(arc + d for d in dirs)
        else:
            self.members[arc.rstrip("/") or pathlib.PurePosixPath(name).name] = self.fs.read(name)

    def getmembers(self):
        out = []
        for n in list(self.dirs) + list(self.members):
            m = Opaque()
            m.name = n
            m.isdir = (lambda n=n: n in self.dirs)
            m.isfile = (lambda n=n: n in self.members)
            m.issym = m.islnk = (lambda: False)
            out.append(m)
        return out

    def getnames(self):
        return list(self.dirs) + list(self.members)

    def extractall(self, path=".", members=None, **k):
        root = str(path).rstrip("/")
        self.fs.Path(root).mkdir(parents=True, exist_ok=True)
        for d in self.dirs:
            self.fs.Path(root + "/" + d).mkdir(parents=True, exist_ok=True)
        for rel, c in self.members.items():
            self.fs.Path(str(pathlib.PurePosixPath(root + "/" + rel).parent)).mkdir(parents=True, exist_ok=True)
            self.fs.write(root + "/" + rel, c)

    def extractfile(self, member):
        name = member if isinstance(member, str) else member.name
        name = name[2:] if name.startswith("./") else name
        if name not in self.members:
            raise PERaise("KeyError", f"filename {name!r} not found")
        return Stream(initial=self.members[name])

    def close(self):
        pass

    def __enter__(self):
        return self

    def __exit__(self, *a):
        return False


def _plain(pe, x, strict):
    """copy of x as YAML would store it; raises RepresenterError (strict) / returns tagged marker"""
    if x is None or isinstance(x, (bool, int, str, float, Fraction, dag.Node)):
        return x, False
    if isinstance(x, (list, tuple)):
        outs = [_plain(pe, e, strict) for e in x]
        return [o for o, _ in outs], any(t for _, t in outs) or (isinstance(x, tuple) and not strict)
    if isinstance(x, dict):
        outs = {k: _plain(pe, v, strict) for k, v in x.items()}
        return {k: o for k, (o, _) in outs.items()}, any(t for _, t in outs.values())
    if strict:
        raise PERaise("RepresenterError", f"cannot represent an object: {x!r}")
    return x, True


def install(pe, fs: FS):
    """bind the evaluator's models of open/io/numpy/lz4/yaml/tarfile/tempfile/shutil/pathlib to the model file system"""
    from . import pe_models

    def as_path(p):
        return p if isinstance(p, fs.Path) else fs.Path(str(p))

    def _open(p_, a, k):
        mode = a[1] if len(a) > 1 else k.get("mode", "r")
        return Stream(fs, str(as_path(a[0])), mode)

    pe.ext["builtins.open"] = _open
    pe.ext["io.open"] = _open
    pe.ext["io.BytesIO"] = lambda p_, a, k: Stream(initial=a[0] if a else None)
    pe.ext["io.StringIO"] = lambda p_, a, k: Stream(initial=a[0] if a else None)
    pe.ext["pathlib.Path"] = lambda p_, a, k: fs.Path(*[str(x) for x in a]) if a else fs.Path(".")
    pe.ext["pathlib.PurePath"] = pe.ext["pathlib.Path"]
    pe.ext["os.fspath"] = lambda p_, a, k: str(a[0])

    def _copy(v):
        return v.copy() if isinstance(v, Arr) else v

    def np_save(p_, a, k):
        a[0].write(("npy", _copy(a[1])))

    def np_savez(p_, a, k):
        members = {f"arr_{i}": _copy(v) for i, v in enumerate(a[1:])}
        members.update({n: _copy(v) for n, v in k.items()})
        a[0].write(("npz", members))

    def np_load(p_, a, k):
        src_ = a[0]
        tok = src_.read() if isinstance(src_, Stream) else fs.read(str(as_path(src_)))
        if isinstance(tok, tuple) and tok and tok[0] == "npy":
            return _copy(tok[1])
        if isinstance(tok, tuple) and tok and tok[0] == "npz":
            return NpzModel({n: _copy(v) for n, v in tok[1].items()})
        if tok == EMPTY:
            raise PERaise("EOFError", "No data left in file")
        raise PERaise("ValueError", "Cannot load file containing pickled data / unknown format")

    for mod in ("numpy.",):
        pe.ext[mod + "save"] = np_save
        pe.ext[mod + "savez"] = np_savez
        pe.ext[mod + "savez_compressed"] = np_savez
        pe.ext[mod + "load"] = np_load

    def lz_c(p_, a, k):
        return ("lz4", a[0])

    def lz_d(p_, a, k):
        tok = a[0]
        if isinstance(tok, tuple) and tok and tok[0] == "lz4":
            return tok[1]
        raise PERaise("RuntimeError", "LZ4F_decompress failed: the data was not compressed (or is empty)")

    pe.ext["lz4.frame.compress"] = lz_c
    pe.ext["lz4.frame.decompress"] = lz_d

    def y_dump(strict):
        def f(p_, a, k):
            data, tagged = _plain(p_, a[0], strict)
            tok = ("yaml-tagged" if tagged else "yaml", data)
            stream = a[1] if len(a) > 1 else k.get("stream")
            if stream is not None:
                stream.write(tok)
                return None
            return tok
        return f

    def y_load(safe):
        def f(p_, a, k):
            tok = a[0].read() if isinstance(a[0], Stream) else a[0]
            if isinstance(tok, tuple) and tok and tok[0] == "yaml":
                return _plain(p_, tok[1], True)[0]
            if isinstance(tok, tuple) and tok and tok[0] == "yaml-tagged":
                if safe:
                    raise PERaise("ConstructorError", "could not determine a constructor for a python-specific tag")
                return tok[1]
            if tok == EMPTY:
                return None
            raise PERaise("ScannerError", f"not a YAML document: {str(tok)[:40]}")
        return f

    pe.ext["yaml.safe_dump"] = y_dump(True)
    pe.ext["yaml.dump"] = y_dump(False)
    pe.ext["yaml.safe_load"] = y_load(True)
    pe.ext["yaml.load"] = y_load(False)
    pe.ext["yaml.unsafe_load"] = y_load(False)
    pe.ext["yaml.full_load"] = y_load(True)

    pe.ext["tarfile.open"] = lambda p_, a, k: TarModel(fs, as_path(a[0] if a else k.get("name")), a[1] if len(a) > 1 else k.get("mode", "r"))
    pe.ext["tarfile.is_tarfile"] = lambda p_, a, k: isinstance(fs.files.get(str(as_path(a[0]))), tuple) and fs.files[str(as_path(a[0]))][:1] == ("tar",)

    class TmpDir(Opaque):
        def __init__(self):
            self.name = fs.mkdtemp()

        def __enter__(self):
            return self.name

        def __exit__(self, *a):
            return False

        def cleanup(self):
            pass

    pe.ext["tempfile.TemporaryDirectory"] = lambda p_, a, k: TmpDir()
    pe.ext["tempfile.mkdtemp"] = lambda p_, a, k: fs.mkdtemp()

    def copytree(p_, a, k):
        srcd, dst = str(a[0]).rstrip("/"), str(a[1]).rstrip("/")
        if dst in fs.dirs and not k.get("dirs_exist_ok"):
            raise PERaise("FileExistsError", dst)
        files, dirs = fs.subtree(srcd)
        fs.Path(dst).mkdir(parents=True, exist_ok=True)
        for d in dirs:
            fs.Path(dst + "/" + d).mkdir(parents=True, exist_ok=True)
        for rel, c in files.items():
            fs.write(dst + "/" + rel, c)
        return fs.Path(dst)

    def rmtree(p_, a, k):
        root = str(a[0]).rstrip("/")
        for p in [p for p in fs.files if p.startswith(root + "/")]:
            del fs.files[p]
        for d in [d for d in fs.dirs if d == root or d.startswith(root + "/")]:
            fs.dirs.discard(d)

    def copy2(p_, a, k):
        fs.write(str(as_path(a[1])), fs.read(str(as_path(a[0]))))

    pe.ext["shutil.copytree"] = copytree
    pe.ext["shutil.rmtree"] = rmtree
    pe.ext["shutil.copy2"] = copy2
    pe.ext["shutil.copy"] = copy2
    pe.ext["shutil.copyfile"] = copy2
    pe.ext["os.makedirs"] = lambda p_, a, k: as_path(a[0]).mkdir(parents=True, exist_ok=bool(k.get("exist_ok", a[2] if len(a) > 2 else False)))
    pe.ext["os.path.exists"] = lambda p_, a, k: as_path(a[0]).exists()
    pe.ext["os.remove"] = lambda p_, a, k: as_path(a[0]).unlink()
    pe.ext["os.path.abspath"] = lambda p_, a, k: posixpath.normpath(str(a[0]) if str(a[0]).startswith("/") else "/" + str(a[0]))
    pe.ext["os.path.commonprefix"] = lambda p_, a, k: posixpath.commonprefix([str(x) for x in a[0]])
    pe.ext["os.path.join"] = lambda p_, a, k: posixpath.join(*[str(x) for x in a])
    pe.ext["pathlib.Path.cwd"] = lambda p_, a, k: fs.Path(fs.cwd)
    pe.ext["os.getcwd"] = lambda p_, a, k: fs.cwd

    def _chdir(p_, a, k):
        d = fs.norm(str(a[0]))
        if d not in fs.dirs:
            raise PERaise("FileNotFoundError", d)
        fs.cwd = d

    pe.ext["os.chdir"] = _chdir

    # file stems: eko.io.inventory.encode hashes the header; the model keeps what matters - equal headers (NumPy scalars hash like
    # the numbers they hold) get equal stems, different headers different ones
    def encode(p_, a, k):
        import base64
        import hashlib

        h = a[0]
        names = p_.identity_fields(h.cls, for_hash=True) if isinstance(h, Obj) else None
        if names is None:
            raise PERaise("TypeError", f"unhashable type: {type(h).__name__}")

        def val(v):
            v = v.value if isinstance(v, NpScalar) else v
            v = p_.hashable(v)
            return dag.short(v) if isinstance(v, dag.Node) else repr(v)

        key = h.cls.node.name + "|" + "|".join(val(h.attrs.get(n)) for n in names)
        return base64.urlsafe_b64encode(hashlib.sha1(key.encode()).digest()[:8]).decode()

    if "eko.io.inventory.encode" in pe.src.funcs:
        pe.overrides["eko.io.inventory.encode"] = encode

    # isinstance against library classes the models stand for
    prev = pe_models._isinstance

    def _isinstance(pe_, x, t):
        from .pe import ExtRef

        if isinstance(t, ExtRef):
            q = t.qname
            if q in ("numpy.generic", "numpy.number", "numpy.integer", "numpy.floating", "numpy.float64", "numpy.int64") and isinstance(x, NpScalar):
                return q in ("numpy.generic", "numpy.number") or ("int" in q) == ("int" in x.kind)
            if q.endswith("NpzFile"):
                return isinstance(x, NpzModel)
            if q in ("numpy.ndarray",) and isinstance(x, (NpzModel, NpScalar)):
                return False
            if q in ("pathlib.Path", "pathlib.PurePath", "os.PathLike"):
                return isinstance(x, fs.Path)
            if q in ("builtins.float", "builtins.int") and isinstance(x, NpScalar):
                return x.kind == "float64" and q == "builtins.float"   # np.float64 IS a float, np.int64 is not an int
        return prev(pe_, x, t)

    pe.ext["builtins.isinstance"] = lambda p_, a, k: _isinstance(p_, a[0], a[1])
    # int(np.float64(5.0)) / float(np.int64(4)): the built-in number
    for nm in ("int", "float"):
        prev_num = pe.ext.get("builtins." + nm)
        if prev_num is not None:
            pe.ext["builtins." + nm] = lambda p_, a, k, prev_num=prev_num: prev_num(p_, [x.value if isinstance(x, NpScalar) else x for x in a], k)
    return fs
