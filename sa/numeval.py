"""High-precision numerical interpretation of DAGs with an oracle for the harmonic-sum atoms (mpmath): used to compare formulas
extracted from two implementations whose decimal literals differ in the last digits (C28)."""
from __future__ import annotations

import hashlib
from fractions import Fraction

import mpmath as mp

from . import dag

mp.mp.dps = 40


def S(k: int, z):
    """analytic continuation of the harmonic sum S_k(z)"""
    if k == 1:
        return mp.digamma(z + 1) + mp.euler
    return mp.zeta(k) - (-1) ** k / mp.factorial(k - 1) * mp.polygamma(k - 1, z + 1)


def Sm(k: int, z, eta):
    return eta * mp.mpf(2) ** (-k) * (S(k, z / 2) - S(k, (z - 1) / 2)) - (1 - mp.mpf(2) ** (1 - k)) * (mp.zeta(k) if k > 1 else 0) - (mp.log(2) if k == 1 else 0)


_G3 = {}


def g3(z):
    """Mellin transform of Li2(x)/(1+x)"""
    key = (mp.nstr(mp.re(z), 30), mp.nstr(mp.im(z), 30))
    if key not in _G3:
        _G3[key] = mp.quad(lambda x: x ** (z - 1) * mp.polylog(2, x) / (1 + x), [0, 0.5, 1])
    return _G3[key]


def oracle(name: str, args):
    """true value of a named atom, or None if the atom is uninterpreted"""
    z = args[0] if args else None
    if name.startswith("H_S") and name[3:].isdigit():
        return S(int(name[3:]), z)
    for suff, f in (("h", lambda z: z / 2), ("mh", lambda z: (z - 1) / 2), ("ph", lambda z: (z + 1) / 2), ("p2", lambda z: z + 2)):
        if name.startswith("H_S") and name.endswith(suff) and name[3:-len(suff)].isdigit():
            return S(int(name[3:-len(suff)]), f(z))
    if name.startswith("H_Sm") and name[4:].isdigit() and len(args) == 2:
        flag = int(mp.re(args[1]))
        if flag in (0, 1):
            return Sm(int(name[4:]), z, 1 if flag == 1 else -1)
        return None
    if name == "H_g3":
        return g3(z)
    if name == "H_g3p2":
        return g3(z + 2)
    if name == "zeta":
        return mp.zeta(z)
    if name == "log":
        return mp.log(z)
    if name == "exp":
        return mp.exp(z)
    if name == "sqrt":
        return mp.sqrt(z)
    if name == "Re":
        return mp.re(z)
    if name == "Im":
        return mp.im(z)
    if name == "abs":
        return abs(z)
    if name == "conj":
        return mp.conj(z)
    if name in ("atan", "arctan"):
        return mp.atan(z)
    if name == "cbrt":
        return mp.cbrt(z)
    return None


def pseudo(name, args, salt):
    h = hashlib.sha256((name + "|" + "|".join(mp.nstr(a, 25) for a in args) + "|" + str(salt)).encode()).digest()
    a = int.from_bytes(h[:8], "big") / 2 ** 64
    b = int.from_bytes(h[8:16], "big") / 2 ** 64
    return mp.mpc(0.5 + a, b - 0.5)


def evaluate(node, symvals: dict, salt=0, uninterpreted=None):
    memo = {}

    def go(x):
        if not isinstance(x, dag.Node):
            c = dag.as_const(x)
            return mp.mpf(c.numerator) / c.denominator
        r = memo.get(x.id)
        if r is not None:
            return r
        if x.op == "const":
            c = x.payload
            r = mp.mpf(c.numerator) / c.denominator
        elif x.op == "sym":
            nm = x.payload
            if nm == "I":
                r = mp.mpc(0, 1)
            elif nm == "pi":
                r = mp.pi
            elif nm in symvals:
                r = symvals[nm]
            else:
                raise KeyError(f"no value for symbol {nm}")
        elif x.op == "fn":
            name, args = x.payload
            vals = [go(a) for a in args]
            r = oracle(name, vals)
            if r is None:
                if uninterpreted is not None:
                    uninterpreted.add(name)
                r = pseudo(name, vals, salt)
        elif x.op == "mul":
            c, fs = x.payload
            r = mp.mpf(c.numerator) / c.denominator
            for f, e in fs:
                v = go(f)
                e = Fraction(e)
                r = r * (v ** int(e) if e.denominator == 1 else v ** (mp.mpf(e.numerator) / e.denominator))
        elif x.op == "add":
            c0, ts = x.payload
            r = mp.mpf(c0.numerator) / c0.denominator
            for t, c in ts:
                r += (mp.mpf(c.numerator) / c.denominator) * go(t)
        else:
            raise ValueError(x.op)
        memo[x.id] = r
        return r

    return go(dag.tonode(node))
