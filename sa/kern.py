"""Shared helpers for the kernel checks (C08-C12, C14): symbolic inputs and matrix utilities."""
from __future__ import annotations

import ast

from . import dag, literature as lit
from .arr import Arr, matmul
from .pe import PE
from .src import load

NS = "eko.kernels.non_singlet"
SG = "eko.kernels.singlet"
QNS = "eko.kernels.non_singlet_qed"
QSG = "eko.kernels.singlet_qed"
QVL = "eko.kernels.valence_qed"

EXPANDED = ("ITERATE_EXPANDED", "DECOMPOSE_EXPANDED", "PERTURBATIVE_EXPANDED")
EXACT = ("ITERATE_EXACT", "DECOMPOSE_EXACT", "PERTURBATIVE_EXACT")


def _complex(pe_, a, k):
    return a[0] if len(a) == 1 else pe_.s_add(a[0], pe_.s_mul(a[1], dag.sym("I")))


# direction of the coupling steps for conditions that compare couplings: "forward" (towards higher scales, couplings decrease along
# the steps) or "backward"; checks that depend on the direction evaluate both (`with kern.direction("backward"): ...`)
DIRECTION = ["forward"]


class direction:
    def __init__(self, d):
        self.d = d

    def __enter__(self):
        self.old = DIRECTION[0]
        DIRECTION[0] = self.d

    def __exit__(self, *a):
        DIRECTION[0] = self.old


def coupling_representatives():
    """values standing for the coupling symbols of the kernel checks in the current direction (only their ORDER matters)"""
    from fractions import Fraction

    if isinstance(DIRECTION[0], dict):       # an explicit regime (e.g. a step down followed by a step up)
        return dict(DIRECTION[0])
    fwd = DIRECTION[0] == "forward"
    rep = {"a0": Fraction(30, 1000), "a1": Fraction(20, 1000), "am": Fraction(25, 1000), "as0": Fraction(30, 1000), "as1": Fraction(20, 1000)}
    for i in range(8):
        rep[f"asl{i}"] = rep[f"as{i}"] = Fraction(30 - 2 * i, 1000)
        rep[f"ash{i}"] = rep[f"ah{i}"] = Fraction(29 - 2 * i, 1000)
    if not fwd:
        rep = {k: Fraction(60, 1000) - v for k, v in rep.items()}
    return rep


def assume_distinct_couplings(text, env):
    """named regime assumption: distinct coupling symbols denote different values"""
    from . import pe as P

    try:
        t = ast.parse(text, mode="eval").body
    except SyntaxError:
        return None
    if isinstance(t, ast.Compare) and len(t.ops) == 1 and isinstance(t.ops[0], (ast.Lt, ast.LtE, ast.Gt, ast.GtE)):
        # an ordering between couplings (the sign of a coupling step): decided in the direction under evaluation
        return P.decide_on_values(P.CURRENT_PE, text, env, coupling_representatives(), generic=False)
    if not (isinstance(t, ast.Compare) and len(t.ops) == 1 and isinstance(t.ops[0], (ast.Eq, ast.NotEq))):
        return None
    try:
        a, b = (P.CURRENT_PE.eval(x, env) for x in (t.left, t.comparators[0]))
    except Exception:
        return None
    if all(isinstance(v, dag.Node) and v.op == "sym" for v in (a, b)) and a is not b:   # judged on the values, not on the names of the variables
        return isinstance(t.ops[0], ast.NotEq)
    return None


def setup(chk, real_is_identity=True):
    src = load()
    pe = PE(src, assume=assume_distinct_couplings, real_is_identity=real_is_identity)
    chk.assumptions.append("regime: a1 != a0 when they are distinct symbols (singlet dispatcher guard)")
    pe.ext["builtins.complex"] = _complex
    pe.order_rep = coupling_representatives
    methods = pe.get_global("eko.kernels", "EvoMethods")
    members = pe.enum_members(methods.cls)
    chk.need(members and len(members) == 8, "EvoMethods enumeration changed (expected 8 members)")
    return src, pe, members


def ns_gamma(n, prefix="g"):
    return Arr.from_nested([dag.sym(f"{prefix}{i}") for i in range(n)])


def sg_gamma(n, prefix="S", diag=False, conserve=False, dim=2):
    """n symbolic dim x dim matrices.  diag: diagonal only.  conserve: every column sums to zero
    (row vector (1,..,1) is a left null vector: momentum-type sum rule)."""
    mats = []
    for k in range(n):
        rows = [[dag.sym(f"{prefix}{k}_{i}{j}") if (not diag or i == j) else 0 for j in range(dim)] for i in range(dim)]
        if conserve:
            for j in range(dim):
                rows[dim - 1][j] = dag.neg(dag.addn([rows[i][j] for i in range(dim - 1)]))
        mats.append(rows)
    return Arr.from_nested(mats)


def beta_lit(n, nf=None):
    bs = [lit.BETA_QCD[(2 + i, 0)][0] for i in range(n)]
    if nf is not None:
        bs = [dag.substitute(b, {"nf": nf}) for b in bs]
    return bs


def gamma_over_beta_scalar(g, betas, a):
    n = len(betas)
    num = dag.addn([dag.mul(g[i], dag.power(a, i + 1)) for i in range(n)])
    den = dag.addn([dag.mul(betas[i], dag.power(a, i + 2)) for i in range(n)])
    return dag.div(num, den)


def mat_map(f, m: Arr) -> Arr:
    return Arr([f(x) for x in m.flat()], m.shape)


def mat_sub(a: Arr, b: Arr) -> Arr:
    return Arr([dag.sub(x, y) for x, y in zip(a.flat(), b.flat())], a.shape)


def mat_mul(a: Arr, b: Arr) -> Arr:
    return matmul(a, b, dag.add, dag.mul)


def mat_inv(pe, m: Arr) -> Arr:
    from .pe_models import _inv

    return _inv(pe, m)


def eye(n):
    return Arr.from_nested([[1 if i == j else 0 for j in range(n)] for i in range(n)])


def gamma_over_beta_matrix(G: Arr, betas, a) -> Arr:
    """sum_k G[k] a^(k+1) / sum_k beta_k a^(k+2), entrywise on the matrices G[k]"""
    n = len(betas)
    den = dag.addn([dag.mul(betas[i], dag.power(a, i + 2)) for i in range(n)])
    dim = G.shape[1]
    out = []
    for i in range(dim):
        for j in range(dim):
            num = dag.addn([dag.mul(G[k, i, j], dag.power(a, k + 1)) for k in range(n)])
            out.append(dag.div(num, den))
    return Arr(out, (dim, dim))


def install_expm_model(pe, log=None):
    """ekore.anomalous_dimensions.exp_matrix uses np.linalg.eig: model it as an uninterpreted matrix function
    EXPM_ij(entries of M) with EXPM(0) = 1; the argument matrices are recorded in `log`."""
    from .pe import Top

    def model(pe_, args, kwargs):
        m = args[0]
        dim = m.shape[0]
        flat = m.flat()
        if log is not None:
            log.append(m.copy())
        if all((not isinstance(x, dag.Node) or x.op == "const") and dag.as_const(x) == 0 for x in flat):
            return (eye(dim), Top("eigenvalues of the zero matrix"), Top("projectors of the zero matrix"))
        out = Arr([dag.fn(f"EXPM{dim}_{i}{j}", *flat) for i in range(dim) for j in range(dim)], (dim, dim))
        return (out, Top("np.linalg.eig eigenvalues"), Top("np.linalg.eig projectors"))

    pe.overrides["ekore.anomalous_dimensions.exp_matrix"] = model


def expm_ref(m: Arr) -> Arr:
    dim = m.shape[0]
    flat = [dag.tonode(x) for x in m.flat()]
    return Arr([dag.fn(f"EXPM{dim}_{i}{j}", *flat) for i in range(dim) for j in range(dim)], (dim, dim))


def qed_product_order(chk, rule, orders=((2, 1),), nfc=4):
    """The QED iterated kernels (singlet 4x4, valence 2x2) are the product of their step exponentials with the LATER step on the
    left - for steps towards higher scales (couplings decreasing) and towards lower scales alike.  Shared by C12 (convergence to the
    path-ordered solution) and C14 (same product order as the QCD kernel, whose generators agree at a_em = 0)."""
    n_done = 0
    for d in ("forward", "backward"):
        with direction(d):
            src, pe, M = setup(chk)
            log4 = []
            install_expm_model(pe, log4)
            for qn, dim in ((f"{QSG}.dispatcher", 4), (f"{QVL}.dispatcher", 2)):
                f = src.func(qn)
                for (n, m) in orders:
                    its = 3
                    inst = f"order=({n},{m}),nf={nfc},{dim}x{dim},steps towards {'higher' if d == 'forward' else 'lower'} scales"
                    G = Arr.from_nested([[[[dag.sym(f"Q{i}_{j}_{r}{c}") for c in range(dim)] for r in range(dim)] for j in range(m + 1)] for i in range(n + 1)])
                    as_list = Arr.from_nested([dag.sym(f"as{i}") for i in range(its + 1)])
                    a_half = Arr.from_nested([[dag.sym(f"ah{i}"), dag.sym(f"aemh{i}")] for i in range(its)])
                    del log4[:]
                    try:
                        K = pe.call(qn, [(n, m), M["ITERATE_EXACT"], G, as_list, a_half, nfc, its, (10, 0)])
                    except Exception as e:  # noqa: BLE001
                        chk.fail(rule, qn, f"{inst}: the kernel cannot be extracted: {type(e).__name__} {e}", where=f.where, instance=inst)
                        continue
                    chk.need(len(log4) == its, f"expected {its} exponentials, saw {len(log4)} ({inst})")
                    want = eye(dim)
                    for s_ in range(its):
                        want = mat_mul(expm_ref(log4[s_]), want)
                    ok, info = dag.is_zero_fp(mat_sub(K, want).flat(), chk.seed, 2)
                    n_done += 1
                    chk.decide(ok, rule, qn, f"{inst}: the iterated kernel is not exp(step 3) exp(step 2) exp(step 1) - the later step on the left, "
                               f"whatever the direction of the steps: the product then differs from the path-ordered solution (and from the QCD "
                               f"kernel at a_em = 0) by a commutator that does not vanish with the number of steps", where=f.where, instance=inst,
                               data={"witness": info}, how="PE in both directions of the coupling steps + PIT F_p")
    return n_done
