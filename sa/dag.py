"""Hash-consed expression DAG over exact rationals, symbols and uninterpreted atoms.

Canonical n-ary sums/products (no distribution).  Identities are decided by
 * random interpretation in the prime field F_p (Gulwani & Necula 2003), atoms being random
   oracles keyed by the values of their arguments, or
 * exact algebra after conversion to sympy.
No floating point anywhere: a float literal denotes the decimal it is written as.
"""
from __future__ import annotations

import hashlib
import sys
from fractions import Fraction

sys.setrecursionlimit(200000)

P = (1 << 61) - 1  # Mersenne prime 2^61-1 ; p % 4 == 3, sqrt(u) = u^((p+1)/4) when it exists


class Undecidable(Exception):
    """A comparison / truth value of a symbolic quantity was requested."""


class NonResidue(Exception):
    """sqrt/cbrt argument has no root at this random point: resample."""


_TABLE: dict = {}
_COUNTER = [0]


class Node:
    __slots__ = ("op", "payload", "id", "__weakref__")

    def __init__(self, op, payload):
        self.op = op
        self.payload = payload
        _COUNTER[0] += 1
        self.id = _COUNTER[0]

    # hash-consing: identity equality
    def __hash__(self):
        return self.id

    def __eq__(self, other):  # structural identity only; use is_zero(sub(a,b)) for semantics
        if isinstance(other, Node):
            return self is other
        if isinstance(other, (int, Fraction)):
            return self.op == "const" and self.payload == other
        return NotImplemented

    def __ne__(self, other):
        r = self.__eq__(other)
        return r if r is NotImplemented else not r

    def __bool__(self):
        if self.op == "const":
            return self.payload != 0
        raise Undecidable(f"truth value of symbolic {short(self)}")

    def _cmp(self, other, f):
        o = as_const(other)
        if self.op == "const" and o is not None:
            return f(self.payload, o)
        raise Undecidable(f"comparison of symbolic {short(self)} with {short(other)}")

    def __lt__(self, o):
        return self._cmp(o, lambda a, b: a < b)

    def __le__(self, o):
        return self._cmp(o, lambda a, b: a <= b)

    def __gt__(self, o):
        return self._cmp(o, lambda a, b: a > b)

    def __ge__(self, o):
        return self._cmp(o, lambda a, b: a >= b)

    # arithmetic
    def __add__(self, o):
        return add(self, o)

    def __radd__(self, o):
        return add(o, self)

    def __sub__(self, o):
        return add(self, neg(o))

    def __rsub__(self, o):
        return add(o, neg(self))

    def __mul__(self, o):
        return mul(self, o)

    def __rmul__(self, o):
        return mul(o, self)

    def __truediv__(self, o):
        return div(self, o)

    def __rtruediv__(self, o):
        return div(o, self)

    def __neg__(self):
        return neg(self)

    def __pos__(self):
        return self

    def __pow__(self, o):
        return power(self, o)

    def __rpow__(self, o):
        return power(o, self)

    def __abs__(self):
        if self.op == "const":
            return const(abs(self.payload))
        return fn("abs", self)

    def __repr__(self):
        return short(self, 200)


def _mk(op, payload):
    key = (op, payload)
    n = _TABLE.get(key)
    if n is None:
        n = Node(op, payload)
        _TABLE[key] = n
    return n


def const(x) -> Node:
    if isinstance(x, Node):
        return x
    if isinstance(x, bool):
        x = int(x)
    if isinstance(x, float):
        x = frac_of_float(x)
    return _mk("const", Fraction(x))


def frac_of_float(x: float) -> Fraction:
    """The exact decimal a float literal is written as (shortest repr)."""
    if x != x or x in (float("inf"), float("-inf")):
        raise Undecidable(f"non-finite float {x}")
    return Fraction(repr(x))


def sym(name: str) -> Node:
    return _mk("sym", name)


def as_const(x):
    if isinstance(x, Node):
        return x.payload if x.op == "const" else None
    if isinstance(x, bool):
        return Fraction(int(x))
    if isinstance(x, (int, Fraction)):
        return Fraction(x)
    if isinstance(x, float):
        return frac_of_float(x)
    return None


def tonode(x) -> Node:
    if isinstance(x, Node):
        return x
    c = as_const(x)
    if c is None:
        raise TypeError(f"not a scalar: {type(x).__name__} {x!r}")
    return _mk("const", c)


ZERO = const(0)
ONE = const(1)

# -- canonical sums ---------------------------------------------------------
# add payload: (const Fraction, ((term_id, term, coef), ...)) sorted by term_id; terms are non-const, non-add


def _split_coef(n: Node):
    """n == coef * monomial with monomial having unit coefficient."""
    if n.op == "mul":
        c, factors = n.payload
        if c != 1:
            return c, _mk_mul(Fraction(1), factors)
    return Fraction(1), n


def _mk_add(c0: Fraction, terms: dict):
    items = tuple(sorted(((t.id, t, c) for t, c in terms.items() if c != 0), key=lambda x: x[0]))
    if not items:
        return _mk("const", c0)
    if c0 == 0 and len(items) == 1:
        _, t, c = items[0]
        if c == 1:
            return t
        return _scale(c, t)
    return _mk("add", (c0, tuple((t, c) for _, t, c in items)))


def _scale(c: Fraction, t: Node) -> Node:
    if c == 0:
        return ZERO
    if c == 1:
        return t
    if t.op == "const":
        return _mk("const", c * t.payload)
    if t.op == "mul":
        c1, factors = t.payload
        return _mk_mul(c * c1, factors)
    if t.op == "add":
        c0, terms = t.payload
        return _mk("add", (c0 * c, tuple((tt, cc * c) for tt, cc in terms)))
    return _mk("mul", (c, ((t, 1),)))


def add(a, b) -> Node:
    a = tonode(a)
    b = tonode(b)
    if a.op == "const" and b.op == "const":
        return _mk("const", a.payload + b.payload)
    c0 = Fraction(0)
    terms: dict = {}
    for x in (a, b):
        if x.op == "const":
            c0 += x.payload
        elif x.op == "add":
            cc, tt = x.payload
            c0 += cc
            for t, c in tt:
                terms[t] = terms.get(t, 0) + c
        else:
            c, m = _split_coef(x)
            terms[m] = terms.get(m, 0) + c
    return _mk_add(c0, terms)


def addn(xs) -> Node:
    c0 = Fraction(0)
    terms: dict = {}
    for x in xs:
        x = tonode(x)
        if x.op == "const":
            c0 += x.payload
        elif x.op == "add":
            cc, tt = x.payload
            c0 += cc
            for t, c in tt:
                terms[t] = terms.get(t, 0) + c
        else:
            c, m = _split_coef(x)
            terms[m] = terms.get(m, 0) + c
    return _mk_add(c0, terms)


def neg(a) -> Node:
    return _scale(Fraction(-1), tonode(a))


def sub(a, b) -> Node:
    return add(a, neg(b))


# -- canonical products -----------------------------------------------------
# mul payload: (coef Fraction, ((factor, int exp), ...)) sorted by id; factors are non-const, non-mul


def _mk_mul(c: Fraction, factors) -> Node:
    """factors: iterable of (node, exp) already merged."""
    if c == 0:
        return ZERO
    # merge exp(.) factors, reduce sqrt powers
    fd: dict = {}
    exp_arg = None
    work = list(factors)
    while work:
        f, e = work.pop()
        if e == 0:
            continue
        if f.op == "fn" and f.payload[0] == "exp":
            x = f.payload[1][0]
            exp_arg = _scale(Fraction(e), x) if exp_arg is None else add(exp_arg, _scale(Fraction(e), x))
            continue
        if f.op == "fn" and f.payload[0] == "sqrt" and (e >= 2 or e <= -2):
            q, r = divmod(e, 2)
            u = f.payload[1][0]
            if r:
                fd[f] = fd.get(f, 0) + r
            # u^q
            if u.op == "const":
                c *= u.payload ** q
            elif u.op == "mul":
                cu, fu = u.payload
                c *= cu ** q
                work.extend((ff, ee * q) for ff, ee in fu)
            else:
                work.append((u, q))
            continue
        fd[f] = fd.get(f, 0) + e
    if exp_arg is not None and not (exp_arg.op == "const" and exp_arg.payload == 0):
        ef = _mk("fn", ("exp", (exp_arg,)))
        fd[ef] = fd.get(ef, 0) + 1
    # second pass: sqrt merges may have produced sqrt exponents >= 2 again
    again = [(f, e) for f, e in fd.items() if f.op == "fn" and f.payload[0] == "sqrt" and abs(e) >= 2]
    if again:
        return _mk_mul(c, list(fd.items()))
    items = tuple(sorted(((f.id, f, e) for f, e in fd.items() if e != 0), key=lambda x: x[0]))
    if not items:
        return _mk("const", c)
    if c == 1 and len(items) == 1 and items[0][2] == 1:
        return items[0][1]
    return _mk("mul", (c, tuple((f, e) for _, f, e in items)))


def _factors(x: Node):
    if x.op == "const":
        return x.payload, []
    if x.op == "mul":
        c, fs = x.payload
        return c, list(fs)
    return Fraction(1), [(x, 1)]


def mul(a, b) -> Node:
    a = tonode(a)
    b = tonode(b)
    if a.op == "const":
        return _scale(a.payload, b)
    if b.op == "const":
        return _scale(b.payload, a)
    ca, fa = _factors(a)
    cb, fb = _factors(b)
    fd: dict = {}
    for f, e in fa + fb:
        fd[f] = fd.get(f, 0) + e
    return _mk_mul(ca * cb, list(fd.items()))


def inv(a) -> Node:
    a = tonode(a)
    if a.op == "const":
        if a.payload == 0:
            raise ZeroDivisionError("division by exact zero in extracted formula")
        return _mk("const", 1 / a.payload)
    c, fs = _factors(a)
    return _mk_mul(1 / c, [(f, -e) for f, e in fs])


def div(a, b) -> Node:
    return mul(a, inv(b))


def power(a, b) -> Node:
    a = tonode(a)
    bc = as_const(b)
    if bc is None:
        b = tonode(b)
        # a ** symbolic  ->  exp(b log a) keeps identities like x**n * x**m decidable
        return fn("exp", mul(b, fn("log", a)))
    if bc.denominator == 1:
        e = int(bc)
        if e == 0:
            return ONE
        if a.op == "const":
            if a.payload == 0 and e < 0:
                raise ZeroDivisionError("0 ** negative")
            return _mk("const", a.payload ** e)
        c, fs = _factors(a)
        return _mk_mul(c ** e, [(f, ee * e) for f, ee in fs])
    if bc.denominator == 2:
        s = fn("sqrt", a)
        return power(s, bc.numerator)
    if bc.denominator == 3:
        s = fn("cbrt", a)
        return power(s, bc.numerator)
    return fn("exp", mul(const(bc), fn("log", a)))


# -- atoms ------------------------------------------------------------------


def fn(name: str, *args) -> Node:
    args = tuple(tonode(a) for a in args)
    if name == "log" and len(args) == 1:
        return _log(args[0])
    if name == "exp" and len(args) == 1:
        x = args[0]
        if x.op == "const" and x.payload == 0:
            return ONE
        # exp(k*log(u)) with integer k -> u^k
        if x.op == "fn" and x.payload[0] == "log":
            return x.payload[1][0]
        if x.op == "mul":
            c, fs = x.payload
            if c.denominator == 1 and len(fs) == 1 and fs[0][1] == 1 and fs[0][0].op == "fn" and fs[0][0].payload[0] == "log":
                return power(fs[0][0].payload[1][0], int(c))
    if name == "sqrt" and len(args) == 1:
        x = args[0]
        if x.op == "const" and x.payload >= 0:
            n, d = x.payload.numerator, x.payload.denominator
            rn, rd = _isqrt_exact(n), _isqrt_exact(d)
            if rn is not None and rd is not None:
                return const(Fraction(rn, rd))
    if name == "abs" and len(args) == 1 and args[0].op == "const":
        return const(abs(args[0].payload))
    if len(args) == 1 and args[0].op == "const" and args[0].payload == 0:
        if name in ("sin", "tan", "sinh", "tanh", "atan", "asin", "atanh", "asinh"):
            return ZERO
        if name in ("cos", "cosh"):
            return ONE
    return _mk("fn", (name, args))


def _isqrt_exact(n: int):
    import math

    r = math.isqrt(n)
    return r if r * r == n else None


def _log(x: Node) -> Node:
    """log with the principal-branch-splitting assumption log(uv) = log u + log v (DESIGN 3.4)."""
    if x.op == "const":
        if x.payload == 1:
            return ZERO
        if x.payload > 0 and x.payload.numerator == 1:
            return neg(_mk("fn", ("log", (const(1 / x.payload),))))
        if x.payload > 0 and x.payload.denominator != 1:
            return sub(_mk("fn", ("log", (const(x.payload.numerator),))),
                       _mk("fn", ("log", (const(x.payload.denominator),))))
        return _mk("fn", ("log", (x,)))
    if x.op == "mul":
        c, fs = x.payload
        parts = []
        if c != 1:
            if c < 0:
                # keep the sign with the first factor: log(-u) stays an atom
                inner = _mk_mul(Fraction(-1), fs)
                if c != -1:
                    parts.append(_log(const(-c)))
                parts.append(_mk("fn", ("log", (inner,))))
                return addn(parts)
            parts.append(_log(const(c)))
        for f, e in fs:
            parts.append(_scale(Fraction(e), _log(f)))
        return addn(parts)
    if x.op == "fn" and x.payload[0] == "exp":
        return x.payload[1][0]
    if x.op == "fn" and x.payload[0] == "sqrt":
        return _scale(Fraction(1, 2), _log(x.payload[1][0]))
    return _mk("fn", ("log", (x,)))


# -- inspection -------------------------------------------------------------


def short(x, limit=120) -> str:
    s = to_str(x) if isinstance(x, Node) else repr(x)
    return s if len(s) <= limit else s[: limit - 3] + "..."


def to_str(n: Node, depth=0) -> str:
    if depth > 40:
        return "<...>"
    if n.op == "const":
        return str(n.payload)
    if n.op == "sym":
        return n.payload
    if n.op == "fn":
        name, args = n.payload
        return f"{name}({', '.join(to_str(a, depth + 1) for a in args)})"
    if n.op == "mul":
        c, fs = n.payload
        parts = [] if c == 1 else [str(c)]
        for f, e in fs:
            s = to_str(f, depth + 1)
            if f.op == "add":
                s = f"({s})"
            parts.append(s if e == 1 else f"{s}^{e}")
        return "*".join(parts)
    if n.op == "add":
        c0, ts = n.payload
        parts = [] if c0 == 0 else [str(c0)]
        for t, c in ts:
            s = to_str(t, depth + 1)
            parts.append(s if c == 1 else f"{c}*{s}")
        return " + ".join(parts)
    return "?"


def symbols(n: Node, acc=None, seen=None):
    acc = set() if acc is None else acc
    seen = set() if seen is None else seen
    stack = [n]
    while stack:
        x = stack.pop()
        if x.id in seen:
            continue
        seen.add(x.id)
        if x.op == "sym":
            acc.add(x.payload)
        elif x.op == "fn":
            stack.extend(x.payload[1])
        elif x.op == "mul":
            stack.extend(f for f, _ in x.payload[1])
        elif x.op == "add":
            stack.extend(t for t, _ in x.payload[1])
    return acc


def atoms(n: Node):
    """names of uninterpreted functions used"""
    acc = set()
    seen = set()
    stack = [n]
    while stack:
        x = stack.pop()
        if x.id in seen:
            continue
        seen.add(x.id)
        if x.op == "fn":
            acc.add(x.payload[0])
            stack.extend(x.payload[1])
        elif x.op == "mul":
            stack.extend(f for f, _ in x.payload[1])
        elif x.op == "add":
            stack.extend(t for t, _ in x.payload[1])
    return acc


def size(n: Node) -> int:
    seen = set()
    stack = [n]
    while stack:
        x = stack.pop()
        if x.id in seen:
            continue
        seen.add(x.id)
        if x.op == "fn":
            stack.extend(x.payload[1])
        elif x.op == "mul":
            stack.extend(f for f, _ in x.payload[1])
        elif x.op == "add":
            stack.extend(t for t, _ in x.payload[1])
    return len(seen)


def substitute(n: Node, mapping: dict, memo=None) -> Node:
    """mapping: symbol name -> Node/number, or Node -> Node (for atoms)."""
    memo = {} if memo is None else memo

    def go(x: Node) -> Node:
        r = memo.get(x.id)
        if r is not None:
            return r
        if x in mapping:
            r = tonode(mapping[x])
        elif x.op == "sym":
            r = tonode(mapping[x.payload]) if x.payload in mapping else x
        elif x.op == "const":
            r = x
        elif x.op == "fn":
            name, args = x.payload
            r = fn(name, *[go(a) for a in args])
        elif x.op == "mul":
            c, fs = x.payload
            r = const(c)
            for f, e in fs:
                r = mul(r, power(go(f), e))
        elif x.op == "add":
            c0, ts = x.payload
            r = addn([const(c0)] + [_scale(c, go(t)) for t, c in ts])
        else:
            raise ValueError(x.op)
        memo[x.id] = r
        return r

    return go(n)


# -- random interpretation in F_p -------------------------------------------


class FpPoint:
    """One random point: values for symbols, a random oracle for atoms."""

    def __init__(self, seed: int, assign: dict | None = None, p: int = P):
        self.seed = seed
        self.p = p
        self.assign = dict(assign or {})  # symbol name -> int mod p
        self.memo: dict = {}

    def _h(self, *key) -> int:
        h = hashlib.blake2b(repr((self.seed,) + key).encode(), digest_size=16).digest()
        return int.from_bytes(h, "big") % self.p

    def symval(self, name: str) -> int:
        v = self.assign.get(name)
        if v is None and name == "I":
            v = _sqrt_mod(self.p - 1, self.p)
            if v is None:
                raise Undecidable("imaginary unit needs a prime = 1 mod 4")
            v = min(v, self.p - v)
            self.assign[name] = v
        if v is None:
            v = self._h("sym", name)
            if v == 0:
                v = 1
            self.assign[name] = v
        return v

    def frac(self, c: Fraction) -> int:
        p = self.p
        return (c.numerator % p) * pow(c.denominator % p, p - 2, p) % p

    def atom(self, name: str, vals: tuple) -> int:
        p = self.p
        if name == "sqrt":
            u = vals[0]
            if u == 0:
                return 0
            r = _sqrt_mod(u, p)
            if r is None:
                raise NonResidue("sqrt")
            return min(r, p - r)
        if name == "cbrt":
            u = vals[0]
            if u == 0:
                return 0
            r = _cbrt_mod(u, p)
            if r is None:
                raise NonResidue("cbrt")
            return r
        if len(vals) == 1:
            if name == "log" and vals[0] == 1:
                return 0
            if name == "exp" and vals[0] == 0:
                return 1
            if name in ("atan", "sin", "tan", "atanh", "sinh", "tanh", "asin") and vals[0] == 0:
                return 0
            if name in ("cos", "cosh") and vals[0] == 0:
                return 1
            if name in ("sin", "cos", "tan"):
                # one random half-angle parameter u per argument value keeps sin^2+cos^2=1 and tan=sin/cos exact
                u = self._h("fn", "tan_half", vals)
                den = (1 + u * u) % p
                if name == "sin":
                    if den == 0:
                        raise NonResidue("trig")
                    return 2 * u * pow(den, p - 2, p) % p
                if name == "cos":
                    if den == 0:
                        raise NonResidue("trig")
                    return (1 - u * u) * pow(den, p - 2, p) % p
                d2 = (1 - u * u) % p
                if d2 == 0:
                    raise NonResidue("trig")
                return 2 * u * pow(d2, p - 2, p) % p
        return self._h("fn", name, vals)

    def eval(self, n) -> int:
        if not isinstance(n, Node):
            return self.frac(as_const(n))
        memo = self.memo
        p = self.p
        stack = [n]
        while stack:
            x = stack[-1]
            if x.id in memo:
                stack.pop()
                continue
            if x.op == "const":
                memo[x.id] = self.frac(x.payload)
                stack.pop()
            elif x.op == "sym":
                memo[x.id] = self.symval(x.payload)
                stack.pop()
            elif x.op == "fn":
                name, args = x.payload
                pend = [a for a in args if a.id not in memo]
                if pend:
                    stack.extend(pend)
                    continue
                memo[x.id] = self.atom(name, tuple(memo[a.id] for a in args))
                stack.pop()
            elif x.op == "mul":
                c, fs = x.payload
                pend = [f for f, _ in fs if f.id not in memo]
                if pend:
                    stack.extend(pend)
                    continue
                v = self.frac(c)
                for f, e in fs:
                    fv = memo[f.id]
                    if e < 0:
                        if fv == 0:
                            raise ZeroDivisionError("division by zero at random point")
                        fv = pow(fv, p - 2, p)
                        e = -e
                    v = v * pow(fv, e, p) % p
                memo[x.id] = v
                stack.pop()
            elif x.op == "add":
                c0, ts = x.payload
                pend = [t for t, _ in ts if t.id not in memo]
                if pend:
                    stack.extend(pend)
                    continue
                v = self.frac(c0)
                for t, c in ts:
                    v = (v + self.frac(c) * memo[t.id]) % p
                memo[x.id] = v
                stack.pop()
            else:
                raise ValueError(x.op)
        return memo[n.id]


P_COMPLEX = 2305843009213694017  # prime = 1 mod 12: sqrt(-1) and sqrt(3) exist


def _sqrt_mod(u: int, p: int):
    """Tonelli-Shanks; None when u is a non-residue."""
    u %= p
    if u == 0:
        return 0
    if pow(u, (p - 1) // 2, p) != 1:
        return None
    if p % 4 == 3:
        return pow(u, (p + 1) // 4, p)
    q, s = p - 1, 0
    while q % 2 == 0:
        q //= 2
        s += 1
    z = 2
    while pow(z, (p - 1) // 2, p) != p - 1:
        z += 1
    m, c, t, r = s, pow(z, q, p), pow(u, q, p), pow(u, (q + 1) // 2, p)
    while t != 1:
        i, t2 = 0, t
        while t2 != 1:
            t2 = t2 * t2 % p
            i += 1
        b = pow(c, 1 << (m - i - 1), p)
        m, c = i, b * b % p
        t, r = t * c % p, r * b % p
    return r


def _cbrt_mod(u: int, p: int):
    if p % 3 == 2:
        return pow(u, (2 * p - 1) // 3, p)
    # p - 1 divisible by 9 for 2^61-1 (p-1 = 2*3^2*...): generic cube root via exponent when unique
    # is not available; use the Adleman-Manders-Miller shortcut through brute exponent trick:
    # if u^((p-1)/3) != 1 there is no cube root.
    if pow(u, (p - 1) // 3, p) != 1:
        return None
    # p-1 = 3^2 * m with gcd(m,3)=1 for P ; general AMM for s=2
    s, m = 0, p - 1
    while m % 3 == 0:
        s += 1
        m //= 3
    # find k with 3k = 1 mod m  => x0 = u^k satisfies x0^3 = u * (u^m')... do generic AMM
    # generic Adleman-Manders-Miller:
    import random

    rnd = random.Random(12345)
    while True:
        c = rnd.randrange(2, p - 1)
        if pow(c, (p - 1) // 3, p) != 1:
            break
    cp = pow(c, m, p)  # generator of the 3-Sylow subgroup
    # l such that 3 | (m*l + 1)
    l = 1 if (m + 1) % 3 == 0 else 2
    # now u^(m*l+1) = u * (u^m)^l, and u^m lies in the 3-Sylow subgroup with order dividing 3^(s-1)
    x = pow(u, (m * l + 1) // 3, p)
    # correction: find t with (u^m)^l = cp^(3 t'), brute force over 3^s elements (s small: 2)
    b = pow(pow(u, m, p), l, p)  # want y with y^3 = b, y in Sylow group; then root = x / y
    order = 3 ** s
    if order > 100000:
        raise Undecidable("3-Sylow subgroup too large for brute-force cube root")
    g = cp
    y = None
    gi = 1
    for i in range(order):
        if pow(gi, 3, p) == b:
            y = gi
            break
        gi = gi * g % p
    if y is None:
        return None
    r = x * pow(y, p - 2, p) % p
    if pow(r, 3, p) != u:
        return None
    return r


K_MULT = 1


def is_zero_fp(nodes, seed: int = 0, k: int = 3, assign_hook=None):
    """Decide  all(n == 0)  by random interpretation.  Returns (True, info) or (False, witness)."""
    k = k * K_MULT          # the thorough tier multiplies the number of independent random interpretations
    nodes = [tonode(n) for n in nodes]
    prime = P
    for n in nodes:
        if "I" in symbols(n):
            prime = P_COMPLEX
            break
    done = 0
    tries = 0
    while done < k:
        tries += 1
        if tries > 400:
            raise Undecidable("too many non-residue resamples")
        pt = FpPoint(seed * 1000003 + tries, p=prime)
        if assign_hook:
            assign_hook(pt)
        try:
            vals = [pt.eval(n) for n in nodes]
        except NonResidue:
            continue
        except ZeroDivisionError:
            continue
        for i, v in enumerate(vals):
            if v != 0:
                return False, {"index": i, "point_seed": pt.seed, "assign": dict(list(pt.assign.items())[:12])}
        done += 1
    return True, {"points": k, "prime": prime, "resamples": tries - k}


def equal_fp(a, b, seed: int = 0, k: int = 3):
    ok, info = is_zero_fp([sub(a, b)], seed, k)
    return ok, info


# -- sympy bridge -----------------------------------------------------------


def to_sympy(n, symtab: dict | None = None, fntab: dict | None = None):
    import sympy as sp

    symtab = {} if symtab is None else symtab
    fntab = {} if fntab is None else fntab
    memo: dict = {}

    def go(x):
        if not isinstance(x, Node):
            c = as_const(x)
            return sp.Rational(c.numerator, c.denominator)
        r = memo.get(x.id)
        if r is not None:
            return r
        if x.op == "const":
            r = sp.Rational(x.payload.numerator, x.payload.denominator)
        elif x.op == "sym":
            r = symtab.get(x.payload)
            if r is None:
                r = symtab[x.payload] = sp.Symbol(x.payload)
        elif x.op == "fn":
            name, args = x.payload
            sargs = [go(a) for a in args]
            if name in fntab:
                r = fntab[name](*sargs)
            elif name == "log":
                r = sp.log(*sargs)
            elif name == "exp":
                r = sp.exp(*sargs)
            elif name == "sqrt":
                r = sp.sqrt(*sargs)
            elif name == "cbrt":
                r = sargs[0] ** sp.Rational(1, 3)
            elif name == "atan":
                r = sp.atan(*sargs)
            else:
                r = sp.Function(name)(*sargs)
        elif x.op == "mul":
            c, fs = x.payload
            r = sp.Rational(c.numerator, c.denominator)
            for f, e in fs:
                r = r * go(f) ** e
        elif x.op == "add":
            c0, ts = x.payload
            r = sp.Rational(c0.numerator, c0.denominator)
            r = sp.Add(r, *[sp.Rational(c.numerator, c.denominator) * go(t) for t, c in ts])
        else:
            raise ValueError(x.op)
        memo[x.id] = r
        return r

    return go(n)


def eval_fraction(n, env: dict, fnenv: dict | None = None) -> Fraction:
    """Exact rational evaluation; env: symbol -> Fraction; fnenv: atom name -> callable(*Fractions)."""
    fnenv = fnenv or {}
    memo: dict = {}

    def go(x):
        if not isinstance(x, Node):
            return as_const(x)
        r = memo.get(x.id)
        if r is not None:
            return r
        if x.op == "const":
            r = x.payload
        elif x.op == "sym":
            if x.payload not in env:
                raise Undecidable(f"no value for symbol {x.payload}")
            r = Fraction(env[x.payload])
        elif x.op == "fn":
            name, args = x.payload
            if name not in fnenv:
                raise Undecidable(f"no exact value for atom {name}")
            r = Fraction(fnenv[name](*[go(a) for a in args]))
        elif x.op == "mul":
            c, fs = x.payload
            r = c
            for f, e in fs:
                r = r * go(f) ** e
        elif x.op == "add":
            c0, ts = x.payload
            r = c0
            for t, c in ts:
                r += c * go(t)
        memo[x.id] = r
        return r

    return go(n)


# -- symbolic differentiation -----------------------------------------------


def diff(n, var: str, assume_real_identity: bool = True, memo=None) -> Node:
    """d n / d var on the DAG.  Atoms: log, exp, sqrt, cbrt, atan, sin, cos; Re/conj pass through
    when assume_real_identity; any other atom depending on var is refused."""
    memo = {} if memo is None else memo
    n = tonode(n)

    def go(x: Node) -> Node:
        r = memo.get(x.id)
        if r is not None:
            return r
        if x.op == "const":
            r = ZERO
        elif x.op == "sym":
            r = ONE if x.payload == var else ZERO
        elif x.op == "add":
            c0, ts = x.payload
            r = addn([_scale(c, go(t)) for t, c in ts])
        elif x.op == "mul":
            c, fs = x.payload
            terms = []
            for f, e in fs:
                df = go(f)
                if df.op == "const" and df.payload == 0:
                    continue
                # d(f^e) * rest = e * df / f * x
                terms.append(mul(mul(const(e), df), div(x, f)))
            r = addn(terms) if terms else ZERO
        elif x.op == "fn":
            name, args = x.payload
            das = [go(a) for a in args]
            if all(d.op == "const" and d.payload == 0 for d in das):
                r = ZERO
            elif len(args) == 1:
                u, du = args[0], das[0]
                if name == "log":
                    r = div(du, u)
                elif name == "exp":
                    r = mul(du, x)
                elif name == "sqrt":
                    r = div(du, mul(2, x))
                elif name == "cbrt":
                    r = div(du, mul(3, mul(x, x)))
                elif name == "atan":
                    r = div(du, add(1, mul(u, u)))
                elif name == "atanh":
                    r = div(du, sub(1, mul(u, u)))
                elif name == "sin":
                    r = mul(du, fn("cos", u))
                elif name == "cos":
                    r = neg(mul(du, fn("sin", u)))
                elif name == "tan":
                    r = mul(du, add(1, mul(fn("tan", u), fn("tan", u))))
                elif name in ("Re", "conj") and assume_real_identity:
                    r = du
                else:
                    raise Undecidable(f"derivative of atom {name}")
            else:
                raise Undecidable(f"derivative of atom {name}/{len(args)}")
        else:
            raise ValueError(x.op)
        memo[x.id] = r
        return r

    return go(n)
