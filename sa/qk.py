"""Harness for partially evaluating eko.evolution_operator.quad_ker.quad_ker_qcd / quad_ker_qed (C51, C55)."""
from __future__ import annotations

from . import dag, ekore_model as em, kern
from .arr import Arr
from .pe import PE, Obj
from .src import load

QK = "eko.evolution_operator.quad_ker"
VAR0 = (0,) * 7


def make_pe():
    src = load()

    def assume(text, env):
        r = kern.assume_distinct_couplings(text, env)
        if r is None:
            r = em.assume_generic_moment(text, env)
        return r

    pe = PE(src, assume=assume, real_is_identity=True)
    em.install_cache_atoms(pe)
    em.install_special_function_atoms(pe)
    pe.ext["builtins.complex"] = kern._complex
    pe.overrides["eko.matchings.lepton_number"] = lambda pe_, a, k: 3
    kern.install_expm_model(pe)
    return src, pe


def ker_base(pe, mode0):
    src = pe.src
    o = Obj(src.cls(f"{QK}.QuadKerBase"))
    o.attrs.update(is_singlet=mode0 in (100, 21, 90), is_QEDsinglet=mode0 in (21, 22, 100, 101, 90),
                   is_QEDvalence=mode0 in (10200, 10204), is_log=True, u=dag.sym("u"), logx=dag.sym("logx"), n=dag.sym("N"))
    return o


def enums(pe):
    M = pe.enum_members(pe.get_global("eko.kernels", "EvoMethods").cls)
    SV = pe.enum_members(pe.get_global("eko.scale_variations", "Modes").cls)
    return M, SV


def qcd(pe, order, mode0, mode1, method, nf=4, Lsv=None, its=1, max_order=None, sv_mode=None, is_threshold=False,
        pol=False, tl=False, var=VAR0, fh=True):
    args = [ker_base(pe, mode0), order, mode0, mode1, method, dag.sym("as1"), dag.sym("as0"), nf,
            dag.sym("Lsv") if Lsv is None else Lsv, its, max_order or (order[0], 0), sv_mode, is_threshold, pol, tl, var, fh]
    return pe.call(f"{QK}.quad_ker_qcd", args)


def qed(pe, order, mode0, mode1, method, nf=4, Lsv=None, its=1, max_order=(10, 0), sv_mode=None, is_threshold=False,
        running=False, var=VAR0, fh=True):
    as_list = Arr.from_nested([dag.sym(f"asl{i}") for i in range(its + 1)])
    a_half = Arr.from_nested([[dag.sym(f"ash{i}"), dag.sym(f"aemh{i}")] for i in range(its)])
    args = [ker_base(pe, mode0), order, mode0, mode1, method, as_list, dag.sym("mu2_from"), dag.sym("mu2_to"), a_half, running, nf,
            dag.sym("Lsv") if Lsv is None else Lsv, its, max_order, sv_mode, is_threshold, var, fh]
    return pe.call(f"{QK}.quad_ker_qed", args)
