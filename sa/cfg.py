"""CFG - per-function control flow on the statement kinds the repository uses (DESIGN.md 3.2).

* `all_paths_return_value(fn)`  - syntax-directed: every path ends in `return <value>` or `raise`
* `build(fn)`                    - statement-level CFG (networkx DiGraph) with exceptional edges
* dominance / must-pass-through queries on that graph
"""
from __future__ import annotations

import ast

import networkx as nx


# ----------------------------------------------------------------------------- all paths return
def _is_true_const(test):
    return isinstance(test, ast.Constant) and bool(test.value) is True


def _terminates(stmts, in_loop=False):
    """-> (falls_through: bool, bad: str|None).  falls_through: control can reach the end of the block.
    bad: description of a path that returns without a value."""
    for i, st in enumerate(stmts):
        if isinstance(st, ast.Return):
            if st.value is None or (isinstance(st.value, ast.Constant) and st.value.value is None):
                return False, f"line {st.lineno}: bare `return`"
            return False, None
        if isinstance(st, ast.Raise):
            return False, None
        if isinstance(st, (ast.Break, ast.Continue)):
            return False, None  # handled by the enclosing loop (conservatively: loop may fall through)
        if isinstance(st, ast.If):
            f1, b1 = _terminates(st.body, in_loop)
            f2, b2 = _terminates(st.orelse, in_loop) if st.orelse else (True, None)
            if b1 or b2:
                return False, b1 or b2
            if not f1 and not f2:
                return False, None
            continue
        if isinstance(st, (ast.For, ast.While, ast.AsyncFor)):
            f, b = _terminates(st.body, True)
            if b:
                return False, b
            if isinstance(st, ast.While) and _is_true_const(st.test) and not _has_break(st.body):
                return False, None
            continue
        if isinstance(st, (ast.With, ast.AsyncWith)):
            f, b = _terminates(st.body, in_loop)
            if b:
                return False, b
            if not f:
                return False, None
            continue
        if isinstance(st, ast.Try):
            f, b = _terminates(st.body + st.orelse, in_loop)
            if b:
                return False, b
            hs = [_terminates(h.body, in_loop) for h in st.handlers]
            for hf, hb in hs:
                if hb:
                    return False, hb
            if st.finalbody:
                ff, fb = _terminates(st.finalbody, in_loop)
                if fb:
                    return False, fb
                if not ff:
                    return False, None
            if not f and all(not hf for hf, _ in hs):
                return False, None
            continue
        if isinstance(st, ast.Match):
            outs = [_terminates(c.body, in_loop) for c in st.cases]
            for cf, cb in outs:
                if cb:
                    return False, cb
            has_default = any(isinstance(c.pattern, ast.MatchAs) and c.pattern.pattern is None and c.guard is None
                              for c in st.cases)
            if has_default and all(not cf for cf, _ in outs):
                return False, None
            continue
    return True, None


def _has_break(stmts):
    for st in stmts:
        for n in ast.walk(st):
            if isinstance(n, ast.Break):
                return True
    return False


def returns_a_value_somewhere(fn) -> bool:
    for n in _walk_own(fn):
        if isinstance(n, ast.Return) and n.value is not None and not (
                isinstance(n.value, ast.Constant) and n.value.value is None):
            return True
    return False


def _walk_own(fn):
    """walk fn's body without descending into nested defs/lambdas/classes"""
    stack = list(fn.body)
    while stack:
        n = stack.pop()
        yield n
        for ch in ast.iter_child_nodes(n):
            if isinstance(ch, (ast.FunctionDef, ast.AsyncFunctionDef, ast.Lambda, ast.ClassDef)):
                continue
            stack.append(ch)


def is_generator(fn) -> bool:
    return any(isinstance(n, (ast.Yield, ast.YieldFrom)) for n in _walk_own(fn))


def all_paths_return_value(fn):
    """(ok, why).  Functions that never return a value (procedures) and generators are ok."""
    if is_generator(fn) or not returns_a_value_somewhere(fn):
        return True, ""
    falls, bad = _terminates(fn.body)
    if bad:
        return False, bad
    if falls:
        # describe the path: the last compound statement whose branches do not all return
        return False, _describe_fallthrough(fn.body)
    return True, ""


def _describe_fallthrough(stmts):
    last = stmts[-1]
    if isinstance(last, ast.If):
        f1, _ = _terminates(last.body)
        if f1:
            return f"`if {ast.unparse(last.test)[:60]}` (line {last.lineno}) true branch -> " + _describe_fallthrough(last.body)
        if not last.orelse:
            return f"`if {ast.unparse(last.test)[:60]}` (line {last.lineno}) is false -> end of function"
        return f"`if {ast.unparse(last.test)[:60]}` (line {last.lineno}) else branch -> " + _describe_fallthrough(last.orelse)
    return f"after line {getattr(last, 'end_lineno', last.lineno)} -> end of block"


# ----------------------------------------------------------------------------- statement CFG
ENTRY, EXIT, RAISE = "<entry>", "<exit>", "<raise>"


class CFG:
    """nodes: ENTRY, EXIT (normal return/fall-through), RAISE (exception leaves the function), and ast stmt objects
    (by id).  edge attr kind in {'n','exc','true','false'}."""

    def __init__(self, fn, calls_may_raise=True):
        self.fn = fn
        self.g = nx.DiGraph()
        self.stmts = {}
        self.calls_may_raise = calls_may_raise
        self.g.add_nodes_from([ENTRY, EXIT, RAISE])
        ends = self._block(fn.body, [ENTRY], handlers=[], loop=None)
        for e in ends:
            self._edge(e, EXIT)

    def _id(self, st):
        k = id(st)
        self.stmts[k] = st
        return k

    def _edge(self, a, b, kind="n"):
        self.g.add_edge(a, b, kind=kind)

    def _may_raise(self, st):
        if isinstance(st, (ast.Raise, ast.Assert)):
            return True
        if not self.calls_may_raise:
            return False
        for n in ast.walk(st) if not isinstance(st, (ast.If, ast.For, ast.While, ast.With, ast.Try)) else ast.walk(
                _header(st)):
            if isinstance(n, (ast.Call, ast.Subscript, ast.Attribute, ast.BinOp)):
                return True
        return False

    def _exc_target(self, handlers):
        return handlers[-1] if handlers else RAISE

    def _block(self, stmts, preds, handlers, loop):
        cur = list(preds)
        for st in stmts:
            if not cur:
                break
            cur = self._stmt(st, cur, handlers, loop)
        return cur

    def _stmt(self, st, preds, handlers, loop):
        n = self._id(st)
        for p in preds:
            self._edge(p, n)
        if self._may_raise(st):
            self._edge(n, self._exc_target(handlers), "exc")
        if isinstance(st, ast.Return):
            # finally blocks are handled by the Try construct (approximation: return jumps to EXIT)
            tgt = handlers_finally(handlers)
            self._edge(n, EXIT if tgt is None else tgt)
            return []
        if isinstance(st, ast.Raise):
            return []
        if isinstance(st, ast.If):
            a = self._block(st.body, [n], handlers, loop)
            b = self._block(st.orelse, [n], handlers, loop) if st.orelse else [n]
            return a + b
        if isinstance(st, (ast.For, ast.While, ast.AsyncFor)):
            brk = []
            body_end = self._block(st.body, [n], handlers, (n, brk))
            for e in body_end:
                self._edge(e, n)
            out = [n] if not (isinstance(st, ast.While) and _is_true_const(st.test)) else []
            if st.orelse:
                out = self._block(st.orelse, out, handlers, loop)
            return out + brk
        if isinstance(st, ast.Break):
            if loop is not None:
                loop[1].append(n)
            return []
        if isinstance(st, ast.Continue):
            if loop is not None:
                self._edge(n, loop[0])
            return []
        if isinstance(st, (ast.With, ast.AsyncWith)):
            return self._block(st.body, [n], handlers, loop)
        if isinstance(st, ast.Try):
            hnode = ("<handlers>", id(st))
            self.g.add_node(hnode)
            inner = handlers + [hnode]
            body_end = self._block(st.body, [n], inner, loop)
            body_end = self._block(st.orelse, body_end, handlers, loop) if st.orelse else body_end
            outs = list(body_end)
            caught_all = False
            for h in st.handlers:
                hid = self._id(h)
                self._edge(hnode, hid)
                outs += self._block(h.body, [hid], handlers, loop)
                if h.type is None or ast.unparse(h.type) in ("Exception", "BaseException"):
                    caught_all = True
            if not caught_all:
                self._edge(hnode, self._exc_target(handlers), "exc")
            if st.finalbody:
                fin_in = outs + ([hnode] if not st.handlers else [])
                outs = self._block(st.finalbody, fin_in, handlers, loop)
            return outs
        return [n]

    # -- queries ----------------------------------------------------------
    def nodes_where(self, pred):
        return [k for k, st in self.stmts.items() if pred(st)]

    def dominators(self):
        return nx.immediate_dominators(self.g, ENTRY)

    def dominates(self, a, b, idom=None):
        idom = idom or self.dominators()
        x = b
        while True:
            if x == a:
                return True
            nx_ = idom.get(x)
            if nx_ is None or nx_ == x:
                return False
            x = nx_

    def reachable_without(self, src, dst, avoid):
        """is dst reachable from src on a path that avoids every node in `avoid`?"""
        avoid = set(avoid)
        if src in avoid:
            return False
        seen = {src}
        stack = [src]
        while stack:
            x = stack.pop()
            if x == dst:
                return True
            for y in self.g.successors(x):
                if y not in seen and y not in avoid:
                    seen.add(y)
                    stack.append(y)
        return False


def handlers_finally(handlers):
    return None


def _header(st):
    """the part of a compound statement evaluated at the statement itself"""
    if isinstance(st, (ast.If, ast.While)):
        return st.test
    if isinstance(st, (ast.For, ast.AsyncFor)):
        return st.iter
    if isinstance(st, (ast.With, ast.AsyncWith)):
        return ast.Tuple(elts=[i.context_expr for i in st.items], ctx=ast.Load())
    return ast.Pass()
