"""Abstract domain for large-N behaviour: truncated expansions  sum_{j,m} c_{jm} N^{-j} (ln N)^m + O(N^{-rem})  with exact (sympy)
coefficients, and the interpretation of DAGs (extracted formulas) in this domain.  Atoms (harmonic sums and their continuations)
get their asymptotic expansions from closed forms in polygamma functions (expanded by sympy); atoms without a table entry make the
analysis undecidable (never a silent pass)."""
from __future__ import annotations

from fractions import Fraction

import sympy as sp

from . import dag
from .dag import Undecidable

x = sp.Symbol("x", positive=True)      # 1/N
ELL = sp.Symbol("ell")                 # ln N
J = 7                                  # expansions are kept through x^(J-1)


class Asym:
    __slots__ = ("t", "rem")

    def __init__(self, terms=None, rem=J):
        self.t = {k: v for k, v in (terms or {}).items() if v != 0}
        self.rem = rem

    @staticmethod
    def const(c):
        return Asym({(0, 0): sp.sympify(c)}, 10 ** 6)

    @staticmethod
    def N():
        return Asym({(-1, 0): sp.Integer(1)}, 10 ** 6)

    def jmin(self):
        return min((j for j, _ in self.t), default=10 ** 6)

    def trunc(self):
        self.t = {(j, m): v for (j, m), v in self.t.items() if j < self.rem and j < J + 8}
        return self

    def __add__(self, o):
        r = dict(self.t)
        for k, v in o.t.items():
            r[k] = sp.expand(r.get(k, 0) + v)
        return Asym(r, min(self.rem, o.rem)).trunc()

    def scale(self, c):
        return Asym({k: sp.expand(v * c) for k, v in self.t.items()}, self.rem)

    def __mul__(self, o):
        rem = min(self.rem + o.jmin(), o.rem + self.jmin())
        r = {}
        for (j1, m1), v1 in self.t.items():
            for (j2, m2), v2 in o.t.items():
                j = j1 + j2
                if j >= rem or j >= J + 8:
                    continue
                k = (j, m1 + m2)
                r[k] = r.get(k, 0) + v1 * v2
        return Asym({k: sp.expand(v) for k, v in r.items()}, rem)

    def inverse(self):
        j0 = self.jmin()
        lead = {m: v for (j, m), v in self.t.items() if j == j0}
        if set(lead) != {0}:
            raise Undecidable("inverse of an expansion whose leading term contains ln N")
        a = lead[0]
        u = Asym({(j - j0, m): v / a for (j, m), v in self.t.items() if j != j0}, self.rem - j0)   # A = a x^j0 (1 + u)
        acc = Asym.const(1)
        term = Asym.const(1)
        for _ in range(J + 8):
            term = (term * u).scale(-1)
            if not term.t:
                break
            acc = acc + term
        acc.rem = min(acc.rem, u.rem)
        out = Asym({(j - j0, m): sp.expand(v / a) for (j, m), v in acc.t.items()}, acc.rem - j0)
        return out.trunc()

    def power(self, n: int):
        if n == 0:
            return Asym.const(1)
        base = self if n > 0 else self.inverse()
        out = None
        for _ in range(abs(n)):
            out = base if out is None else out * base
        return out

    def coeff(self, j, m):
        return self.t.get((j, m), sp.Integer(0))


def from_sympy(expr, rem=J):
    """expansion of a closed form in x (= 1/N) that sympy can expand at x -> 0+, with log(x) -> -ell"""
    s = sp.series(expr, x, 0, rem).removeO()
    s = sp.expand(s.subs(sp.log(x), -ELL))
    out = {}
    for term in sp.Add.make_args(s):
        c, rest = term.as_independent(x, ELL)
        j = sp.degree(rest, x) if rest.has(x) else 0
        m = sp.degree(rest, ELL) if rest.has(ELL) else 0
        out[(int(j), int(m))] = out.get((int(j), int(m)), 0) + c
    return Asym(out, rem)


def S_closed(k: int, z):
    if k == 1:
        return sp.digamma(z + 1) + sp.EulerGamma
    return sp.zeta(k) - sp.Integer(-1) ** k / sp.factorial(k - 1) * sp.polygamma(k - 1, z + 1)


_CACHE: dict = {}


def atom_expansion(name: str, args):
    """expansion of a named atom at argument N (the only argument shape the kernels use)"""
    key = (name, tuple(str(a) for a in args[1:]))
    if key in _CACHE:
        return _CACHE[key]
    Nn = 1 / x
    r = None
    if name.startswith("H_S") and name[3:].isdigit():
        r = from_sympy(S_closed(int(name[3:]), Nn))
    else:
        for suff, f in (("h", Nn / 2), ("mh", (Nn - 1) / 2), ("ph", (Nn + 1) / 2), ("p2", Nn + 2)):
            if name.startswith("H_S") and name.endswith(suff) and name[3:-len(suff)].isdigit():
                r = from_sympy(S_closed(int(name[3:-len(suff)]), f))
    if r is None and name.startswith("H_Sm") and name[4:].isdigit() and len(args) == 2:
        k = int(name[4:])
        flag = dag.as_const(args[1])
        if flag in (0, 1):
            eta = 1 if flag == 1 else -1
            e = eta * sp.Rational(1, 2 ** k) * (S_closed(k, Nn / 2) - S_closed(k, (Nn - 1) / 2)) - (1 - sp.Rational(2) ** (1 - k)) * (sp.zeta(k) if k > 1 else 0) \
                - (sp.log(2) if k == 1 else 0)
            r = from_sympy(e)
    if r is None and name in LEADING:
        r = Asym({(0, 0): LEADING[name]}, 1)       # known limit, corrections O(ln^m N / N)
    if r is None:
        raise Undecidable(f"no large-N expansion for atom {name}")
    _CACHE[key] = r
    return r


# limits of nested / special atoms for N -> infinity (analytic continuations from even or odd moments alike): literature values
LEADING = {
    "H_S21": 2 * sp.zeta(3), "H_Sm21": -sp.Rational(5, 8) * sp.zeta(3), "H_g3": sp.Integer(0), "H_g3p2": sp.Integer(0),
    "H_S31": sp.pi ** 4 / 72, "H_S211": sp.pi ** 4 / 30,
}


def evaluate(node, symbols=None):
    """DAG -> Asym; symbol N is the large variable, other symbols must be given as numbers in `symbols`"""
    symbols = symbols or {}
    memo = {}

    def frac(c):
        c = Fraction(c)
        return sp.Rational(c.numerator, c.denominator)

    def go(n):
        if not isinstance(n, dag.Node):
            return Asym.const(frac(dag.as_const(n)))
        r = memo.get(n.id)
        if r is not None:
            return r
        if n.op == "const":
            r = Asym.const(frac(n.payload))
        elif n.op == "sym":
            if n.payload == "N":
                r = Asym.N()
            elif n.payload == "pi":
                r = Asym.const(sp.pi)
            elif n.payload in symbols:
                r = Asym.const(sp.sympify(symbols[n.payload]))
            else:
                raise Undecidable(f"free symbol {n.payload} in a large-N expansion")
        elif n.op == "fn":
            name, args = n.payload
            if name == "zeta":
                r = Asym.const(sp.zeta(int(dag.as_const(args[0]))))
            elif name == "log" and dag.as_const(args[0]) is not None:
                r = Asym.const(sp.log(frac(dag.as_const(args[0]))))
            elif name == "log":
                a = go(args[0])
                j0 = a.jmin()
                lead = {m: v for (j, m), v in a.t.items() if j == j0}
                if set(lead) != {0}:
                    raise Undecidable("log of an expansion with ln N in its leading term")
                # log(a x^j0 (1+u)) = log a + j0 log x + log(1+u) ; log x = -ell
                u = Asym({(j - j0, m): v / lead[0] for (j, m), v in a.t.items() if j != j0}, a.rem - j0)
                acc = Asym({(0, 0): sp.log(lead[0]), (0, 1): sp.Integer(-j0)}, 10 ** 6)
                term = Asym.const(1)
                for k in range(1, J + 8):
                    term = term * u
                    if not term.t:
                        break
                    acc = acc + term.scale(sp.Rational((-1) ** (k + 1), k))
                acc.rem = min(acc.rem, u.rem)
                r = acc
            else:
                if not args or not (isinstance(args[0], dag.Node) and args[0].op == "sym" and args[0].payload == "N"):
                    raise Undecidable(f"atom {name} at an argument other than N")
                r = atom_expansion(name, args)
        elif n.op == "mul":
            c, fs = n.payload
            r = Asym.const(frac(c))
            for f, e in fs:
                e = Fraction(e)
                if e.denominator != 1:
                    raise Undecidable("fractional power in a large-N expansion")
                r = r * go(f).power(int(e))
        elif n.op == "add":
            c0, ts = n.payload
            r = Asym.const(frac(c0))
            for t, c in ts:
                r = r + go(t).scale(frac(c))
        else:
            raise ValueError(n.op)
        memo[n.id] = r
        return r

    return go(dag.tonode(node))
