"""PE models for ekore: harmonic-sum cache as uninterpreted atoms, polygamma / g-function atoms."""
from __future__ import annotations

import ast

from . import dag
from .pe import PE, PEError

HC = "ekore.harmonics.cache"
ALTERNATING = ("Sm1", "Sm2", "Sm3", "Sm4", "Sm5", "Sm21", "S2m1", "Sm2m1", "Sm31", "Sm22", "Sm211")


def cache_keys(pe: PE) -> dict:
    """index -> name of the harmonic cache slots, from the module's own constants"""
    m = pe.src.module(HC)
    size = pe.get_global(HC, "CACHE_SIZE")
    out = {}
    for name in m.consts:
        if name.startswith("_") or name == "CACHE_SIZE":
            continue
        v = pe.get_global(HC, name)
        if isinstance(v, int) and not isinstance(v, bool):
            out[v] = name
    if len(out) != size - 0 and len(out) < 20:
        raise PEError(f"harmonic cache key table not understood: {len(out)} keys for CACHE_SIZE {size}")
    return out


def flag_const(is_singlet):
    if is_singlet is None:
        return -1
    return 1 if is_singlet else 0


def install_cache_atoms(pe: PE, record=None):
    """cache.get(KEY, cache, n[, is_singlet]) -> atom KEY(n[, flag]);  flag: 1 singlet, 0 non-singlet, -1 generic."""
    keys = cache_keys(pe)

    def get_model(pe_, args, kwargs):
        key, cache, n = args[0], args[1], args[2]
        is_singlet = args[3] if len(args) > 3 else kwargs.get("is_singlet")
        if not isinstance(key, int) or key not in keys:
            raise PEError(f"harmonic cache lookup with non-constant or unknown key {key!r}")
        name = keys[key]
        if record is not None:
            record.append((name, is_singlet, list(pe_.call_stack)))
        if name in ALTERNATING:
            return dag.fn("H_" + name, n, flag_const(is_singlet))
        return dag.fn("H_" + name, n)

    pe.overrides[f"{HC}.get"] = get_model
    pe.overrides[f"{HC}.reset"] = lambda pe_, a, k: "<harmonic cache>"
    return keys


def psi(k: int, z):
    """polygamma psi^(k)(z) as an atom with the argument's integer shift removed through the recurrence
    psi^(k)(z+1) = psi^(k)(z) + (-1)^k k! / z^(k+1)  (canonical representative: constant part of z in [0, 1))."""
    import math
    from fractions import Fraction

    z = dag.tonode(z)
    c0 = Fraction(0)
    if z.op == "const":
        c0 = z.payload
    elif z.op == "add":
        c0 = z.payload[0]
    m = math.floor(c0)
    if m == 0 or z.op == "const":
        return dag.fn(f"psi{k}", z)
    z0 = dag.sub(z, m)
    out = dag.fn(f"psi{k}", z0)
    sign = (-1) ** k * math.factorial(k)
    rng = range(0, m) if m > 0 else range(m, 0)
    for j in rng:
        term = dag.mul(sign, dag.power(dag.add(z0, j), -(k + 1)))
        out = dag.add(out, term) if m > 0 else dag.sub(out, term)
    return out


def install_special_function_atoms(pe: PE):
    """cern_polygamma(z, k) -> psi<k>(z) (shift-normalised);  g-functions / log-function Mellin transforms -> atoms"""
    pe.overrides["ekore.harmonics.polygamma.cern_polygamma"] = lambda pe_, a, k: psi(pe_.as_index(a[1]), a[0])
    # the g-functions are numerical parametrisations -> atoms; harmonics.log_functions are elementary closed forms in the
    # harmonic sums and are interpreted like any other code
    for modname, prefix in (("ekore.harmonics.g_functions", "G"),):
        mod = pe.src.module(modname)
        for fname, f in mod.funcs.items():
            pe.overrides[f.qname] = (lambda nm: lambda pe_, a, k: dag.fn(f"{nm}", *a))(f"{prefix}_{fname}")


def assume_generic_moment(text, env):
    """named regime assumption: the Mellin moment is not within 1e-5 of a removable singularity (N = 1) -
    the guarded branches substitute the analytic limit there (audited under C26)"""
    from . import pe as P

    if "abs(" not in text:
        return None
    try:
        t = ast.parse(text, mode="eval").body
    except SyntaxError:
        return None
    # |symbolic quantity| against a small constant: judged on the values of the operands (a generic moment is not within the tolerance)
    if isinstance(t, ast.Compare) and len(t.ops) == 1 and isinstance(t.ops[0], (ast.Lt, ast.LtE, ast.Gt, ast.GtE)):
        return P.decide_on_values(P.CURRENT_PE, text, env)
    return None
