"""PE - partial evaluator / formula extractor over the repository's ASTs (DESIGN.md 3.3).

Abstract interpretation in the constant-propagation lattice extended with exact rational
functions and uninterpreted atoms.  Configuration arguments are concrete, physics arguments are
symbolic (dag.Node).  Branch conditions must be decidable from concrete values (or from an
explicit, named assumption supplied by the rule instance); there is no path forking and no
solver.  Unknown library calls evaluate to Top; a Top reaching a checked result is an
analysis error, never a pass.
"""
from __future__ import annotations

import ast
import operator
from fractions import Fraction

from . import dag
from .arr import Arr, elementwise, matmul, einsum, broadcast_to
from .core import AnalysisError
from .dag import Node, Undecidable
from .src import Class, Func, Module, Source

INF = float("inf")


class Top:
    """Unknown value with provenance."""

    __slots__ = ("why",)

    def __init__(self, why):
        self.why = why

    def __repr__(self):
        return f"Top({self.why})"


class NaNTop(Top):
    """np.nan: propagates through arithmetic like an unknown, recognised by np.isnan (cache sentinels)."""

    __slots__ = ()


NAN = NaNTop("nan")


class PEError(AnalysisError):
    pass


class PERaise(Exception):
    """The interpreted code raises: part of the result (a *refusal*)."""

    def __init__(self, etype: str, message, where: str = ""):
        super().__init__(f"{etype}: {message}")
        self.etype = etype
        self.message = message
        self.where = where


class _Return(Exception):
    def __init__(self, value):
        self.value = value


class _Break(Exception):
    pass


class _Continue(Exception):
    pass


class ModuleRef:
    def __init__(self, name):
        self.name = name

    def __repr__(self):
        return f"<module {self.name}>"


class ExtRef:
    """A name in a library that is not part of the repository (numpy.log, ...)."""

    def __init__(self, qname):
        self.qname = qname

    def __repr__(self):
        return f"<ext {self.qname}>"


class Closure:
    def __init__(self, func: Func | None, node, env: "Env", module: Module, name=""):
        self.func = func
        self.node = node  # FunctionDef or Lambda
        self.env = env    # defining environment (None for module-level functions)
        self.module = module
        self.name = name or getattr(node, "name", "<lambda>")

    def __repr__(self):
        return f"<function {self.name}>"


class Bound:
    def __init__(self, obj, fn):
        self.obj = obj
        self.fn = fn


class ClassRef:
    def __init__(self, cls: Class):
        self.cls = cls

    def __repr__(self):
        return f"<class {self.cls.qname}>"


class Obj:
    """Instance of a repository class."""

    def __init__(self, cls: Class):
        self.cls = cls
        self.attrs: dict = {}

    def __repr__(self):
        return f"<{self.cls.qname} {self.attrs if len(str(self.attrs)) < 80 else '...'}>"


class DefaultDict(dict):
    """collections.defaultdict: missing keys are created by applying the factory (a PE callable)"""
    factory = None


class Opaque:
    """Marker base for host-Python objects a check hands to the evaluator (paths, ...): attribute access, operators and
    method calls on them are performed natively."""


class NativeCall:
    def __init__(self, fn):
        self.fn = fn


class BuiltinMethod:
    def __init__(self, obj, name):
        self.obj = obj
        self.name = name


class Env:
    def __init__(self, module: Module, parent: "Env | None" = None, func_name=""):
        self.vars: dict = {}
        self.module = module
        self.parent = parent
        self.func_name = func_name
        self.globals_decl: set = set()

    def lookup(self, name):
        e = self
        while e is not None:
            if name in e.vars:
                return True, e.vars[name]
            e = e.parent
        return False, None


def is_scalar(x):
    return isinstance(x, (int, Fraction, Node)) and not isinstance(x, bool) or isinstance(x, bool)


def contains_top(x, depth=0):
    if isinstance(x, Top):
        return x
    if depth > 6:
        return None
    if isinstance(x, Arr):
        for e in x.flat():
            if isinstance(e, Top):
                return e
        return None
    if isinstance(x, (list, tuple)):
        for e in x:
            t = contains_top(e, depth + 1)
            if t:
                return t
    if isinstance(x, dict):
        for e in x.values():
            t = contains_top(e, depth + 1)
            if t:
                return t
    return None


class PE:
    def __init__(self, src: Source, assume=None, real_is_identity=False, max_depth=80):
        self.src = src
        self.assume = assume  # callable(text, env) -> bool | None
        self.real_is_identity = real_is_identity
        self.max_depth = max_depth
        self.depth = 0
        self.mod_globals: dict[str, dict] = {}
        self._interned: dict = {}   # value identity of frozen dataclass objects -> representative object
        self.overrides: dict = {}   # qualified name -> callable(pe, args, kwargs)
        self.ext: dict = {}
        self.trace_calls: list[str] = []
        self.steps = 0
        self.max_steps = 20_000_000
        self.call_stack: list[str] = []
        self.site_hook = None  # callable(kind, call_node, env, args) for domain-sensitive library calls
        self.order_rep = None    # opt-in: callable giving representative values of symbols for min/max/sorted on symbolic values (only their order matters)
        self.np_scalars = False  # opt-in: elements read from arrays made by numpy.array are NumPy scalars (fsmodel.NpScalar), as in the library
        from . import pe_models

        pe_models.install(self)

    # ------------------------------------------------------------------ API
    def call(self, qname: str, args=(), kwargs=None):
        f = self.src.func(qname)
        clo = Closure(f, f.node, None, f.module, f.qname)
        if f.cls is not None and not _is_static(f):
            raise PEError(f"{qname} is a method; use call_method")
        return self.apply(clo, list(args), dict(kwargs or {}))

    def get_global(self, modname: str, name: str):
        return self.global_lookup(self.src.module(modname), name)

    def instantiate(self, cls_qname: str, args=(), kwargs=None):
        return self.apply(ClassRef(self.src.cls(cls_qname)), list(args), dict(kwargs or {}))

    # ------------------------------------------------------------ scalar ops
    def s_add(self, a, b):
        if isinstance(a, Top):
            return a
        if isinstance(b, Top):
            return b
        if isinstance(a, Node) or isinstance(b, Node):
            return dag.add(a, b)
        if isinstance(a, float) or isinstance(b, float):
            return _float_arith(operator.add, a, b)
        return a + b

    def s_sub(self, a, b):
        if isinstance(a, Top):
            return a
        if isinstance(b, Top):
            return b
        if isinstance(a, Node) or isinstance(b, Node):
            return dag.sub(a, b)
        if isinstance(a, float) or isinstance(b, float):
            return _float_arith(operator.sub, a, b)
        return a - b

    def s_mul(self, a, b):
        if isinstance(a, Top):
            return a
        if isinstance(b, Top):
            return b
        if isinstance(a, Node) or isinstance(b, Node):
            return dag.mul(a, b)
        if isinstance(a, float) or isinstance(b, float):
            return _float_arith(operator.mul, a, b)
        return a * b

    def s_div(self, a, b):
        if isinstance(a, Top):
            return a
        if isinstance(b, Top):
            return b
        if isinstance(a, Node) or isinstance(b, Node):
            return dag.div(a, b)
        if isinstance(a, float) or isinstance(b, float):
            return _float_arith(operator.truediv, a, b)
        if b == 0:
            raise PERaise("ZeroDivisionError", "division by zero")
        r = Fraction(a) / Fraction(b)
        return r

    def s_pow(self, a, b):
        if isinstance(a, Top):
            return a
        if isinstance(b, Top):
            return b
        if isinstance(a, Node) or isinstance(b, Node):
            return dag.power(a, b)
        if isinstance(a, float) or isinstance(b, float):
            return _float_arith(operator.pow, a, b)
        if isinstance(b, (int, bool)):
            if b >= 0:
                return a ** b
            return Fraction(a) ** b
        b = Fraction(b)
        if b.denominator == 1:
            return Fraction(a) ** int(b)
        r = dag.power(dag.const(a), b)
        return r.payload if r.op == "const" else r

    def s_neg(self, a):
        if isinstance(a, Top):
            return a
        if isinstance(a, Node):
            return dag.neg(a)
        return -a

    def s_unary(self, name, a):
        """np.log & friends on one scalar."""
        if isinstance(a, Top):
            return a
        if isinstance(a, float):
            raise PEError(f"{name} of float infinity")
        if name == "sqrt":
            c = dag.as_const(a) if isinstance(a, Node) else a
            if isinstance(c, (int, Fraction)) and not isinstance(c, bool) and c >= 0:
                c = Fraction(c)
                import math as _m

                rn, rd = _m.isqrt(c.numerator), _m.isqrt(c.denominator)
                if rn * rn == c.numerator and rd * rd == c.denominator:
                    return Fraction(rn, rd)  # exact rational root
        r = dag.fn(name, a)
        return r

    # ------------------------------------------------------------ generic ops
    def binop(self, op, a, b):
        if isinstance(a, Top):
            return a
        if isinstance(b, Top):
            return b
        t = type(op)
        if isinstance(a, Opaque) or isinstance(b, Opaque):
            return {ast.Div: operator.truediv, ast.Add: operator.add, ast.Sub: operator.sub, ast.Mult: operator.mul,
                    ast.FloorDiv: operator.floordiv, ast.Mod: operator.mod}[t](a, b)
        if isinstance(a, Arr) or isinstance(b, Arr):
            if t is ast.MatMult:
                if not isinstance(a, Arr):
                    a = Arr.from_nested(a)
                if not isinstance(b, Arr):
                    b = Arr.from_nested(b)
                return matmul(a, b, self.s_add, self.s_mul)
            if isinstance(a, (list, tuple)):
                a = Arr.from_nested(a)
            if isinstance(b, (list, tuple)):
                b = Arr.from_nested(b)
            f = self._scalar_binop(t)
            return elementwise(f, a, b)
        if isinstance(a, (list, tuple, str)) or isinstance(b, (list, tuple, str)):
            if t is ast.Add:
                return a + b
            if t is ast.Mult:
                return a * b
            if t is ast.Mod and isinstance(a, str):
                return a % (tuple(self.to_py(x) for x in b) if isinstance(b, tuple) else self.to_py(b))
            raise PEError(f"unsupported sequence operation {t.__name__}")
        if isinstance(a, (set, frozenset)) and isinstance(b, (set, frozenset)):
            return {ast.BitOr: operator.or_, ast.BitAnd: operator.and_, ast.Sub: operator.sub,
                    ast.BitXor: operator.xor}[t](a, b)
        if isinstance(a, dict) and isinstance(b, dict) and t is ast.BitOr:
            return {**a, **b}
        return self._scalar_binop(t)(a, b)

    def _scalar_binop(self, t):
        if t is ast.Add:
            return self.s_add
        if t is ast.Sub:
            return self.s_sub
        if t is ast.Mult:
            return self.s_mul
        if t is ast.Div:
            return self.s_div
        if t is ast.Pow:
            return self.s_pow
        if t is ast.FloorDiv:
            return self._floordiv
        if t is ast.Mod:
            return self._mod
        if t in (ast.BitAnd, ast.BitOr, ast.BitXor, ast.LShift, ast.RShift):
            f = {ast.BitAnd: operator.and_, ast.BitOr: operator.or_, ast.BitXor: operator.xor,
                 ast.LShift: operator.lshift, ast.RShift: operator.rshift}[t]

            def g(a, b):
                if isinstance(a, Top):
                    return a
                if isinstance(b, Top):
                    return b
                if isinstance(a, (int, bool)) and isinstance(b, (int, bool)):
                    return f(a, b)
                raise PEError("bit operation on non-integers")

            return g
        raise PEError(f"unsupported operator {t.__name__}")

    def _floordiv(self, a, b):
        if isinstance(a, Top):
            return a
        if isinstance(b, Top):
            return b
        a2, b2 = _as_exact(a), _as_exact(b)
        if a2 is None or b2 is None:
            raise Undecidable("floor division of a symbolic value")
        r = a2 // b2
        return int(r) if isinstance(a, int) and isinstance(b, int) else Fraction(r)

    def _mod(self, a, b):
        if isinstance(a, Top):
            return a
        if isinstance(b, Top):
            return b
        a2, b2 = _as_exact(a), _as_exact(b)
        if a2 is None or b2 is None:
            raise Undecidable("modulo of a symbolic value")
        r = a2 % b2
        return int(r) if isinstance(a, int) and isinstance(b, int) else r

    def compare(self, op, a, b):
        t = type(op)
        if isinstance(a, Top) or isinstance(b, Top):
            raise Undecidable(f"comparison with unknown value {a if isinstance(a, Top) else b}")
        if t is ast.Is:
            for x, y in ((a, b), (b, a)):
                if isinstance(x, Opaque) and hasattr(type(x), "_same_object"):
                    return x._same_object(y)
            return a is b or (a is None and b is None) or (isinstance(a, bool) and isinstance(b, bool) and a == b)
        if t is ast.IsNot:
            return not self.compare(ast.Is(), a, b)
        if t is ast.In:
            return self._contains(b, a)
        if t is ast.NotIn:
            return not self._contains(b, a)
        if isinstance(a, Arr) or isinstance(b, Arr):
            f = lambda x, y: self.compare(op, x, y)
            return elementwise(f, a, b)
        if isinstance(a, Obj) or isinstance(b, Obj):
            return self._obj_compare(t, a, b)
        if isinstance(a, Node) or isinstance(b, Node):
            if isinstance(a, float) or isinstance(b, float):
                raise Undecidable("comparison of symbolic value with infinity")
            ca, cb = dag.as_const(a), dag.as_const(b)
            if ca is None or cb is None:
                if t in (ast.Eq, ast.NotEq) and (isinstance(a, Node) and isinstance(b, Node)) and a is b:
                    return t is ast.Eq
                if t in (ast.Eq, ast.NotEq) and not (is_scalar(a) and is_scalar(b)):
                    return t is ast.NotEq
                if t in (ast.Lt, ast.LtE, ast.Gt, ast.GtE) and isinstance(a, Node) and isinstance(b, Node) and a is b:
                    return t in (ast.LtE, ast.GtE)      # a value compared with itself
                raise Undecidable(f"comparison {dag.short(a)} {t.__name__} {dag.short(b)}")
            a, b = ca, cb
        f = {ast.Eq: operator.eq, ast.NotEq: operator.ne, ast.Lt: operator.lt, ast.LtE: operator.le,
             ast.Gt: operator.gt, ast.GtE: operator.ge}[t]
        try:
            return f(a, b)
        except TypeError:
            if t is ast.Eq:
                return False
            if t is ast.NotEq:
                return True
            raise PEError(f"cannot compare {type(a).__name__} and {type(b).__name__}")

    def _obj_compare(self, t, a, b):
        if t in (ast.Eq, ast.NotEq):
            eq = self._obj_eq(a, b)
            return eq if t is ast.Eq else not eq
        name = {ast.Lt: "__lt__", ast.LtE: "__le__", ast.Gt: "__gt__", ast.GtE: "__ge__"}[t]
        if isinstance(a, Obj):
            m = self.src.find_method(a.cls, name)
            if m:
                return self.truth(self.apply(Bound(a, Closure(m, m.node, None, m.module, m.qname)), [b], {}))
        raise PEError(f"ordering of objects not supported: {a} {b}")

    def _obj_eq(self, a, b):
        if a is b:
            return True
        if isinstance(a, Obj) and isinstance(b, Obj):
            m = self.src.find_method(a.cls, "__eq__")
            if m:
                return self.truth(self.apply(Bound(a, Closure(m, m.node, None, m.module, m.qname)), [b], {}))
            if a.cls is not b.cls:
                return False
            if a.cls.is_dataclass or _is_enum(self.src, a.cls):
                names = self.identity_fields(a.cls) if a.cls.is_dataclass else None
                if names is not None:
                    return all(self.truth(self.compare(ast.Eq(), a.attrs.get(k), b.attrs.get(k))) for k in names)
                if a.cls.is_dataclass:
                    return False   # eq=False: identity
                if set(a.attrs) != set(b.attrs):
                    return False
                return all(self.truth(self.compare(ast.Eq(), a.attrs[k], b.attrs[k])) for k in a.attrs)
            return False
        if isinstance(a, Obj):
            m = self.src.find_method(a.cls, "__eq__")
            if m:
                return self.truth(self.apply(Bound(a, Closure(m, m.node, None, m.module, m.qname)), [b], {}))
            if "_value_" in a.attrs and _is_enum(self.src, a.cls) and _enum_mixin(self.src, a.cls):
                return self.compare(ast.Eq(), a.attrs["_value_"], b)
        elif isinstance(b, Obj):
            return self._obj_eq(b, a)
        return False

    def _contains(self, container, x):
        if isinstance(container, Opaque):
            return x in container
        if isinstance(container, dict):
            try:
                return self.hashable(x) in container
            except TypeError:
                return False
        if isinstance(container, (list, tuple, set, frozenset, range)):
            for e in container:
                try:
                    if self.truth(self.compare(ast.Eq(), e, x)):
                        return True
                except Undecidable:
                    raise
            return False
        if isinstance(container, str):
            return x in container
        if isinstance(container, Arr):
            return any(self.truth(self.compare(ast.Eq(), e, x)) for e in container.flat())
        if isinstance(container, Obj):
            m = self.src.find_method(container.cls, "__contains__")
            if m:
                return self.truth(self.apply(Bound(container, Closure(m, m.node, None, m.module, m.qname)), [x], {}))
            if self.src.find_method(container.cls, "__iter__"):   # the language's fallback: membership by iteration
                return any(self.truth(self.compare(ast.Eq(), e, x)) for e in self.iterate(container))
        if type(container).__module__.startswith("pathlib"):   # native sequences handed out by model paths (.parents, .parts)
            return x in container
        raise PEError(f"'in' on {type(container).__name__}")

    def truth(self, v):
        if isinstance(v, Top):
            raise Undecidable(f"truth value of unknown: {v.why}")
        if isinstance(v, Node):
            return bool(v)
        if isinstance(v, Arr):
            if v.size == 1:
                return self.truth(v.flat()[0])
            raise PERaise("ValueError", "truth value of an array is ambiguous")
        if isinstance(v, Obj):
            m = self.src.find_method(v.cls, "__bool__") or self.src.find_method(v.cls, "__len__")
            if m:
                return self.truth(self.apply(Bound(v, Closure(m, m.node, None, m.module, m.qname)), [], {}))
            return True
        return bool(v)

    def hashable(self, x):
        if isinstance(x, Node):
            c = dag.as_const(x)
            if c is not None:
                return int(c) if c.denominator == 1 else c
            return x
        if isinstance(x, Fraction) and x.denominator == 1:
            return int(x)
        if isinstance(x, tuple):
            return tuple(self.hashable(e) for e in x)
        if isinstance(x, Obj) and "_value_" in x.attrs and _enum_mixin(self.src, x.cls):
            return self.hashable(x.attrs["_value_"])
        if isinstance(x, Obj):
            key = self._value_identity(x)
            if key is not None:
                # the first object seen with this value stands for all equal ones (dict / set keep the first key they saw)
                return self._interned.setdefault(key, x)
        if isinstance(x, list) or isinstance(x, Arr) or isinstance(x, dict):
            raise PERaise("TypeError", "unhashable type")
        return x

    def identity_fields(self, cls, for_hash=False):
        """names of the dataclass fields that take part in the generated __eq__ (and __hash__), or None when the class keeps
        identity semantics (no dataclass, eq=False, own __eq__/__hash__)"""
        if not cls.is_dataclass:
            return None
        decs = " ".join(ast.unparse(d) for d in cls.node.decorator_list)
        if "eq=False" in decs or self.src.find_method(cls, "__eq__") or (for_hash and self.src.find_method(cls, "__hash__")):
            return None
        if for_hash and not ("frozen=True" in decs or "unsafe_hash=True" in decs):
            return None
        out = []
        for name, (_c, default) in self.all_fields(cls).items():
            flags = {}
            if isinstance(default, ast.Call) and (ast.unparse(default.func).split(".")[-1] == "field"):
                flags = {k.arg: k.value.value for k in default.keywords if isinstance(k.value, ast.Constant)}
            if flags.get("compare") is False:
                continue
            if for_hash and flags.get("hash") is False:
                continue
            out.append(name)
        return out

    def _value_identity(self, x):
        names = self.identity_fields(x.cls, for_hash=True)
        if names is None:
            return None
        try:
            return (x.cls.qname, tuple(self.hashable(x.attrs.get(n)) for n in names))
        except (PERaise, TypeError):
            return None

    def to_py(self, x):
        """for string formatting"""
        if isinstance(x, Node):
            c = dag.as_const(x)
            return (int(c) if c.denominator == 1 else float(c)) if c is not None else dag.short(x, 60)
        if isinstance(x, Fraction):
            return int(x) if x.denominator == 1 else float(x)
        if isinstance(x, Obj) and "_value_" in x.attrs:
            return f"{x.cls.node.name}.{x.attrs.get('_name_')}"
        return x

    # ------------------------------------------------------------ names
    def module_globals(self, m: Module) -> dict:
        g = self.mod_globals.get(m.name)
        if g is None:
            g = self.mod_globals[m.name] = {}
        return g

    def global_lookup(self, m: Module, name: str):
        g = self.module_globals(m)
        if name in g:
            return g[name]
        if name in m.funcs:
            f = m.funcs[name]
            v = Closure(f, f.node, None, m, f.qname)
        elif name in m.classes:
            v = ClassRef(m.classes[name])
        elif name in m.consts:
            g[name] = Top(f"recursive constant {m.name}.{name}")
            env = Env(m)
            try:
                v = self.eval(m.consts[name], env)
            except Undecidable as e:
                v = Top(f"constant {m.name}.{name}: {e}")
        elif name in m.imports:
            v = self.import_ref(m.imports[name])
        elif name == "__name__":
            v = m.name
        elif name == "__file__":
            v = str(m.path)
        else:
            v = self.builtin(name)
        g[name] = v
        return v

    def import_ref(self, q: str):
        qc = self.src.canonical(q)
        if qc in self.src.modules:
            return ModuleRef(qc)
        if qc in self.src.funcs:
            f = self.src.funcs[qc]
            return Closure(f, f.node, None, f.module, f.qname)
        if qc in self.src.classes:
            return ClassRef(self.src.classes[qc])
        head, _, tail = qc.rpartition(".")
        if head in self.src.modules:
            return self.global_lookup(self.src.modules[head], tail)
        root = q.split(".")[0]
        if root in ("eko", "ekore", "ekobox"):
            raise PEError(f"unresolved repository name {q}")
        return ExtRef(q)

    BUILTINS = ("len", "range", "enumerate", "zip", "abs", "min", "max", "sum", "int", "float", "complex",
                "list", "tuple", "dict", "set", "frozenset", "sorted", "reversed", "isinstance", "print",
                "str", "bool", "round", "any", "all", "map", "filter", "iter", "next", "divmod", "pow",
                "getattr", "hasattr", "setattr", "type", "repr", "id", "callable", "issubclass", "super", "slice",
                "ValueError", "NotImplementedError", "TypeError", "KeyError", "IndexError", "Exception",
                "RuntimeError", "AssertionError", "AttributeError", "StopIteration", "ZeroDivisionError",
                "LookupError", "OSError", "FileNotFoundError", "FileExistsError", "object", "NotImplemented",
                "Ellipsis", "property", "staticmethod", "classmethod", "vars", "format", "chr", "ord", "hash", "open",
                "IsADirectoryError", "NotADirectoryError", "PermissionError", "EOFError", "bytes", "bytearray")

    def builtin(self, name):
        if name in self.BUILTINS:
            return ExtRef("builtins." + name)
        raise PEError(f"unknown name {name}")

    def load_name(self, name: str, env: Env):
        if name not in env.globals_decl:
            ok, v = env.lookup(name)
            if ok:
                return v
        return self.global_lookup(env.module, name)

    # ------------------------------------------------------------ expressions
    def eval(self, n, env: Env):
        self.steps += 1
        if self.steps > self.max_steps:
            raise PEError("step budget exhausted")
        m = getattr(self, "e_" + type(n).__name__, None)
        if m is None:
            raise PEError(f"unsupported expression {type(n).__name__} at {env.module.relpath}:{getattr(n, 'lineno', '?')}")
        return m(n, env)

    def e_Constant(self, n, env):
        v = n.value
        if isinstance(v, float):
            if v in (INF, -INF):
                return v
            f = dag.frac_of_float(v)
            return f
        if isinstance(v, complex):
            return dag.mul(dag.const(dag.frac_of_float(v.imag)), dag.sym("I"))
        return v

    def e_Name(self, n, env):
        return self.load_name(n.id, env)

    def e_Tuple(self, n, env):
        return tuple(self._elts(n.elts, env))

    def e_List(self, n, env):
        return list(self._elts(n.elts, env))

    def e_Set(self, n, env):
        return set(self.hashable(x) for x in self._elts(n.elts, env))

    def _elts(self, elts, env):
        out = []
        for e in elts:
            if isinstance(e, ast.Starred):
                out.extend(self.iterate(self.eval(e.value, env)))
            else:
                out.append(self.eval(e, env))
        return out

    def e_Dict(self, n, env):
        d = {}
        for k, v in zip(n.keys, n.values):
            if k is None:
                d.update(self.eval(v, env))
            else:
                d[self.hashable(self.eval(k, env))] = self.eval(v, env)
        return d

    def e_JoinedStr(self, n, env):
        parts = []
        for v in n.values:
            if isinstance(v, ast.Constant):
                parts.append(str(v.value))
            else:
                val = self.eval(v.value, env)
                parts.append(str(self.to_py(val)))
        return "".join(parts)

    def e_FormattedValue(self, n, env):
        return str(self.to_py(self.eval(n.value, env)))

    def e_UnaryOp(self, n, env):
        v = self.eval(n.operand, env)
        if isinstance(n.op, ast.Not):
            return not self.truth_in(v, n.operand, env)
        if isinstance(v, Top):
            return v
        if isinstance(n.op, ast.USub):
            if isinstance(v, Arr):
                return elementwise(self.s_neg, v)
            return self.s_neg(v)
        if isinstance(n.op, ast.UAdd):
            return v
        if isinstance(n.op, ast.Invert):
            if isinstance(v, Arr):
                return elementwise(lambda x: not x, v)
            return ~v
        raise PEError("unary op")

    def e_BinOp(self, n, env):
        a = self.eval(n.left, env)
        b = self.eval(n.right, env)
        if self.site_hook is not None and isinstance(n.op, ast.Pow):
            self.site_hook("pow", n, env, [a, b])
        if self.site_hook is not None and isinstance(n.op, ast.Div):
            self.site_hook("div", n, env, [a, b])
        try:
            return self.binop(n.op, a, b)
        except TypeError as e:
            raise PEError(f"type error in {ast.unparse(n)[:80]}: {e} ({type(a).__name__}, {type(b).__name__})")

    def truth_in(self, v, node, env):
        """truth of a condition value; symbolic -> ask the rule instance's named assumption."""
        try:
            return self.truth(v)
        except Undecidable as e:
            return self._assume(node, env, e)

    def _assume(self, node, env, exc):
        if self.assume is not None:
            global CURRENT_PE
            CURRENT_PE = self          # shared assumption hooks judge the operands' values with this evaluator
            r = self.assume(" ".join(ast.unparse(node).split()), env)
            if r is not None:
                return r
        raise Undecidable(f"{exc} [condition `{ast.unparse(node)[:100]}` in {env.func_name or env.module.name}]")

    def cond(self, node, env):
        try:
            v = self.eval(node, env)
        except Undecidable as e:
            return self._assume(node, env, e)
        return self.truth_in(v, node, env)

    def e_BoolOp(self, n, env):
        is_and = isinstance(n.op, ast.And)
        v = None
        for e in n.values:
            v = self.eval_cond_value(e, env)
            t = self.truth_in(v, e, env)
            if is_and and not t:
                return v
            if not is_and and t:
                return v
        return v

    def eval_cond_value(self, e, env):
        try:
            return self.eval(e, env)
        except Undecidable as ex:
            return self._assume(e, env, ex)

    def e_Compare(self, n, env):
        left = self.eval(n.left, env)
        result = True
        for op, c in zip(n.ops, n.comparators):
            right = self.eval(c, env)
            try:
                r = self.compare(op, left, right)
            except Undecidable as ex:
                # the same question a branch test would ask, stored in a variable first (`same = a == b; if same:`): the check's
                # assumptions apply to it as well
                if len(n.ops) != 1 or self.assume is None:
                    raise
                return self._assume(n, env, ex)
            if isinstance(r, Arr):
                return r
            if not r:
                return False
            left = right
        return result

    def e_IfExp(self, n, env):
        if self.cond(n.test, env):
            return self.eval(n.body, env)
        return self.eval(n.orelse, env)

    def e_Lambda(self, n, env):
        return Closure(None, n, env, env.module, "<lambda>")

    def e_Starred(self, n, env):
        raise PEError("starred expression outside call/list")

    def e_Slice(self, n, env):
        def g(x):
            if x is None:
                return None
            v = self.eval(x, env)
            return self.as_index(v)

        return slice(g(n.lower), g(n.upper), g(n.step))

    def as_index(self, v):
        if isinstance(v, bool):
            return int(v)
        if isinstance(v, int):
            return v
        c = dag.as_const(v) if isinstance(v, (Node, Fraction)) else None
        if c is not None and c.denominator == 1:
            return int(c)
        if isinstance(v, Obj) and "_value_" in v.attrs and _enum_mixin(self.src, v.cls):
            return self.as_index(v.attrs["_value_"])
        raise Undecidable(f"symbolic or non-integer index {v!r}")

    def e_Subscript(self, n, env):
        base = self.eval(n.value, env)
        if isinstance(base, Top):
            return base
        if isinstance(base, ExtRef):  # typing generics
            if getattr(self, "typing_subscript", None) is not None:
                r = self.typing_subscript(self, base, self.eval(n.slice, env))
                if r is not None:
                    return r
            return base
        idx = self.eval(n.slice, env)
        return self.getitem(base, idx)

    @staticmethod
    def _one_list_among_ints(key):
        """position of the single index list in an index tuple whose other entries are integers (a[i, [j, k]])"""
        lists = [i for i, k in enumerate(key) if isinstance(k, (Arr, list))]
        if len(lists) != 1 or any(not isinstance(k, int) for i, k in enumerate(key) if i != lists[0]):
            raise PEError("fancy indexing in tuple not modelled")
        return lists[0]

    def getitem(self, base, idx):
        if isinstance(base, Top):
            return base
        if isinstance(base, Opaque):
            return base[idx]
        if isinstance(base, ExtRef) and getattr(self, "typing_subscript", None) is not None:
            r = self.typing_subscript(self, base, idx)   # typing.Optional[int], List[float], ... (installed by sa/typemodel.py)
            if r is not None:
                return r
        if isinstance(base, Arr):
            if isinstance(idx, tuple):
                key = tuple(k if isinstance(k, slice) or k is None or k is Ellipsis or isinstance(k, (Arr, list))
                            else self.as_index(k) for k in idx)
                if any(isinstance(k, (Arr, list)) for k in key):
                    pos = self._one_list_among_ints(key)
                    sel = [self.as_index(i) for i in (key[pos].flat() if isinstance(key[pos], Arr) else key[pos])]
                    try:
                        return Arr.from_nested([self._np_element(base, base[key[:pos] + (j,) + key[pos + 1:]]) for j in sel], base.dtype)
                    except IndexError as e:
                        raise PERaise("IndexError", str(e))
            elif isinstance(idx, (slice, Arr, list)) or idx is None or idx is Ellipsis:
                key = idx
            else:
                key = self.as_index(idx)
            try:
                return self._np_element(base, base[key])
            except IndexError as e:
                raise PERaise("IndexError", str(e))
        if isinstance(base, (list, tuple, str, range)):
            if isinstance(idx, slice):
                return base[idx]
            try:
                return base[self.as_index(idx)]
            except IndexError as e:
                raise PERaise("IndexError", str(e))
        if isinstance(base, dict):
            k = self.hashable(idx)
            if k not in base:
                if isinstance(base, DefaultDict) and base.factory is not None:
                    base[k] = self.apply(base.factory, [], {})
                    return base[k]
                raise PERaise("KeyError", repr(self.to_py(k)))
            return base[k]
        if isinstance(base, Obj):
            m = self.src.find_method(base.cls, "__getitem__")
            if m:
                return self.apply(Bound(base, Closure(m, m.node, None, m.module, m.qname)), [idx], {})
        if isinstance(base, ClassRef):
            # Enum lookup by name: Cls["name"]
            members = self.enum_members(base.cls)
            if members is not None:
                if idx in members:
                    return members[idx]
                raise PERaise("KeyError", repr(idx))
            return base
        raise PEError(f"subscript of {type(base).__name__}")

    def e_Attribute(self, n, env):
        base = self.eval(n.value, env)
        return self.getattr(base, n.attr)

    def getattr(self, base, attr):
        if isinstance(base, Top):
            return base
        if isinstance(base, ModuleRef):
            m = self.src.modules[base.name]
            sub = f"{base.name}.{attr}"
            if attr in m.funcs or attr in m.classes or attr in m.consts or attr in m.imports or attr in self.module_globals(m):
                return self.global_lookup(m, attr)
            if sub in self.src.modules:
                return ModuleRef(sub)
            raise PERaise("AttributeError", f"module {base.name} has no attribute {attr}")
        if isinstance(base, ExtRef):
            return ExtRef(f"{base.qname}.{attr}")
        if type(base).__name__ == "_Logger":
            return ExtRef("logging.noop")
        if type(base).__name__ == "SimpleNamespace":  # results of mocked library calls (e.g. solve_ivp)
            if hasattr(base, attr):
                return getattr(base, attr)
            raise PERaise("AttributeError", attr)
        if isinstance(base, Obj):
            return self.obj_getattr(base, attr)
        if isinstance(base, ClassRef):
            return self.class_getattr(base.cls, attr)
        if isinstance(base, Arr):
            if attr == "shape":
                return base.shape
            if attr == "T":
                return base.T
            if attr == "size":
                return base.size
            if attr == "ndim":
                return base.ndim
            if attr == "dtype":
                return base.dtype
            if attr == "real":
                return base if self.real_is_identity else elementwise(lambda x: self.s_unary("Re", x), base)
            return BuiltinMethod(base, attr)
        if isinstance(base, (Node, Fraction, int)) and not isinstance(base, bool):
            if attr == "real":
                return base if (self.real_is_identity or not isinstance(base, Node)) else dag.fn("Re", base)
            if attr == "imag":
                return 0 if not isinstance(base, Node) else dag.fn("Im", base)
            return BuiltinMethod(base, attr)
        if isinstance(base, (list, dict, str, tuple, set, frozenset, bytes)):
            return BuiltinMethod(base, attr)
        if isinstance(base, Closure):
            if attr == "__name__":
                return base.name.rpartition(".")[2]
        if isinstance(base, Opaque):
            try:
                v = getattr(base, attr)
            except AttributeError:
                # a mock that stands for a class of the repository (`_real = "<qualified class name>"`): members the mock does
                # not define itself are the REAL class's properties / methods, evaluated on the mock
                real = getattr(base, "_real", None)
                if not real:
                    raise PEError(f"mock {type(base).__name__} has no attribute {attr}")
                rcls = self.src.cls(real)
                _owner, node = self.class_attr_node(rcls, attr)
                if not isinstance(node, Func):
                    stored = attr in self.all_fields(rcls) or any(
                        isinstance(t, ast.Attribute) and t.attr == attr and isinstance(t.value, ast.Name) and t.value.id == "self"
                        for m in rcls.methods.values() for t in ast.walk(m.node) if isinstance(t, ast.Attribute) and isinstance(t.ctx, ast.Store))
                    if node is not None or stored:
                        raise PEError(f"mock {type(base).__name__} of {real} does not provide the stored attribute {attr}")
                    raise PERaise("AttributeError", f"{rcls.node.name} object has no attribute {attr}")
                clo = Closure(node, node.node, None, node.module, node.qname)
                decos = node.decorator_names()
                if any(d == "property" or d.endswith(".getter") or d.endswith("cached_property") for d in decos):
                    return self.apply(Bound(base, clo), [], {})
                if any(d.endswith("staticmethod") for d in decos):
                    return clo
                return Bound(base, clo)
            return NativeCall(v) if (callable(v) and not isinstance(v, Opaque)) else v
        raise PEError(f"attribute {attr} of {type(base).__name__}")

    # ------------------------------------------------------------ classes/objects
    def class_attr_node(self, cls: Class, attr: str):
        """find class-level assignment/def of attr along the MRO (simple left-to-right)."""
        seen = set()
        stack = [cls]
        while stack:
            c = stack.pop(0)
            if c.qname in seen:
                continue
            seen.add(c.qname)
            if attr in c.methods:
                return c, c.methods[attr]
            for st in c.node.body:
                if isinstance(st, ast.Assign):
                    for t in st.targets:
                        if isinstance(t, ast.Name) and t.id == attr:
                            return c, st.value
                elif isinstance(st, ast.AnnAssign) and isinstance(st.target, ast.Name) and st.target.id == attr \
                        and st.value is not None:
                    return c, st.value
            stack.extend(self.src.class_bases(c))
        return None, None

    def enum_members(self, cls: Class):
        if not _is_enum(self.src, cls):
            return None
        g = self.module_globals(cls.module)
        key = f"<enum {cls.qname}>"
        if key in g:
            return g[key]
        members: dict = {}
        g[key] = members
        env = Env(cls.module)
        auto = 0
        for st in cls.node.body:
            if isinstance(st, ast.Assign) and len(st.targets) == 1 and isinstance(st.targets[0], ast.Name):
                name = st.targets[0].id
                if isinstance(st.value, ast.Call) and ast.unparse(st.value.func).endswith("auto"):
                    auto += 1
                    val = auto
                else:
                    val = self.eval(st.value, env)
                    if isinstance(val, int):
                        auto = val
                o = Obj(cls)
                o.attrs["_name_"] = name
                o.attrs["_value_"] = val
                members[name] = o
                env.vars[name] = val
        return members

    def class_getattr(self, cls: Class, attr: str):
        members = self.enum_members(cls)
        if members is not None and attr in members:
            return members[attr]
        if attr == "__name__":
            return cls.node.name
        if attr == "__mro__":
            out, stack = [], [cls]
            while stack:
                c = stack.pop(0)
                if c not in out:
                    out.append(c)
                    stack.extend(self.src.class_bases(c))
            return tuple(ClassRef(c) for c in out)
        owner, node = self.class_attr_node(cls, attr)
        if node is None:
            raise PERaise("AttributeError", f"type object {cls.node.name} has no attribute {attr}")
        if isinstance(node, Func):
            clo = Closure(node, node.node, None, node.module, node.qname)
            decos = node.decorator_names()
            if any(d.endswith("classmethod") for d in decos):
                return Bound(ClassRef(cls), clo)
            return clo
        return self.eval(node, Env(owner.module))

    def obj_getattr(self, o: Obj, attr: str):
        if attr in o.attrs:
            return o.attrs[attr]
        if "_value_" in o.attrs:
            if attr == "value":
                return o.attrs["_value_"]
            if attr == "name":
                return o.attrs["_name_"]
        if attr == "__class__":
            return ClassRef(o.cls)
        owner, node = self.class_attr_node(o.cls, attr)
        if node is None:
            ga = self.src.find_method(o.cls, "__getattr__")
            if ga:
                return self.apply(Bound(o, Closure(ga, ga.node, None, ga.module, ga.qname)), [attr], {})
            # an attribute that __init__ / __post_init__ sets, missing on an object a check assembled by hand: every real object has
            # it.  A literal initial value (an empty table, None, a number) is taken over; anything else means the hand-made object
            # no longer matches the class - the analysis is out of date, which is not a property violation
            init_val = self._initialiser_of(o.cls, attr)
            if init_val is not None:
                kind, val = init_val
                if kind == "literal":
                    o.attrs[attr] = self.eval(val, Env(o.cls.module))
                    return o.attrs[attr]
                raise PEError(f"a stand-in {o.cls.node.name} object lacks the attribute `{attr}` that the class's initialiser sets "
                              f"(`{ast.unparse(val)[:60]}`): the check's model of the object is out of date")
            raise PERaise("AttributeError", f"{o.cls.node.name} object has no attribute {attr}")
        if isinstance(node, Func):
            clo = Closure(node, node.node, None, node.module, node.qname)
            decos = node.decorator_names()
            if any(d == "property" or d.endswith(".getter") or d.endswith("cached_property") for d in decos):
                return self.apply(Bound(o, clo), [], {})
            if any(d.endswith("staticmethod") for d in decos):
                return clo
            if any(d.endswith("classmethod") for d in decos):
                return Bound(ClassRef(o.cls), clo)
            return Bound(o, clo)
        return self.eval(node, Env(owner.module))

    def _initialiser_of(self, cls: Class, attr: str):
        """('literal' | 'computed', value expression) if __init__ / __post_init__ of the class (or a base) assigns self.<attr>"""
        for c in [cls] + list(self.src.class_bases(cls)):
            for mname in ("__init__", "__post_init__"):
                m = c.methods.get(mname)
                if m is None:
                    continue
                for n in ast.walk(m.node):
                    tgt = None
                    if isinstance(n, ast.Assign) and len(n.targets) == 1:
                        tgt, val = n.targets[0], n.value
                    elif isinstance(n, ast.AnnAssign) and n.value is not None:
                        tgt, val = n.target, n.value
                    if isinstance(tgt, ast.Attribute) and isinstance(tgt.value, ast.Name) and tgt.value.id == "self" and tgt.attr == attr:
                        lit = isinstance(val, ast.Constant) or (isinstance(val, (ast.Dict, ast.List, ast.Set, ast.Tuple)) and not ast.unparse(val).strip("{}[]() ,")) \
                            or (isinstance(val, ast.Call) and isinstance(val.func, ast.Name) and val.func.id in ("dict", "list", "set") and not val.args and not val.keywords)
                        return ("literal" if lit else "computed", val)
        return None

    def all_fields(self, cls: Class):
        """dataclass fields in definition order, bases first."""
        out: dict = {}
        for b in reversed(self.src.class_bases(cls)):
            out.update(self.all_fields(b))
        for name, (ann, default) in cls.fields().items():
            if "ClassVar" in ann:
                continue
            out[name] = (cls, default)
        return out

    def new_object(self, cls: Class, args, kwargs):
        if _is_enum(self.src, cls):
            members = self.enum_members(cls)
            if len(args) == 1:
                for m in members.values():
                    if self.truth(self.compare(ast.Eq(), m.attrs["_value_"], args[0])):
                        return m
                raise PERaise("ValueError", f"{self.to_py(args[0])!r} is not a valid {cls.node.name}")
        o = Obj(cls)
        init = self.src.find_method(cls, "__init__")
        if init is not None:
            self.apply(Bound(o, Closure(init, init.node, None, init.module, init.qname)), args, kwargs)
            return o
        fields = self.all_fields(cls)
        if fields or cls.is_dataclass:
            names = list(fields)
            if len(args) > len(names):
                raise PERaise("TypeError", f"{cls.node.name}() takes {len(names)} positional arguments")
            for nme, a in zip(names, args):
                o.attrs[nme] = a
            for k, v in kwargs.items():
                if k not in fields:
                    raise PERaise("TypeError", f"{cls.node.name}() got an unexpected keyword argument {k}")
                o.attrs[k] = v
            for nme in names:
                if nme not in o.attrs:
                    owner, default = fields[nme]
                    if default is None:
                        raise PERaise("TypeError", f"{cls.node.name}() missing argument {nme}")
                    o.attrs[nme] = self._field_default(default, Env(owner.module))
            post = self.src.find_method(cls, "__post_init__")
            if post is not None:
                self.apply(Bound(o, Closure(post, post.node, None, post.module, post.qname)), [], {})
            return o
        # subclass of a builtin (str/float...) or plain class without __init__
        bases = [ast.unparse(b) for b in cls.node.bases]
        if args and any(b in ("str", "float", "int") for b in bases):
            o.attrs["_value_"] = args[0]
        elif args or kwargs:
            raise PEError(f"cannot instantiate {cls.qname} with arguments")
        return o

    def _field_default(self, default, env):
        if isinstance(default, ast.Call) and ast.unparse(default.func).endswith("field"):
            for kw in default.keywords:
                if kw.arg == "default":
                    return self.eval(kw.value, env)
                if kw.arg == "default_factory":
                    f = self.eval(kw.value, env)
                    return self.apply(f, [], {})
            return Top("field() without default")
        return self.eval(default, env)

    # ------------------------------------------------------------ calls
    def e_Call(self, n, env):
        # super().method(...)
        if isinstance(n.func, ast.Attribute) and isinstance(n.func.value, ast.Call) \
                and isinstance(n.func.value.func, ast.Name) and n.func.value.func.id == "super":
            ok, selfv = env.lookup("self")
            cur = env.vars.get("__class__")
            if ok and cur is not None:
                for b in self.src.class_bases(cur):
                    m = self.src.find_method(b, n.func.attr)
                    if m:
                        args, kwargs = self._args(n, env)
                        return self.apply(Bound(selfv, Closure(m, m.node, None, m.module, m.qname)), args, kwargs)
                return None  # object.__init__ etc.
        f = self.eval(n.func, env)
        args, kwargs = self._args(n, env)
        if self.site_hook is not None and isinstance(f, ExtRef) and f.qname in _DOMAIN_CALLS:
            self.site_hook(f.qname, n, env, args)
        try:
            return self.apply(f, args, kwargs, call_node=n, env=env)
        except RecursionError:
            raise PEError("python recursion limit in partial evaluation")

    def _args(self, n, env):
        args = []
        for a in n.args:
            if isinstance(a, ast.Starred):
                args.extend(self.iterate(self.eval(a.value, env)))
            else:
                args.append(self.eval(a, env))
        kwargs = {}
        for kw in n.keywords:
            if kw.arg is None:
                kwargs.update(self.eval(kw.value, env))
            else:
                kwargs[kw.arg] = self.eval(kw.value, env)
        return args, kwargs

    def apply(self, f, args, kwargs, call_node=None, env=None):
        if isinstance(f, Top):
            return Top(f"call of unknown: {f.why}")
        if isinstance(f, Closure):
            q = f.func.qname if f.func else None
            if q and q in self.overrides:
                return self.overrides[q](self, *_by_position(f.node, args, kwargs))
            return self.call_closure(f, args, kwargs)
        if isinstance(f, Bound):
            q = f.fn.func.qname if f.fn.func else None
            if q and q in self.overrides:
                return self.overrides[q](self, *_by_position(f.fn.node, [f.obj] + list(args), kwargs))
            return self.call_closure(f.fn, [f.obj] + list(args), kwargs)
        if isinstance(f, ClassRef):
            if f.cls.qname in self.overrides:
                init = self.src.find_method(f.cls, "__init__")
                names = init.params[1:] if init is not None else list(self.all_fields(f.cls))
                return self.overrides[f.cls.qname](self, *_by_position(names, args, kwargs))
            return self.new_object(f.cls, args, kwargs)
        if isinstance(f, ExtRef):
            h = self.ext.get(f.qname)
            if h is None:
                return Top(f"unmodelled call {f.qname}")
            return h(self, args, kwargs)
        if isinstance(f, NativeCall):
            return f.fn(*args, **kwargs)
        if isinstance(f, Opaque) and callable(f):
            return f(*args, **kwargs)
        if isinstance(f, BuiltinMethod):
            from . import pe_models

            return pe_models.builtin_method(self, f.obj, f.name, args, kwargs)
        if isinstance(f, Obj):
            m = self.src.find_method(f.cls, "__call__")
            if m:
                return self.call_closure(Closure(m, m.node, None, m.module, m.qname), [f] + list(args), kwargs)
        raise PEError(f"call of non-callable {f!r}")

    def call_closure(self, c: Closure, args, kwargs):
        # memoising decorators keep their table for the life of the process: modelled per evaluator, keyed on the argument values
        if c.func is not None and not isinstance(c.node, ast.Lambda) and any(
                d.split("(")[0].rsplit(".", 1)[-1] in ("lru_cache", "cache") for d in c.func.decorator_names()):
            table = self.__dict__.setdefault("_memo_tables", {}).setdefault(c.func.qname, [])
            for a0, k0, r0 in table:
                if len(a0) == len(args) and set(k0) == set(kwargs) and all(self._memo_same(x, y) for x, y in zip(a0, args)) \
                        and all(self._memo_same(k0[n_], kwargs[n_]) for n_ in kwargs):
                    return r0
            r = self._call_closure(c, args, kwargs)
            table.append((list(args), dict(kwargs), r))
            return r
        return self._call_closure(c, args, kwargs)

    def _memo_same(self, x, y):
        """would the two values be the same dictionary key?  objects of repository classes: by the class's own __hash__ and __eq__"""
        if isinstance(x, Obj) and isinstance(y, Obj):
            if x is y:
                return True
            hx, ex = self.src.find_method(x.cls, "__hash__"), self.src.find_method(x.cls, "__eq__")
            if ex is not None and hx is None and not self.all_fields(x.cls):
                raise PERaise("TypeError", f"unhashable type: '{x.cls.node.name}'")
            if hx is not None and ex is not None:
                try:
                    h1 = self.apply(Bound(x, Closure(hx, hx.node, None, hx.module, hx.qname)), [], {})
                    h2 = self.apply(Bound(y, Closure(hx, hx.node, None, hx.module, hx.qname)), [], {})
                    if not self.truth(self.compare(ast.Eq(), h1, h2)):
                        return False
                    return bool(self.truth(self.apply(Bound(x, Closure(ex, ex.node, None, ex.module, ex.qname)), [y], {})))
                except Undecidable:
                    return False
            try:
                return bool(self.truth(self.compare(ast.Eq(), x, y)))
            except Exception:
                return False
        return self._memo_key(x) == self._memo_key(y)

    @staticmethod
    def _memo_key(v):
        if isinstance(v, (str, int, bool, Fraction, type(None))):
            return ("v", repr(v))
        if isinstance(v, Node):
            return ("n", v.id)
        if hasattr(v, "__fspath__") or type(v).__module__.startswith("pathlib") or any(t.__module__.startswith("pathlib") for t in type(v).__mro__):
            return ("p", str(v))
        if isinstance(v, (tuple, list)):
            return ("t", tuple(PE._memo_key(x) for x in v))
        return ("o", id(v))

    def _call_closure(self, c: Closure, args, kwargs):
        self.depth += 1
        if self.depth > self.max_depth:
            self.depth -= 1
            raise PEError(f"inlining depth bound exceeded at {c.name}")
        try:
            node = c.node
            env = Env(c.module, c.env, c.name)
            if c.func is not None and c.func.cls is not None:
                env.vars["__class__"] = c.func.cls
            self.bind(node.args, args, kwargs, env, c)
            if isinstance(node, ast.Lambda):
                return self.eval(node.body, env)
            if len(self.trace_calls) < 5000:
                self.trace_calls.append(c.name)
            is_gen = _is_generator(node)
            if is_gen:
                # generators are run eagerly; the yielded values are returned as a list
                env.vars["__yielded__"] = []
            self.call_stack.append(c.name)
            try:
                self.exec_block(node.body, env)
            except _Return as r:
                return env.vars["__yielded__"] if is_gen else r.value
            finally:
                self.call_stack.pop()
            return env.vars["__yielded__"] if is_gen else None
        finally:
            self.depth -= 1

    def bind(self, a: ast.arguments, args, kwargs, env: Env, c: Closure):
        params = a.posonlyargs + a.args
        kwargs = dict(kwargs)
        n_def = len(a.defaults)
        defenv = c.env if c.env is not None else Env(c.module)
        for i, p in enumerate(params):
            if i < len(args):
                env.vars[p.arg] = args[i]
                if p.arg in kwargs:
                    raise PERaise("TypeError", f"{c.name}() got multiple values for argument {p.arg}")
            elif p.arg in kwargs:
                env.vars[p.arg] = kwargs.pop(p.arg)
            else:
                di = i - (len(params) - n_def)
                if di >= 0:
                    env.vars[p.arg] = self.eval(a.defaults[di], defenv)
                else:
                    raise PERaise("TypeError", f"{c.name}() missing required argument {p.arg}")
        if len(args) > len(params):
            if a.vararg:
                env.vars[a.vararg.arg] = tuple(args[len(params):])
            else:
                raise PERaise("TypeError", f"{c.name}() takes {len(params)} positional arguments but {len(args)} were given")
        elif a.vararg:
            env.vars[a.vararg.arg] = ()
        for p, d in zip(a.kwonlyargs, a.kw_defaults):
            if p.arg in kwargs:
                env.vars[p.arg] = kwargs.pop(p.arg)
            elif d is not None:
                env.vars[p.arg] = self.eval(d, defenv)
            else:
                raise PERaise("TypeError", f"{c.name}() missing keyword argument {p.arg}")
        if a.kwarg:
            env.vars[a.kwarg.arg] = kwargs
        elif kwargs:
            raise PERaise("TypeError", f"{c.name}() got an unexpected keyword argument {next(iter(kwargs))}")

    # ------------------------------------------------------------ comprehension
    def e_ListComp(self, n, env):
        out = []
        self._comp(n.generators, 0, env, lambda e: out.append(self.eval(n.elt, e)))
        return out

    def e_GeneratorExp(self, n, env):
        return self.e_ListComp(n, env)

    def e_SetComp(self, n, env):
        out = set()
        self._comp(n.generators, 0, env, lambda e: out.add(self.hashable(self.eval(n.elt, e))))
        return out

    def e_DictComp(self, n, env):
        out = {}

        def add(e):
            out[self.hashable(self.eval(n.key, e))] = self.eval(n.value, e)

        self._comp(n.generators, 0, env, add)
        return out

    def _comp(self, gens, i, env, emit):
        if i == len(gens):
            emit(env)
            return
        g = gens[i]
        it = self.eval(g.iter, env)
        for x in self.iterate(it):
            e2 = Env(env.module, env, env.func_name)
            self.assign(g.target, x, e2)
            if all(self.cond(c, e2) for c in g.ifs):
                self._comp(gens, i + 1, e2, emit)

    def _np_element(self, base, r):
        """a scalar read from an array that numpy.array built is a NumPy scalar of the array's type (only with `np_scalars`)"""
        if not self.np_scalars or isinstance(r, Arr) or not str(base.dtype).startswith("np:"):
            return r
        from .fsmodel import NpScalar

        kind = base.dtype[3:]
        if isinstance(r, NpScalar):
            return r
        return NpScalar(Fraction(r) if kind.startswith("float") and isinstance(r, int) and not isinstance(r, bool) else r, kind)

    def iterate(self, it):
        if isinstance(it, Top):
            raise Undecidable(f"iteration over unknown: {it.why}")
        if isinstance(it, (list, tuple, range, str, Opaque)):
            return list(it)
        if isinstance(it, (set, frozenset)):
            return sorted(it, key=repr)
        if isinstance(it, dict):
            return list(it.keys())
        if isinstance(it, Arr):
            return [self._np_element(it, v) for v in it]
        if isinstance(it, Obj):
            m = self.src.find_method(it.cls, "__iter__")
            if m:
                return self.iterate(self.apply(Bound(it, Closure(m, m.node, None, m.module, m.qname)), [], {}))
            m = self.src.find_method(it.cls, "__getitem__")
            ln = self.src.find_method(it.cls, "__len__")
            if m and ln:
                n = self.apply(Bound(it, Closure(ln, ln.node, None, ln.module, ln.qname)), [], {})
                return [self.getitem(it, i) for i in range(self.as_index(n))]
        if isinstance(it, ClassRef):
            members = self.enum_members(it.cls)
            if members is not None:
                return list(members.values())
        if isinstance(it, _Iter):
            return it.rest()
        if it is None or isinstance(it, (bool, int, Fraction, float, Node)):
            raise PERaise("TypeError", f"'{type(it).__name__}' object is not iterable")
        raise PEError(f"cannot iterate over {type(it).__name__}")

    # ------------------------------------------------------------ statements
    def exec_block(self, body, env):
        for st in body:
            self.exec(st, env)

    def exec(self, st, env):
        self.steps += 1
        m = getattr(self, "x_" + type(st).__name__, None)
        if m is None:
            raise PEError(f"unsupported statement {type(st).__name__} at {env.module.relpath}:{st.lineno}")
        return m(st, env)

    def x_Expr(self, st, env):
        if isinstance(st.value, ast.Constant):
            return
        if isinstance(st.value, ast.YieldFrom):
            self.e_YieldFrom(st.value, env)
            return
        if isinstance(st.value, ast.Yield):
            self.e_Yield(st.value, env)
            return
        self.eval(st.value, env)

    def e_Yield(self, n, env):
        ok, acc = env.lookup("__yielded__")
        if not ok:
            acc = []
            env.vars["__yielded__"] = acc
        acc.append(self.eval(n.value, env) if n.value is not None else None)
        return None

    def e_YieldFrom(self, n, env):
        ok, acc = env.lookup("__yielded__")
        if not ok:
            acc = []
            env.vars["__yielded__"] = acc
        acc.extend(self.iterate(self.eval(n.value, env)))
        return None

    def x_Pass(self, st, env):
        pass

    def x_Import(self, st, env):
        for a in st.names:
            name = a.asname or a.name.split(".")[0]
            env.vars[name] = self.import_ref(a.name if a.asname else a.name.split(".")[0])

    def x_ImportFrom(self, st, env):
        base = self.src._from_base(env.module, st)
        for a in st.names:
            env.vars[a.asname or a.name] = self.import_ref(f"{base}.{a.name}" if base else a.name)

    def x_Global(self, st, env):
        env.globals_decl.update(st.names)

    def x_Nonlocal(self, st, env):
        pass

    def x_Assert(self, st, env):
        try:
            ok = self.cond(st.test, env)
        except Undecidable:
            return  # an assertion on symbolic values is a precondition of the formula
        if not ok:
            raise PERaise("AssertionError", ast.unparse(st.test))

    def x_Delete(self, st, env):
        for t in st.targets:
            if isinstance(t, ast.Name):
                env.vars.pop(t.id, None)
            elif isinstance(t, ast.Subscript):
                base = self.eval(t.value, env)
                idx = self.eval(t.slice, env)
                if isinstance(base, dict):
                    k = self.hashable(idx)
                    if k not in base:
                        raise PERaise("KeyError", repr(k))
                    del base[k]
                elif isinstance(base, list):
                    del base[self.as_index(idx) if not isinstance(idx, slice) else idx]
                elif isinstance(base, Obj) and self.src.find_method(base.cls, "__delitem__"):
                    m = self.src.find_method(base.cls, "__delitem__")
                    self.apply(Bound(base, Closure(m, m.node, None, m.module, m.qname)), [idx], {})
                elif isinstance(base, Opaque):
                    del base[idx]
                else:
                    raise PEError("del on unsupported container")
            elif isinstance(t, ast.Attribute):
                base = self.eval(t.value, env)
                if isinstance(base, Obj):
                    m = self.src.find_method(base.cls, "__delattr__")
                    if m:
                        self.apply(Bound(base, Closure(m, m.node, None, m.module, m.qname)), [t.attr], {})
                    elif t.attr in base.attrs:
                        del base.attrs[t.attr]
                    else:
                        raise PERaise("AttributeError", t.attr)
                elif isinstance(base, Opaque):
                    delattr(base, t.attr)
                else:
                    raise PEError("del of an attribute of an unsupported value")
            elif isinstance(t, ast.Attribute):
                base = self.eval(t.value, env)
                if isinstance(base, Obj):
                    base.attrs.pop(t.attr, None)

    def x_FunctionDef(self, st, env):
        f = None
        # locate the Func record for nested defs (for overrides by qualified name)
        for q, g in self.src.funcs.items():
            if g.node is st:
                f = g
                break
        env.vars[st.name] = Closure(f, st, env, env.module, f.qname if f else st.name)

    def x_ClassDef(self, st, env):
        raise PEError("nested class definition not modelled")

    def x_Return(self, st, env):
        ok, acc = env.lookup("__yielded__")
        raise _Return(self.eval(st.value, env) if st.value is not None else None)

    def x_Raise(self, st, env):
        if st.exc is None:
            ok, cur = env.lookup("__exc__")
            if ok and cur is not None:
                raise cur
            raise PERaise("RuntimeError", "re-raise")
        e = st.exc
        etype, msg = None, ""
        if isinstance(e, ast.Call):
            etype = ast.unparse(e.func).split(".")[-1]
            if e.args:
                try:
                    m = self.eval(e.args[0], env)
                    msg = m if isinstance(m, str) else str(self.to_py(m))
                except (Undecidable, PEError):
                    msg = ast.unparse(e.args[0])
        else:
            etype = ast.unparse(e).split(".")[-1]
            ok, v = (env.lookup(e.id) if isinstance(e, ast.Name) else (False, None))
            if ok and isinstance(v, PERaise):
                raise v
        raise PERaise(etype, msg, f"{env.module.relpath}:{st.lineno}")

    def x_If(self, st, env):
        if self.cond(st.test, env):
            self.exec_block(st.body, env)
        else:
            self.exec_block(st.orelse, env)

    def x_While(self, st, env):
        n = 0
        while self.cond(st.test, env):
            n += 1
            if n > 100000:
                raise PEError("while loop bound")
            try:
                self.exec_block(st.body, env)
            except _Break:
                break
            except _Continue:
                continue
        else:
            self.exec_block(st.orelse, env)

    def x_For(self, st, env):
        it = self.eval(st.iter, env)
        broke = False
        for x in self.iterate(it):
            self.assign(st.target, x, env)
            try:
                self.exec_block(st.body, env)
            except _Break:
                broke = True
                break
            except _Continue:
                continue
        if not broke:
            self.exec_block(st.orelse, env)

    def x_Break(self, st, env):
        raise _Break()

    def x_Continue(self, st, env):
        raise _Continue()

    def x_With(self, st, env):
        for item in st.items:
            v = self.eval(item.context_expr, env)
            if isinstance(v, Obj):
                m = self.src.find_method(v.cls, "__enter__")
                if m:
                    v = self.apply(Bound(v, Closure(m, m.node, None, m.module, m.qname)), [], {})
            if item.optional_vars is not None:
                self.assign(item.optional_vars, v, env)
        self.exec_block(st.body, env)

    def x_Try(self, st, env):
        try:
            try:
                self.exec_block(st.body, env)
            except PERaise as e:
                for h in st.handlers:
                    if h.type is None or self._handler_matches(h.type, e.etype):
                        if h.name:
                            env.vars[h.name] = e
                        env.vars["__exc__"] = e
                        self.exec_block(h.body, env)
                        break
                else:
                    raise
            else:
                self.exec_block(st.orelse, env)
        finally:
            if st.finalbody:
                self.exec_block(st.finalbody, env)

    _EXC_PARENTS = {"KeyError": "LookupError", "IndexError": "LookupError", "LookupError": "Exception",
                    "NotImplementedError": "RuntimeError", "RuntimeError": "Exception", "ValueError": "Exception",
                    "TypeError": "Exception", "AttributeError": "Exception", "AssertionError": "Exception",
                    "ZeroDivisionError": "ArithmeticError", "ArithmeticError": "Exception",
                    "FileNotFoundError": "OSError", "FileExistsError": "OSError", "OSError": "Exception",
                    "StopIteration": "Exception"}

    def _handler_matches(self, tnode, etype):
        names = [ast.unparse(x).split(".")[-1] for x in (tnode.elts if isinstance(tnode, ast.Tuple) else [tnode])]
        cur = etype
        for _ in range(6):
            if cur in names:
                return True
            nxt = self._EXC_PARENTS.get(cur)
            if nxt is None:
                # repository exception classes: follow bases by name
                for c in self.src.classes.values():
                    if c.node.name == cur and c.node.bases:
                        nxt = ast.unparse(c.node.bases[0]).split(".")[-1]
                        break
            if nxt is None:
                return "Exception" in names or "BaseException" in names
            cur = nxt
        return False

    def x_Assign(self, st, env):
        v = self.eval(st.value, env)
        for t in st.targets:
            self.assign(t, v, env)

    def x_AnnAssign(self, st, env):
        if st.value is not None:
            self.assign(st.target, self.eval(st.value, env), env)

    def x_AugAssign(self, st, env):
        t = st.target
        cur = self.eval(_load(t), env)
        rhs = self.eval(st.value, env)
        if isinstance(cur, Arr):
            # in-place: write through the existing buffer (aliases observe the change)
            if isinstance(st.op, (ast.Add, ast.Sub)) and _all_exact_zero(rhs) and _broadcastable(rhs, cur):
                return  # adding an exact zero leaves every element unchanged
            new = self.binop(st.op, cur, rhs)
            if isinstance(new, Top):
                for idx in cur.indices():
                    cur.data[cur._pos(idx)] = new
            else:
                cur[...] = broadcast_to(new, cur.shape) if isinstance(new, Arr) else new
            if isinstance(t, ast.Subscript):
                idx = self.eval(t.slice, env)
                fancy = isinstance(idx, (Arr, list)) or (isinstance(idx, tuple) and any(isinstance(k, (Arr, list)) for k in idx))
                if not fancy:
                    return      # a view: written through above
                # an index list / mask selects a COPY: numpy writes the result back through __setitem__
            self.assign(t, cur, env)
            return
        if isinstance(cur, list) and isinstance(st.op, ast.Add):
            cur.extend(self.iterate(rhs))
            return
        self.assign(t, self.binop(st.op, cur, rhs), env)

    def assign(self, t, v, env: Env):
        if isinstance(t, ast.Name):
            if t.id in env.globals_decl:
                self.module_globals(env.module)[t.id] = v
            else:
                env.vars[t.id] = v
        elif isinstance(t, (ast.Tuple, ast.List)):
            vals = self.iterate(v)
            star = [i for i, e in enumerate(t.elts) if isinstance(e, ast.Starred)]
            if star:
                i = star[0]
                after = len(t.elts) - i - 1
                self_vals = vals[:i] + [vals[i:len(vals) - after]] + vals[len(vals) - after:]
                for e, x in zip(t.elts, self_vals):
                    self.assign(e.value if isinstance(e, ast.Starred) else e, x, env)
                return
            if len(vals) != len(t.elts):
                raise PERaise("ValueError", f"cannot unpack {len(vals)} values into {len(t.elts)} targets")
            for e, x in zip(t.elts, vals):
                self.assign(e, x, env)
        elif isinstance(t, ast.Subscript):
            base = self.eval(t.value, env)
            idx = self.eval(t.slice, env)
            self.setitem(base, idx, v)
        elif isinstance(t, ast.Attribute):
            base = self.eval(t.value, env)
            if isinstance(base, Obj):
                # property setter?
                owner, node = self.class_attr_node(base.cls, t.attr)
                if isinstance(node, Func) and any(d == "property" for d in node.decorator_names()):
                    for k, mth in owner.methods.items():
                        if k.startswith(t.attr + "@") and "setter" in k:
                            self.apply(Bound(base, Closure(mth, mth.node, None, mth.module, mth.qname)), [v], {})
                            return
                    raise PERaise("AttributeError", f"can't set attribute {t.attr}")
                base.attrs[t.attr] = v
            elif isinstance(base, ModuleRef):
                self.module_globals(self.src.modules[base.name])[t.attr] = v
            elif isinstance(base, Top):
                return
            elif isinstance(base, Opaque):
                setattr(base, t.attr, v)
            else:
                raise PEError(f"attribute store on {type(base).__name__}")
        else:
            raise PEError(f"unsupported assignment target {type(t).__name__}")

    def setitem(self, base, idx, v):
        if isinstance(base, Top):
            return
        if isinstance(base, Opaque):
            base[idx] = v
            return
        if isinstance(base, Arr):
            if isinstance(idx, (Arr, list)):
                # boolean mask / index array along the first axis: rows selected in order receive the rows of v
                sel = idx.flat() if isinstance(idx, Arr) else list(idx)
                if sel and all(isinstance(i, bool) for i in sel):
                    if len(sel) != base.shape[0]:
                        raise PERaise("IndexError", f"boolean index did not match indexed array along axis 0; size of axis is {base.shape[0]} "
                                                    f"but size of corresponding boolean axis is {len(sel)}")
                    rows = [j for j, b in enumerate(sel) if b]
                else:
                    rows = [self.as_index(i) for i in sel]
                vals = v
                if isinstance(v, (list, tuple)):
                    vals = Arr.from_nested(list(v))
                if isinstance(vals, Arr) and vals.shape and vals.shape != tuple(base.shape[1:]):
                    if vals.shape[0] != len(rows):
                        raise PERaise("ValueError", f"shape mismatch: value array of shape {vals.shape} could not be broadcast to indexing "
                                                    f"result of shape {(len(rows),) + tuple(base.shape[1:])}")
                    for j, r in enumerate(rows):
                        base[r] = vals[j]
                else:
                    for r in rows:
                        base[r] = vals
                return
            if isinstance(idx, tuple) and any(isinstance(k, (Arr, list)) for k in idx):
                key = tuple(k if isinstance(k, (Arr, list)) else self.as_index(k) for k in idx
                            if not (isinstance(k, slice) or k is None or k is Ellipsis)) if not any(isinstance(k, slice) or k is None or k is Ellipsis for k in idx) else None
                if key is None:
                    raise PEError("fancy indexing in tuple not modelled")
                pos = self._one_list_among_ints(key)
                sel = [self.as_index(i) for i in (key[pos].flat() if isinstance(key[pos], Arr) else key[pos])]
                vals = Arr.from_nested(list(v)) if isinstance(v, (list, tuple)) else v
                try:
                    for n_, j in enumerate(sel):
                        base[key[:pos] + (j,) + key[pos + 1:]] = vals[n_] if isinstance(vals, Arr) and vals.shape else vals
                except IndexError as e:
                    raise PERaise("IndexError", str(e))
                return
            if isinstance(idx, tuple):
                key = tuple(k if isinstance(k, slice) or k is None or k is Ellipsis else self.as_index(k) for k in idx)
            elif isinstance(idx, slice) or idx is Ellipsis or idx is None:
                key = idx
            else:
                key = self.as_index(idx)
            try:
                base[key] = v
            except IndexError as e:
                raise PERaise("IndexError", str(e))
        elif isinstance(base, list):
            if isinstance(idx, slice):
                base[idx] = self.iterate(v)
            else:
                try:
                    base[self.as_index(idx)] = v
                except IndexError as e:
                    raise PERaise("IndexError", str(e))
        elif isinstance(base, dict):
            base[self.hashable(idx)] = v
        elif isinstance(base, Obj):
            m = self.src.find_method(base.cls, "__setitem__")
            if m:
                self.apply(Bound(base, Closure(m, m.node, None, m.module, m.qname)), [idx, v], {})
            else:
                raise PEError("object does not support item assignment")
        else:
            raise PEError(f"item store on {type(base).__name__}")

    def e_NamedExpr(self, n, env):
        v = self.eval(n.value, env)
        self.assign(n.target, v, env)
        return v


class _Iter:
    """iter(...) object supporting next()"""

    def __init__(self, items):
        self.items = list(items)
        self.pos = 0

    def next(self):
        if self.pos >= len(self.items):
            raise PERaise("StopIteration", "")
        v = self.items[self.pos]
        self.pos += 1
        return v

    def rest(self):
        r = self.items[self.pos:]
        self.pos = len(self.items)
        return r


_DOMAIN_CALLS = {"numpy.sqrt", "numpy.log", "numpy.power", "math.sqrt", "math.log", "numpy.arccos", "numpy.arcsin",
                 "numpy.arctanh", "numpy.log10", "numpy.log2", "numpy.cbrt"}


def _all_exact_zero(x):
    if isinstance(x, Arr):
        return all(isinstance(e, (int, Fraction)) and not isinstance(e, bool) and e == 0 for e in x.flat())
    return isinstance(x, (int, Fraction)) and not isinstance(x, bool) and x == 0


def _broadcastable(rhs, cur):
    if not isinstance(rhs, Arr):
        return True
    if rhs.ndim > cur.ndim:
        return False
    return all(a == b or a == 1 for a, b in zip(reversed(rhs.shape), reversed(cur.shape)))


_GEN_CACHE: dict = {}


def _is_generator(node):
    k = id(node)
    r = _GEN_CACHE.get(k)
    if r is None:
        r = False
        stack = list(getattr(node, "body", []))
        while stack:
            n = stack.pop()
            if isinstance(n, (ast.Yield, ast.YieldFrom)):
                r = True
                break
            for ch in ast.iter_child_nodes(n):
                if not isinstance(ch, (ast.FunctionDef, ast.AsyncFunctionDef, ast.Lambda, ast.ClassDef)):
                    stack.append(ch)
        _GEN_CACHE[k] = r
    return r


def _load(t):
    import copy

    t2 = copy.copy(t)
    t2.ctx = ast.Load()
    return t2


def _as_exact(x):
    if isinstance(x, bool):
        return int(x)
    if isinstance(x, (int, Fraction)):
        return x
    if isinstance(x, Node):
        c = dag.as_const(x)
        if c is not None:
            return int(c) if c.denominator == 1 else c
    return None


def _float_arith(f, a, b):
    """arithmetic involving +-infinity only"""
    def cv(x):
        if isinstance(x, float):
            return x
        if isinstance(x, (int, Fraction)):
            return float(x)
        c = dag.as_const(x)
        if c is None:
            raise Undecidable("arithmetic of symbolic value with infinity")
        return float(c)

    r = f(cv(a), cv(b))
    if r in (INF, -INF):
        return r
    if r != r:
        raise PEError("nan from infinity arithmetic")
    return dag.frac_of_float(r)


def _is_static(f: Func):
    return any(d.endswith("staticmethod") for d in f.decorator_names())


def _is_enum(src: Source, cls: Class, depth=0):
    for b in cls.node.bases:
        s = ast.unparse(b)
        if s.split(".")[-1] in ("Enum", "IntEnum", "Flag", "IntFlag", "StrEnum"):
            return True
    if depth < 4:
        return any(_is_enum(src, b, depth + 1) for b in src.class_bases(cls))
    return False


def _enum_mixin(src: Source, cls: Class):
    """IntEnum or Enum with int/str mixin: members compare equal to their values."""
    for b in cls.node.bases:
        s = ast.unparse(b).split(".")[-1]
        if s in ("IntEnum", "IntFlag", "StrEnum", "int", "str"):
            return True
    return any(_enum_mixin(src, b) for b in src.class_bases(cls))


CURRENT_PE = None


class _NamedKw(dict):
    """keyword arguments left after binding by position; lookups by name also find the arguments that were bound by position, so
    a stand-in for a repository function sees the same arguments however the call site spells them"""

    def __init__(self, rest, named):
        super().__init__(rest)
        self.named = named

    def __missing__(self, k):
        return self.named[k]

    def __contains__(self, k):
        return dict.__contains__(self, k) or k in self.named

    def get(self, k, d=None):
        return self[k] if k in self else d

    def all(self):
        """every argument by name (those bound by position included)"""
        return {**self.named, **self}


def named_arguments(kwargs):
    """all arguments of an intercepted call by parameter name, however the call site spelled them"""
    return kwargs.all() if isinstance(kwargs, _NamedKw) else dict(kwargs)


def _by_position(fn_node, args, kwargs):
    """(args, kwargs) of a call to the function `fn_node` with every keyword that names the next positional parameter moved into
    the positional list (a stand-in reads a[i] whatever the spelling of the call)"""
    if isinstance(fn_node, list):
        names = fn_node
    else:
        a = getattr(fn_node, "args", None)
        if a is None:
            return args, kwargs
        names = [x.arg for x in a.posonlyargs + a.args]
    args = list(args)
    rest = dict(kwargs)
    while len(args) < len(names) and names[len(args)] in rest:
        args.append(rest.pop(names[len(args)]))
    named = {nm: v for nm, v in zip(names, args)}
    return args, _NamedKw(rest, named)


def decide_on_values(pe, text, env, rep=None, generic=True):
    """Truth value of a condition the evaluator could not decide, judged on the VALUES of its operands rather than on the names the
    source gives them: every name / attribute chain is evaluated in `env`; a symbolic value stands for the representative
    `rep[<symbol name>]`, and (with `generic`) two different symbols without a representative are taken to be unequal / not close.
    Supports comparisons, and/or/not, + - of values, abs, np.isclose.  Returns None when the condition involves anything else."""
    rep = rep or {}
    try:
        tree = ast.parse(text, mode="eval").body
    except SyntaxError:
        return None

    class Unknown(Exception):
        pass

    def conv(v):
        if isinstance(v, bool):
            raise Unknown()
        if isinstance(v, (int, Fraction)):
            return Fraction(v)
        if isinstance(v, Node):
            c = dag.as_const(v)
            if c is not None:
                return Fraction(c)
            if v.op == "sym" and v.payload in rep:
                return Fraction(rep[v.payload])
            syms = dag.symbols(v)
            if syms <= set(rep) | {"pi"}:
                # a closed-form constant (log 2, a root), or an expression of symbols that all have representatives takes the value of the expression at the representatives
                try:
                    c = dag.as_const(dag.substitute(v, {s_: Fraction(rep[s_]) for s_ in syms if s_ in rep}))
                except Exception:
                    c = None
                if c is not None:
                    return Fraction(c)
                try:        # roots, logarithms ... of the representatives: a numerical value is enough for an ordering
                    from . import numeval
                    import mpmath

                    unk = set()
                    z = numeval.evaluate(v, {s_: mpmath.mpf(Fraction(rep[s_]).numerator) / Fraction(rep[s_]).denominator for s_ in syms if s_ in rep}, uninterpreted=unk)
                    if not unk and abs(mpmath.im(z)) < 1e-30:
                        return Fraction(str(mpmath.nstr(mpmath.re(z), 30)))
                except Exception:
                    pass
            return v            # symbolic, no representative
        raise Unknown()

    def callee(n):
        """qualified name of the called library function, through the module's import table (any alias of numpy)"""
        try:
            v = pe.eval(n.func, env)
        except Exception:
            return None
        return getattr(v, "qname", None)

    def val(n):
        if isinstance(n, ast.Constant) and isinstance(n.value, (int, float)) and not isinstance(n.value, bool):
            return Fraction(n.value)
        if rep and isinstance(n, (ast.BinOp, ast.Call, ast.UnaryOp)):
            # the whole operand evaluated by the evaluator and taken at the representatives (real parts, logarithms, products of them)
            try:
                whole_ = conv(pe.eval(n, env))
                if isinstance(whole_, Fraction):
                    return whole_
            except Exception:
                pass
        if isinstance(n, (ast.Name, ast.Attribute, ast.Subscript)):
            if isinstance(n, ast.Name) and n.id in rep:
                return Fraction(rep[n.id])
            try:
                return conv(pe.eval(n, env))
            except Unknown:
                raise
            except Exception:
                raise Unknown()
        if isinstance(n, ast.BinOp) and generic:
            # an expression of symbolic values is itself a generic symbolic value (it only takes part in == / != below)
            try:
                whole = pe.eval(n, env)
            except Exception:
                whole = None
            if isinstance(whole, Node) and dag.as_const(whole) is None and not any(
                    isinstance(x, ast.Name) and x.id in rep for x in ast.walk(n)) and not (dag.symbols(whole) & set(rep)):
                return whole
        if isinstance(n, ast.BinOp) and isinstance(n.op, (ast.Add, ast.Sub)):
            a, b = val(n.left), val(n.right)
            if isinstance(a, Node) or isinstance(b, Node):
                raise Unknown()
            return a + b if isinstance(n.op, ast.Add) else a - b
        if isinstance(n, ast.UnaryOp) and isinstance(n.op, ast.USub):
            a = val(n.operand)
            if isinstance(a, Node):
                raise Unknown()
            return -a
        if isinstance(n, ast.Call) and callee(n) == "numpy.linalg.norm" and generic:
            return GENERIC_MAGNITUDE
        if isinstance(n, ast.BinOp) and isinstance(n.op, (ast.Mult, ast.Div, ast.Pow)):
            a, b = val(n.left), val(n.right)
            if isinstance(a, Node) or isinstance(b, Node):
                raise Unknown()
            if isinstance(n.op, ast.Mult):
                return a * b
            if isinstance(n.op, ast.Div):
                if b == 0:
                    raise Unknown()
                return a / b
            if b.denominator == 1 and abs(b) < 20:
                return a ** int(b)
            raise Unknown()
        if isinstance(n, ast.Call) and callee(n) in ("numpy.abs", "numpy.absolute", "builtins.abs", "numpy.fabs") and len(n.args) == 1:
            try:
                a = val(n.args[0])
            except Unknown:
                if not generic:
                    raise
                try:
                    a = pe.eval(n.args[0], env)
                except Exception:
                    raise Unknown()
                if not (isinstance(a, Node) and dag.as_const(a) is None):
                    raise Unknown()
            if isinstance(a, Node):
                if generic:
                    return GENERIC_MAGNITUDE   # |generic symbolic value|: positive and not within any tolerance of zero
                raise Unknown()
            return abs(a)
        raise Unknown()

    GENERIC_MAGNITUDE = Fraction(1)          # |generic value|, norm of a generic matrix: of order one

    def same(a, b):
        if isinstance(a, Node) or isinstance(b, Node):
            if a is b:
                return True
            if generic:
                return False
            raise Unknown()
        return a == b

    def truth(n):
        if isinstance(n, ast.BoolOp):
            vs = [truth(v) for v in n.values]
            return all(vs) if isinstance(n.op, ast.And) else any(vs)
        if isinstance(n, ast.UnaryOp) and isinstance(n.op, ast.Not):
            return not truth(n.operand)
        if isinstance(n, ast.Call) and callee(n) == "numpy.allclose" and len(n.args) >= 2 and generic:
            # arrays: close iff every pair of elements is (symbolic elements: generic, i.e. only identical values are close)
            from .arr import Arr as _Arr

            try:
                xs = [pe.eval(a_, env) for a_ in n.args[:2]]
            except Exception:
                raise Unknown()
            flat = [x.flat() if isinstance(x, _Arr) else [x] for x in xs]
            m = max(len(f) for f in flat)
            if any(len(f) not in (1, m) for f in flat):
                raise Unknown()
            pairs = [(flat[0][i if len(flat[0]) > 1 else 0], flat[1][i if len(flat[1]) > 1 else 0]) for i in range(m)]
            if all(not isinstance(conv(u), Node) and not isinstance(conv(v), Node) for u, v in pairs):
                raise Unknown()          # concrete arrays are the evaluator's own business
            return all(same(conv(u), conv(v)) for u, v in pairs)
        if isinstance(n, ast.Call) and callee(n) in ("numpy.isclose", "math.isclose") and len(n.args) >= 2:
            a, b = val(n.args[0]), val(n.args[1])
            if isinstance(a, Node) or isinstance(b, Node):
                return same(a, b)
            # two concrete values: the library's tolerance rule with the tolerances of the call (or the library's defaults)
            kw = {k.arg: val(k.value) for k in n.keywords if k.arg in ("rtol", "atol", "rel_tol", "abs_tol")}
            if any(isinstance(v, Node) for v in kw.values()):
                raise Unknown()
            if callee(n) == "numpy.isclose":
                rtol = kw.get("rtol", val(n.args[2]) if len(n.args) > 2 else Fraction(1, 10 ** 5))
                atol = kw.get("atol", val(n.args[3]) if len(n.args) > 3 else Fraction(1, 10 ** 8))
                return abs(a - b) <= atol + rtol * abs(b)
            return abs(a - b) <= max(kw.get("rel_tol", Fraction(1, 10 ** 9)) * max(abs(a), abs(b)), kw.get("abs_tol", Fraction(0)))
        if isinstance(n, ast.Compare) and len(n.ops) == 1:
            a, b = val(n.left), val(n.comparators[0])
            op = n.ops[0]
            if isinstance(op, ast.Eq):
                return same(a, b)
            if isinstance(op, ast.NotEq):
                return not same(a, b)
            if isinstance(a, Node) or isinstance(b, Node):
                raise Unknown()
            return {ast.Lt: a < b, ast.LtE: a <= b, ast.Gt: a > b, ast.GtE: a >= b}[type(op)]
        raise Unknown()

    try:
        return truth(tree)
    except Unknown:
        return None
