"""Rust expression front-end (lark): parses the function items of crates/ekore (the subset the numeric kernels use) and evaluates
them symbolically into the same DAG the Python partial evaluator produces, so that twins can be compared."""
from __future__ import annotations

import re
from fractions import Fraction

import lark

from . import dag
from .core import AnalysisError
from .rs import Crates, RsFile

GRAMMAR = r"""
start: block_body
block_body: stmt* (expr | tail_assign)?
tail_assign: lvalue "=" expr
?stmt: "let" "mut"? pattern (":" type)? "=" expr ";"   -> let
     | "let" "mut"? pattern ":" type_ns ";"         -> declare
     | "const" pattern ":" type_ns "=" expr ";"     -> let
     | lvalue "=" expr ";"                          -> assign
     | lvalue AUGOP expr ";"                        -> augassign
     | "return" expr? ";"                           -> ret
     | if_expr                                      -> ifstmt
     | for_expr                                     -> forstmt
     | expr ";"                                     -> exprstmt
pattern: NAME | "(" pattern ("," pattern)* ")" -> tuplepat | "_" -> wild
lvalue: NAME ("[" expr "]")*
type: /[A-Za-z_&\[(][A-Za-z0-9_:<>\[\]; ,&()']*/
type_ns: /[A-Za-z_&][A-Za-z0-9_:<>,& ]*/
?expr: or_
?or_: and_ | or_ "||" and_ -> or_
?and_: cmp | and_ "&&" cmp -> and_
?cmp: sum | sum CMPOP sum -> cmp
?sum: product | sum "+" product -> add | sum "-" product -> sub
?product: unary | product "*" unary -> mul | product "/" unary -> div | product "%" unary -> mod
?unary: "-" unary -> neg | "!" unary -> not_ | "&" "mut"? unary -> ref | "*" unary -> deref | cast
?cast: postfix | cast "as" type_simple -> cast
type_simple: /[A-Za-z_][A-Za-z0-9_]*/
?postfix: atom
        | postfix "." NAME "(" [args] ")" -> method
        | postfix "." NAME                -> field
        | postfix "." INT                 -> tfield
        | postfix "(" [args] ")"          -> call
        | postfix "[" expr "]"            -> index
        | postfix "[" range "]"           -> slice
args: expr ("," expr)* ","?
?atom: NUMBER -> num
     | STRING -> string
     | "true" -> true | "false" -> false
     | path
     | path "!" "(" [args] ")" -> macro
     | "(" expr ")"
     | "(" expr "," [args] ")" -> tuple
     | "[" [args] "]" -> array
     | "[" expr ";" expr "]" -> arrayrep
     | if_expr | match_expr | block
block: "{" block_body "}"
if_expr: "if" expr block ("else" (if_expr | block))?
for_expr: "for" pattern "in" (range | expr) block
match_expr: "match" expr "{" arm ("," arm)* ","? "}"
arm: mpat ("|" mpat)* "=>" expr
?mpat: NUMBER -> pnum | "_" -> pwild | path -> ppath | "-" NUMBER -> pneg
path: NAME ("::" NAME)*
range: sum ".." sum | sum "..=" sum -> range_incl
AUGOP: "+=" | "-=" | "*=" | "/="
CMPOP: "==" | "!=" | "<=" | ">=" | "<" | ">"
NAME: /(?!(let|mut|if|else|match|as|return|for|in|true|false|const)\b)[A-Za-z_][A-Za-z0-9_]*/
NUMBER: /[0-9][0-9_]*(\.(?!\.)[0-9_]*)?([eE][+-]?[0-9]+)?(_?(f64|f32|u8|u16|u32|u64|usize|i8|i16|i32|i64|isize))?/
INT: /[0-9]+/
STRING: /"([^"\\]|\\.)*"/
%import common.WS
%ignore WS
%ignore /#\[[^\]]*\]/
"""

_PARSER = None


def parser():
    global _PARSER
    if _PARSER is None:
        _PARSER = lark.Lark(GRAMMAR, parser="earley", ambiguity="resolve", maybe_placeholders=False)
    return _PARSER


def _cached_parse(body: str):
    """parse trees are cached by the digest of (grammar, function body) outside the repository and /verif: the Earley parser is slow
    and the bodies rarely change; a changed body has a different digest and is parsed afresh"""
    import hashlib
    import os
    import pickle

    key = hashlib.sha256((GRAMMAR + "\0" + body).encode()).hexdigest()
    d = os.path.expanduser("~/.cache/eko-verif-parse")
    p = os.path.join(d, key + ".pkl")
    try:
        with open(p, "rb") as fh:
            return pickle.load(fh)
    except Exception:
        pass
    tree = parser().parse(body)
    try:
        os.makedirs(d, exist_ok=True)
        tmp = p + f".{os.getpid()}.tmp"
        with open(tmp, "wb") as fh:
            pickle.dump(tree, fh)
        os.replace(tmp, p)
    except Exception:
        pass
    return tree


class RsFn:
    def __init__(self, file: RsFile, name: str, params, ret: str, body: str, pos: int):
        self.file, self.name, self.params, self.ret, self.body, self.pos = file, name, params, ret, body, pos
        self._tree = None

    @property
    def where(self):
        return f"{self.file.rel}:{self.file.line_of(self.pos)}"

    @property
    def tree(self):
        if self._tree is None:
            try:
                body = re.sub(r"\b([A-Z]\w*)\s*\{\s*(\w+)\s*\}", r"mkstruct!(\1, \2)", self.body)
                body = re.sub(r"::<[^<>]*>", "", body)
                self._tree = _cached_parse(body)
            except lark.exceptions.LarkError as e:
                raise AnalysisError(f"cannot parse Rust function {self.name} in {self.file.rel}: {str(e)[:200]}")
        return self._tree


def functions(f: RsFile) -> dict:
    """top-level (and impl-level) fn items of a file"""
    out = {}
    text = f.text
    for m in re.finditer(r"\bfn\s+(\w+)\s*(?:<[^>{]*>)?\s*\(", text):
        name = m.group(1)
        i = m.end()
        depth = 1
        while depth and i < len(text):
            depth += {"(": 1, ")": -1}.get(text[i], 0)
            i += 1
        params_txt = text[m.end():i - 1]
        j = None
        dep = 0
        for q in range(i, len(text)):
            chq = text[q]
            if chq in "[(<":
                dep += 1
            elif chq in "])>" and not (chq == ">" and text[q - 1] == "-"):
                dep -= 1
            elif chq == "{" and dep <= 0:
                j = q
                break
            elif chq == ";" and dep <= 0:
                break
        if j is None:
            continue
        ret = text[i:j].strip().lstrip("->").strip()
        k = j + 1
        depth = 1
        while depth and k < len(text):
            ch = text[k]
            if ch == '"':
                k += 1
                while k < len(text) and text[k] != '"':
                    k += 2 if text[k] == "\\" else 1
            depth += {"{": 1, "}": -1}.get(ch, 0)
            k += 1
        body = text[j + 1:k - 1]
        params = []
        for p in _split_top(params_txt):
            p = p.strip()
            if not p or p in ("self", "&self", "&mut self"):
                params.append(("self", ""))
                continue
            nm, _, ty = p.partition(":")
            params.append((nm.replace("mut ", "").strip(), ty.strip()))
        out.setdefault(name, RsFn(f, name, params, ret, body, m.start()))
    return out


def _split_top(s):
    out, depth, cur = [], 0, ""
    for ch in s:
        if ch in "<([":
            depth += 1
        elif ch in ">)]":
            depth -= 1
        if ch == "," and depth == 0:
            out.append(cur)
            cur = ""
        else:
            cur += ch
    if cur.strip():
        out.append(cur)
    return out


class RsReturn(Exception):
    def __init__(self, value):
        self.value = value


class RsUndecided(Exception):
    pass


class Evaluator:
    """symbolic evaluation of parsed Rust functions into DAG values"""

    def __init__(self, crates: Crates, prefix="crates/ekore/src/", cache_atom=None, consts_hook=None):
        self.crates = crates
        self.prefix = prefix
        self.fns = {}        # (file rel, name) -> RsFn
        self.by_name = {}
        for rel, f in crates.files.items():
            if not rel.startswith(prefix):
                continue
            for name, fn in functions(f).items():
                self.fns[(rel, name)] = fn
                self.by_name.setdefault(name, []).append(fn)
        self.cache_atom = cache_atom or (lambda key, n: dag.fn("H_" + key, n))
        self.consts = {}
        for rel, f in crates.files.items():
            if rel.startswith(prefix):
                for k, v in f.consts().items():
                    self.consts.setdefault(k, v)
        self.depth = 0
        self.overrides = {}
        self.assumed = []

    # ---- resolution ------------------------------------------------------------------------------------------------------
    def resolve(self, cur: RsFile, path: list):
        name = path[-1]
        cands = self.by_name.get(name, [])
        if not cands:
            return None
        if len(path) >= 2:
            mod = path[-2]
            sel = [c for c in cands if c.file.rel.endswith(f"/{mod}.rs") or f"/{mod}/" in c.file.rel]
            if len(sel) >= 1:
                def score(c):
                    comps = c.file.rel[len(self.prefix):-3].split("/")
                    k = 0
                    for seg, comp in zip(reversed(path[:-1]), reversed(comps)):
                        if seg != comp:
                            break
                        k += 1
                    near = c.file.rel.rsplit("/", 1)[0] in (cur.rel.rsplit("/", 1)[0], cur.rel[:-3])
                    return (k, near)
                return max(sel, key=score)
        same = [c for c in cands if c.file is cur]
        if same:
            return same[0]
        # imported by `use ...::{name}` : pick the candidate whose module path occurs in a use line of the current file
        for c in cands:
            modpath = c.file.rel[len(self.prefix):-3].replace("/", "::")
            if re.search(r"use\s+(crate|super)[^;]*" + re.escape(modpath.split("::")[-1]) + r"[^;]*\b" + re.escape(name) + r"\b", cur.text):
                return c
        if len(cands) == 1:
            return cands[0]
        # sibling module in a sub-directory named after the current file
        sub = [c for c in cands if c.file.rel.startswith(cur.rel[:-3] + "/")]
        if len(sub) == 1:
            return sub[0]
        return None

    # ---- evaluation ---------------------------------------------------------------------------------------------------------
    def call(self, fn: RsFn, args):
        key = (fn.file.rel, fn.name)
        if key in self.overrides:
            return self.overrides[key](self, args)
        self.depth += 1
        if self.depth > 60:
            raise AnalysisError("Rust evaluation recursion too deep")
        env = {}
        for (pn, pt), a in zip(fn.params, args):
            env[pn] = a
        try:
            body = fn.tree.children[0]
            return self.block_body(body, env, fn)
        except RsReturn as r:
            return r.value
        finally:
            self.depth -= 1

    def block_body(self, node, env, fn):
        last = None
        for ch in node.children:
            if isinstance(ch, lark.Tree) and ch.data in ("let", "declare", "assign", "augassign", "ret", "ifstmt", "forstmt", "exprstmt"):
                last = None
                self.stmt(ch, env, fn)
            elif isinstance(ch, lark.Tree) and ch.data == "tail_assign":
                last = None
                self.store(ch.children[0], self.ev(ch.children[1], env, fn), env, fn)
            else:
                last = self.ev(ch, env, fn)
        return last

    def stmt(self, st, env, fn):
        d = st.data
        if d == "let":
            pat = st.children[0]
            val = self.ev(st.children[-1], env, fn)
            self.bind(pat, val, env)
        elif d == "declare":
            self.bind(st.children[0], None, env)
        elif d == "assign":
            self.store(st.children[0], self.ev(st.children[1], env, fn), env, fn)
        elif d == "augassign":
            lv, op, e = st.children
            cur = self.load(lv, env, fn)
            v = self.ev(e, env, fn)
            new = {"+=": dag.add, "-=": dag.sub, "*=": dag.mul, "/=": dag.div}[str(op)](cur, v)
            self.store(lv, new, env, fn)
        elif d == "ret":
            raise RsReturn(self.ev(st.children[0], env, fn) if st.children else None)
        elif d == "ifstmt":
            self.ev(st.children[0], env, fn)
        elif d == "forstmt":
            self.for_(st.children[0], env, fn)
        elif d == "exprstmt":
            self.ev(st.children[0], env, fn)

    def bind(self, pat, val, env):
        if isinstance(pat, lark.Tree) and pat.data == "pattern":
            pat = pat.children[0]
        if isinstance(pat, lark.Token):
            env[str(pat)] = val
        elif pat.data == "tuplepat":
            for p, v in zip(pat.children, val):
                self.bind(p, v, env)

    def load(self, lv, env, fn):
        name = str(lv.children[0])
        v = env[name]
        for ix in lv.children[1:]:
            v = v[self.as_int(self.ev(ix, env, fn))]
        return v

    def store(self, lv, val, env, fn):
        name = str(lv.children[0])
        if len(lv.children) == 1:
            env[name] = val
            return
        tgt = env[name]
        idx = [self.as_int(self.ev(ix, env, fn)) for ix in lv.children[1:]]
        for i in idx[:-1]:
            tgt = tgt[i]
        tgt[idx[-1]] = val

    def as_int(self, v):
        c = dag.as_const(v) if isinstance(v, dag.Node) else v
        if c is None or Fraction(c).denominator != 1:
            raise RsUndecided(f"integer needed, got {v}")
        return int(c)

    def truth(self, v):
        if isinstance(v, bool):
            return v
        raise RsUndecided(f"condition on a symbolic value: {v}")

    def for_(self, node, env, fn):
        pat, it, block = node.children
        seq = self.ev(it, env, fn)
        for x in seq:
            self.bind(pat, x, env)
            self.block_body(block.children[0], env, fn)

    def ev(self, n, env, fn):
        if isinstance(n, lark.Token):
            if n.type == "NUMBER":
                return self.number(str(n))
            raise AnalysisError(f"unexpected token {n!r}")
        d = n.data
        ch = n.children
        if d == "num":
            return self.number(str(ch[0]))
        if d in ("true", "false"):
            return d == "true"
        if d == "string":
            return str(ch[0])[1:-1]
        if d == "path":
            return self.path_value([str(x) for x in ch], env, fn)
        if d in ("add", "sub", "mul", "div"):
            a, b = self.ev(ch[0], env, fn), self.ev(ch[1], env, fn)
            if _is_int(a) and _is_int(b):  # Rust integer arithmetic (division truncates)
                if d == "div":
                    q = abs(a) // abs(b)
                    return q if (a >= 0) == (b >= 0) else -q
                return {"add": a + b, "sub": a - b, "mul": a * b}[d]
            if _is_int(a) != _is_int(b) and not (isinstance(a, dag.Node) and isinstance(b, dag.Node)):
                # an integer literal next to a float/complex does not type-check in Rust; only `as f64` casts mix them
                pass
            return {"add": dag.add, "sub": dag.sub, "mul": dag.mul, "div": dag.div}[d](a, b)
        if d == "mod":
            a, b = self.as_int(self.ev(ch[0], env, fn)), self.as_int(self.ev(ch[1], env, fn))
            return a % b
        if d == "neg":
            v = self.ev(ch[0], env, fn)
            return -v if _is_int(v) else dag.neg(v)
        if d == "not_":
            return not self.truth(self.ev(ch[0], env, fn))
        if d in ("ref", "deref"):
            return self.ev(ch[-1], env, fn)
        if d == "cast":
            v = self.ev(ch[0], env, fn)
            ty = str(ch[1].children[0])
            if ty in ("f64", "f32"):
                return dag.const(v) if _is_int(v) else v
            if ty in ("u8", "u16", "u32", "u64", "usize", "i8", "i16", "i32", "i64", "isize"):
                return v if _is_int(v) else int(Fraction(dag.as_const(v)))
            return v
        if d == "cmp":
            a, op, b = self.ev(ch[0], env, fn), str(ch[1]), self.ev(ch[2], env, fn)
            if a is GENERIC or b is GENERIC:
                # |Im N|, |N - 1| ... of a generic moment against a tiny threshold (removable-singularity guards): not at the special point
                self.assumed.append(f"{fn.name}: generic moment in `{op}` guard")
                return op in (">", ">=", "!=")
            ca = dag.as_const(a) if isinstance(a, dag.Node) else a
            cb = dag.as_const(b) if isinstance(b, dag.Node) else b
            if ca is None or cb is None:
                raise RsUndecided(f"comparison of symbolic values {a} {op} {b}")
            return {"==": ca == cb, "!=": ca != cb, "<": ca < cb, ">": ca > cb, "<=": ca <= cb, ">=": ca >= cb}[op]
        if d == "or_":
            return self.truth(self.ev(ch[0], env, fn)) or self.truth(self.ev(ch[1], env, fn))
        if d == "and_":
            return self.truth(self.ev(ch[0], env, fn)) and self.truth(self.ev(ch[1], env, fn))
        if d == "tuple":
            return tuple([self.ev(ch[0], env, fn)] + ([self.ev(a, env, fn) for a in ch[1].children] if len(ch) > 1 else []))
        if d == "array":
            return [self.ev(a, env, fn) for a in ch[0].children] if ch else []
        if d == "arrayrep":
            v = self.ev(ch[0], env, fn)
            k = self.as_int(self.ev(ch[1], env, fn))
            import copy

            return [copy.deepcopy(v) if isinstance(v, list) else v for _ in range(k)]
        if d == "index":
            return self.ev(ch[0], env, fn)[self.as_int(self.ev(ch[1], env, fn))]
        if d == "slice":
            base = self.ev(ch[0], env, fn)
            idx = self.ev(ch[1], env, fn)
            return [base[i] for i in idx]
        if d == "tfield":
            return self.ev(ch[0], env, fn)[int(ch[1])]
        if d == "field":
            base = self.ev(ch[0], env, fn)
            return self.field(base, str(ch[1]))
        if d == "block":
            return self.block_body(ch[0], dict(env) if False else env, fn)
        if d == "if_expr":
            cond = self.truth(self.ev(ch[0], env, fn))
            if cond:
                return self.block_body(ch[1].children[0], env, fn)
            if len(ch) > 2:
                return self.ev(ch[2], env, fn) if ch[2].data == "if_expr" else self.block_body(ch[2].children[0], env, fn)
            return None
        if d == "match_expr":
            v = self.ev(ch[0], env, fn)
            for arm in ch[1:]:
                pats, body = arm.children[:-1], arm.children[-1]
                for p in pats:
                    if p.data == "pwild":
                        return self.ev(body, env, fn)
                    if p.data in ("pnum", "pneg"):
                        pv = self.number(str(p.children[0]))
                        pv = -pv if p.data == "pneg" else pv
                        if self._eq(v, pv):
                            return self.ev(body, env, fn)
                    if p.data in ("ppath", "path"):
                        pv = self.path_value([str(x) for x in (p.children[0].children if p.data == "ppath" else p.children)], env, fn)
                        if self._eq(v, pv):
                            return self.ev(body, env, fn)
            raise RsUndecided(f"no match arm for {v}")
        if d == "macro":
            name = str(ch[0].children[-1])
            if name == "mkstruct":
                parts = ch[1].children
                sname = str(parts[0].children[-1])
                return StructObj(sname, {str(a.children[-1]): self.ev(a, env, fn) for a in parts[1:]})
            args = [self.ev(a, env, fn) for a in ch[1].children] if len(ch) > 1 else []
            if name == "cmplx":
                a0 = dag.const(args[0]) if _is_int(args[0]) else args[0]
                a1 = dag.const(args[1]) if _is_int(args[1]) else args[1]
                return dag.add(a0, dag.mul(dag.sym("I"), a1))
            if name == "mkstruct":
                names = [str(a.children[-1]) if isinstance(a, lark.Tree) and a.data == "path" else None for a in ch[1].children]
                return StructObj(names[0], {k: v for k, v in zip(names[1:], args[1:])})
            if name in ("vec",):
                return list(args)
            if name in ("panic", "unimplemented", "todo", "assert", "debug_assert"):
                raise RsUndecided(f"{name}! reached")
            raise AnalysisError(f"unknown macro {name}!")
        if d == "call":
            callee = ch[0]
            args = [self.ev(a, env, fn) for a in ch[1].children] if len(ch) > 1 else []
            if isinstance(callee, lark.Tree) and callee.data == "path":
                path = [str(x) for x in callee.children]
                return self.call_path(path, args, env, fn)
            raise AnalysisError(f"call of a non-path expression in {fn.name}")
        if d == "method":
            base = self.ev(ch[0], env, fn)
            name = str(ch[1])
            args = [self.ev(a, env, fn) for a in ch[2].children] if len(ch) > 2 else []
            return self.method(base, name, args, fn)
        if d in ("range", "range_incl"):
            a, b = self.as_int(self.ev(ch[0], env, fn)), self.as_int(self.ev(ch[1], env, fn))
            return list(range(a, b + (1 if d == "range_incl" else 0)))
        raise AnalysisError(f"unsupported Rust construct `{d}` in {fn.name} ({fn.file.rel})")

    def _eq(self, a, b):
        ca = dag.as_const(a) if isinstance(a, dag.Node) else a
        cb = dag.as_const(b) if isinstance(b, dag.Node) else b
        if ca is None or cb is None:
            raise RsUndecided("match on a symbolic value")
        return ca == cb

    def number(self, s):
        m = re.search(r"_?(f64|f32|u8|u16|u32|u64|usize|i8|i16|i32|i64|isize)$", s)
        suffix = m.group(1) if m else ""
        s = s[:m.start()] if m else s
        s = s.replace("_", "")
        if "." not in s and "e" not in s.lower() and not suffix.startswith("f"):
            return int(s)       # integer literal: Rust integer arithmetic applies
        if s.endswith("."):
            s += "0"
        return dag.const(Fraction(s))

    def path_value(self, path, env, fn):
        name = path[-1]
        if len(path) == 1 and name in env:
            return env[name]
        if path[0] == "K" and len(path) == 2:
            return ("K", name)
        if name in self.consts and _is_int(self.consts[name]):
            return self.consts[name]
        if name in self.consts and not isinstance(self.consts[name], str):
            return dag.const(Fraction(repr(self.consts[name]) if isinstance(self.consts[name], float) else self.consts[name]))
        if name == "PI":
            return dag.sym("pi")
        if name == "LN_2":
            return dag.fn("log", dag.const(2))
        if name == "SQRT_2":
            return dag.fn("sqrt", dag.const(2))
        if name in self.consts:
            return self.const_expr(name, fn)
        if path[-2:] == ["Complex", "i"] or name == "I":
            return dag.sym("I")
        raise AnalysisError(f"unresolved Rust name {'::'.join(path)} in {fn.name} ({fn.file.rel})")

    def const_expr(self, name, fn):
        txt = self.consts[name]
        try:
            tree = parser().parse(txt)
        except lark.exceptions.LarkError:
            raise AnalysisError(f"constant {name} = `{txt}` cannot be parsed")
        v = self.block_body(tree.children[0], {}, fn)
        return dag.const(v) if _is_int(v) else v

    def call_path(self, path, args, env, fn):
        name = path[-1]
        if path[:1] == ["Complex"] or path[-2:] == ["Complex", "new"]:
            if name == "new":
                return dag.add(args[0], dag.mul(dag.sym("I"), args[1]))
            if name == "zero":
                return dag.const(0)
            if name == "one":
                return dag.const(1)
        if path[-2:] in (["f64", "pow"], ["f64", "powf"], ["f64", "powi"]) or (path == ["pow"] and re.search(r"use\s+num::pow\s*;", fn.file.text)):
            return dag.power(dag.const(args[0]) if _is_int(args[0]) else args[0], args[1])
        if len(path) == 1:
            m = re.search(r"use\s+([\w:]+)::(\w+)\s+as\s+" + re.escape(name) + r"\s*;", fn.file.text)
            if m:
                mods = [x for x in m.group(1).split("::") if x not in ("super", "crate", "self")]
                path = mods + [m.group(2)]
                name = path[-1]
        if name in ("zero", "one") and len(args) == 0:
            return dag.const(0 if name == "zero" else 1)
        if name in ("from",) and len(args) == 1:
            return args[0]
        target = self.resolve(fn.file, path)
        if target is None:
            raise AnalysisError(f"unresolved Rust call {'::'.join(path)} in {fn.name} ({fn.file.rel})")
        return self.call(target, args)

    def field(self, base, name):
        if isinstance(base, StructObj):
            return base.fields[name]
        if name in ("re", "im"):
            return GENERIC  # real/imaginary part of the generic moment: only ever compared with tiny thresholds
        raise AnalysisError(f"field .{name}")

    def method(self, base, name, args, fn):
        if base is GENERIC:
            return GENERIC
        if name in ("abs", "norm", "norm_sqr") and isinstance(base, dag.Node) and dag.as_const(base) is None:
            return GENERIC
        if isinstance(base, CacheObj):
            if name == "n":
                return base.n
            if name == "get":
                key = args[0]
                assert isinstance(key, tuple) and key[0] == "K"
                return self.cache_atom(key[1], base.n)
            raise AnalysisError(f"cache method {name}")
        if isinstance(base, StructObj):
            cands = [f for f in self.by_name.get(name, []) if f.params and f.params[0][0] == "self"]
            if len(cands) != 1:
                raise AnalysisError(f"method {base.name}::{name} not resolved")
            return self.call(cands[0], [base] + list(args))
        if name in ("powu", "powi"):
            return dag.power(base, self.as_int(args[0]))
        if name in ("powf", "powc", "pow"):
            return dag.power(base, args[0])
        if name in ("ln", "exp", "sqrt", "sin", "cos", "tan"):
            return dag.fn({"ln": "log"}.get(name, name), dag.tonode(base))
        if name in ("inv", "recip"):
            return dag.div(1, base)
        if name in ("clone", "into", "to_owned", "unwrap", "iter", "into_iter", "copied", "conj", "try_into", "to_vec") and not args:
            if name == "conj":
                raise RsUndecided("conj of a symbolic value")
            return base
        if name == "enumerate":
            return list(enumerate(base))
        if name == "rev":
            return list(reversed(base))
        if name == "len":
            return len(base)
        raise AnalysisError(f"unsupported Rust method .{name}() in {fn.name} ({fn.file.rel})")


class CacheObj:
    def __init__(self, n):
        self.n = n


class _Generic:
    def __repr__(self):
        return "<generic real>"


GENERIC = _Generic()


class StructObj:
    def __init__(self, name, fields):
        self.name, self.fields = name, dict(fields)


def _is_int(v):
    return isinstance(v, int) and not isinstance(v, bool)
