"""setup_cmd: nothing to build; verify that the tooling the checks need is present offline."""
import sys


def main():
    ok = True
    for mod in ("ast", "json", "fractions", "sympy", "networkx", "lark"):
        try:
            __import__(mod)
        except Exception as e:  # pragma: no cover
            print(f"missing module {mod}: {e}")
            ok = False
    from .core import REPO

    if not (REPO / "src" / "eko").is_dir():
        print(f"{REPO}/src/eko missing")
        ok = False
    print("setup ok" if ok else "setup FAILED")
    return 0 if ok else 1


if __name__ == "__main__":
    sys.exit(main())
