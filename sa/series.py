"""Truncated Laurent series over F_p as an interpretation of the DAG.

Used to decide statements of the form  "f(lam*x, lam*y, ...) = O(lam^n)"  for an extracted formula f:
designated symbols scale like lam^k, every other symbol is a random constant of F_p, atoms with
lam-independent arguments are random-oracle constants.  log(lam) is an independent transcendental
(random constant LOGLAM), which is sound for identities that hold for all lam > 0.
"""
from __future__ import annotations

from fractions import Fraction

from . import dag
from .dag import Node, Undecidable, NonResidue, FpPoint


class Ser:
    """c[0] lam^val + c[1] lam^(val+1) + ... + O(lam^(val+len(c)))"""

    __slots__ = ("val", "c")

    def __init__(self, val, c):
        self.val = val
        self.c = c

    @property
    def prec(self):
        return self.val + len(self.c)


class SeriesPoint:
    def __init__(self, seed: int, scaling: dict, nterms: int, p: int = dag.P):
        self.pt = FpPoint(seed, p=p)
        self.p = p
        self.scaling = scaling  # symbol -> integer power of lam
        self.n = nterms
        self.memo: dict = {}
        self.loglam = self.pt._h("loglam")

    # -- basic series ops -------------------------------------------------
    def const(self, v: int) -> Ser:
        return Ser(0, [v % self.p] + [0] * (self.n - 1))

    def strip(self, s: Ser) -> Ser:
        c = s.c
        i = 0
        while i < len(c) and c[i] == 0:
            i += 1
        if i == len(c):
            return Ser(s.prec, [])  # zero to known precision
        if i == 0:
            return s
        return Ser(s.val + i, c[i:])

    def add(self, a: Ser, b: Ser) -> Ser:
        p = self.p
        prec = min(a.prec, b.prec)
        val = min(a.val, b.val)
        if val >= prec:
            return Ser(prec, [])
        out = [0] * (prec - val)
        for s in (a, b):
            for i, x in enumerate(s.c):
                k = s.val + i - val
                if k < len(out):
                    out[k] = (out[k] + x) % p
        return Ser(val, out)

    def scale(self, k: int, a: Ser) -> Ser:
        p = self.p
        return Ser(a.val, [(k * x) % p for x in a.c])

    def mul(self, a: Ser, b: Ser) -> Ser:
        p = self.p
        if not a.c or not b.c:
            return Ser(min(a.prec + b.val, b.prec + a.val), [])
        n = min(len(a.c), len(b.c))
        out = [0] * n
        for i, x in enumerate(a.c[:n]):
            if x == 0:
                continue
            for j, y in enumerate(b.c[: n - i]):
                out[i + j] = (out[i + j] + x * y) % p
        return Ser(a.val + b.val, out)

    def inv(self, a: Ser) -> Ser:
        p = self.p
        a = self.strip(a)
        if not a.c:
            raise ZeroDivisionError("inverse of a series that is zero to working precision")
        n = len(a.c)
        a0i = pow(a.c[0], p - 2, p)
        out = [a0i] + [0] * (n - 1)
        for k in range(1, n):
            acc = 0
            for i in range(1, k + 1):
                acc = (acc + a.c[i] * out[k - i]) % p
            out[k] = (-acc * a0i) % p
        return Ser(-a.val, out)

    def powi(self, a: Ser, e: int) -> Ser:
        if e < 0:
            a = self.inv(a)
            e = -e
        result = None
        base = a
        while e:
            if e & 1:
                result = base if result is None else self.mul(result, base)
            e >>= 1
            if e:
                base = self.mul(base, base)
        return result if result is not None else self.const(1)

    def is_const(self, s: Ser):
        """lam-independent to working precision (and precision reaches beyond lam^0)"""
        s = self.strip(s)
        if not s.c:
            return s.prec > 0, 0
        if s.val < 0:
            return False, None
        if s.val > 0:
            return True, 0
        return all(x == 0 for x in s.c[1:]), s.c[0]

    # -- atoms ------------------------------------------------------------
    def _compose1(self, u: Ser, coef):
        """sum_k coef(k) u^k for val(u) >= 1"""
        u = self.strip(u)
        n = self.n
        out = self.const(coef(0))
        if not u.c:
            return Ser(0, out.c[: max(1, min(n, u.prec))]) if u.prec < n else out
        pw = self.const(1)
        k = 0
        while True:
            k += 1
            pw = self.mul(pw, u)
            if pw.val >= n or k > 4 * n:
                break
            out = self.add(out, self.scale(coef(k), pw))
        return out

    def frac(self, f: Fraction) -> int:
        return self.pt.frac(f)

    def atom(self, name: str, args):
        p = self.p
        if len(args) == 1:
            s = self.strip(args[0])
            if name == "log":
                if not s.c:
                    raise Undecidable("log of a series that vanishes to working precision")
                lead = s.c[0]
                rest = Ser(0, [x * pow(lead, p - 2, p) % p for x in s.c])  # 1 + u
                u = Ser(0, [0] + rest.c[1:])
                base = (s.val * self.loglam + self.pt.atom("log", (lead,))) % p
                ser = self._compose1(u, lambda k: 0 if k == 0 else self.frac(Fraction((-1) ** (k + 1), k)))
                return self.add(self.const(base), ser)
            if name == "exp":
                if not s.c:
                    return self.const(1) if s.prec > 0 else (_ for _ in ()).throw(Undecidable("exp precision"))
                if s.val < 0:
                    raise Undecidable("exp of a series with a pole in lam")
                c0 = s.c[0] if s.val == 0 else 0
                u = Ser(s.val, list(s.c))
                if s.val == 0:
                    u = Ser(0, [0] + s.c[1:])
                import math

                ser = self._compose1(u, lambda k: self.frac(Fraction(1, math.factorial(k))))
                e0 = self.pt.atom("exp", (c0,)) if c0 != 0 else 1
                return self.scale(e0, ser)
            if name == "sqrt":
                if not s.c:
                    raise Undecidable("sqrt precision")
                if s.val % 2:
                    raise Undecidable("sqrt of odd valuation")
                lead = s.c[0]
                r = self.pt.atom("sqrt", (lead,))
                u = Ser(0, [0] + [x * pow(lead, p - 2, p) % p for x in s.c[1:]])

                def binom(k):
                    f = Fraction(1)
                    for i in range(k):
                        f *= (Fraction(1, 2) - i)
                        f /= (i + 1)
                    return self.frac(f)

                ser = self._compose1(u, binom)
                out = self.scale(r, ser)
                return Ser(out.val + s.val // 2, out.c)
        # generic atom: arguments must be lam-independent
        vals = []
        for a in args:
            ok, v = self.is_const(a)
            if not ok:
                raise Undecidable(f"atom {name} with lam-dependent argument")
            vals.append(v)
        return self.const(self.pt.atom(name, tuple(vals)))

    # -- evaluation -------------------------------------------------------
    def eval(self, n) -> Ser:
        if not isinstance(n, Node):
            return self.const(self.pt.frac(dag.as_const(n)))
        memo = self.memo
        stack = [n]
        while stack:
            x = stack[-1]
            if x.id in memo:
                stack.pop()
                continue
            if x.op == "const":
                memo[x.id] = self.const(self.pt.frac(x.payload))
                stack.pop()
            elif x.op == "sym":
                v = self.pt.symval(x.payload)
                if x.payload in self.scaling:
                    k = self.scaling[x.payload]
                    memo[x.id] = Ser(k, [v] + [0] * (self.n - 1))
                else:
                    memo[x.id] = self.const(v)
                stack.pop()
            elif x.op == "fn":
                name, args = x.payload
                pend = [a for a in args if a.id not in memo]
                if pend:
                    stack.extend(pend)
                    continue
                memo[x.id] = self.atom(name, [memo[a.id] for a in args])
                stack.pop()
            elif x.op == "mul":
                c, fs = x.payload
                pend = [f for f, _ in fs if f.id not in memo]
                if pend:
                    stack.extend(pend)
                    continue
                v = self.const(self.pt.frac(c))
                for f, e in fs:
                    v = self.mul(v, self.powi(memo[f.id], e))
                memo[x.id] = v
                stack.pop()
            elif x.op == "add":
                c0, ts = x.payload
                pend = [t for t, _ in ts if t.id not in memo]
                if pend:
                    stack.extend(pend)
                    continue
                v = self.const(self.pt.frac(c0))
                for t, c in ts:
                    v = self.add(v, self.scale(self.pt.frac(c), memo[t.id]))
                memo[x.id] = v
                stack.pop()
            else:
                raise ValueError(x.op)
        return memo[n.id]


def valuation_at_least(nodes, scaling: dict, order: int, seed: int = 0, k: int = 3, extra: int = 6):
    """Decide: every node is O(lam^order) under the scaling.  Returns (ok, info).
    info on failure: index, the lowest power with a non-zero coefficient."""
    k = k * dag.K_MULT
    nodes = [dag.tonode(n) for n in nodes]
    prime = dag.P
    for n in nodes:
        if "I" in dag.symbols(n):
            prime = dag.P_COMPLEX
    done = tries = 0
    nterms = max(order, 0) + extra
    while done < k:
        tries += 1
        if tries > 300:
            raise Undecidable("series evaluation: too many resamples")
        sp = SeriesPoint(seed * 7919 + tries, scaling, nterms, prime)
        try:
            sers = [sp.strip(sp.eval(n)) for n in nodes]
        except (NonResidue, ZeroDivisionError):
            continue
        for i, s in enumerate(sers):
            if s.c and s.val < order:
                return False, {"index": i, "lowest_power": s.val, "point_seed": sp.pt.seed}
            if not s.c and s.prec < order:
                raise Undecidable(f"series precision exhausted (known to O(lam^{s.prec}), need {order})")
        done += 1
    return True, {"points": k, "order": order}
