"""Shared plumbing of the static checks: obligations, findings, evidence, exit codes.

Contract (DESIGN.md section 4)
  exit 0  every obligation discharged (known findings are printed, not failed)
  exit 1  one line ``VIOLATION property=<id> replay=<path>`` per unlisted violation
  exit 2  ``ANALYSIS-ERROR`` - an anchor vanished, a checked value is unknown (TOP),
          or a rule matched fewer instances than its floor.  Never a VIOLATION line.
"""
from __future__ import annotations

import json
import os
import re
import sys
import time
import traceback
from pathlib import Path

VERIF = Path(__file__).resolve().parent.parent
REPO = Path(os.environ.get("VERIF_REPO", "/repo"))
# the two overrides exist only for tools/run_seeds.py and sa/selftest.py (scratch runs must not
# clobber the evidence of the registered run)
EVIDENCE_DIR = Path(os.environ.get("VERIF_EVIDENCE_DIR", VERIF / "evidence"))
REPLAY_DIR = Path(os.environ.get("VERIF_REPLAY_DIR", VERIF / "replay"))
KNOWN_FILE = VERIF / "known_findings.txt"


class AnalysisError(Exception):
    """The analysis cannot decide: vanished anchor, TOP value, floor not reached."""


def norm_key(s: str) -> str:
    return re.sub(r"\s+", " ", s.strip())


class Known:
    """known_findings.txt: lines

    known: property=<id> key=<rule|construct|instance> :: <what fails>
    fixed: property=<id> <commit> <what failed>

    ``fixed`` lines are documentation only and suppress nothing.
    """

    def __init__(self, path: Path = KNOWN_FILE):
        self.known: dict[tuple[str, str], str] = {}
        self.fixed: list[str] = []
        if path.exists():
            for line in path.read_text().splitlines():
                line = line.strip()
                if not line or line.startswith("#"):
                    continue
                if line.startswith("fixed:"):
                    self.fixed.append(line)
                    continue
                m = re.match(r"known:\s+property=(\S+)\s+key=(.*?)\s+::\s+(.*)$", line)
                if m:
                    self.known[(m.group(1), norm_key(m.group(2)))] = m.group(3)

    def lookup(self, pid: str, key: str):
        return self.known.get((pid, norm_key(key)))


class Check:
    """One run of one property's check."""

    def __init__(self, pid: str, tier: str, seed: int, level: str, only_key: str | None = None):
        self.pid = pid
        self.tier = tier
        self.seed = seed
        self.level = level  # 'proof' | 'other'
        self.only_key = only_key
        self.t0 = time.time()
        self.obligations: list[dict] = []
        self.violations: list[dict] = []
        self.known_hits: list[dict] = []
        self.analysed: dict = {}
        self.assumptions: list[str] = []
        self.trusted: list[str] = ["CPython ast", "sa/ engines (DESIGN.md section 3)"]
        self.explanation = ""
        self.rule_text = ""
        self.samples: list = []
        self.known = Known()
        self.floors: list[tuple[str, int, int]] = []

    # -- obligations ------------------------------------------------------
    def ok(self, rule: str, construct: str, detail: str = "", how: str = "structural"):
        self.obligations.append(
            {"rule": rule, "construct": construct, "status": "discharged", "how": how, "detail": detail}
        )
        if len(self.samples) < 12:
            self.samples.append({"rule": rule, "construct": construct, "how": how, "detail": detail[:300]})

    def fail(self, rule: str, construct: str, message: str, where: str = "", data: dict | None = None,
             instance: str = ""):
        """Record a violated obligation. key = rule|construct|instance (no line numbers)."""
        key = "|".join(x for x in (rule, construct, instance) if x)
        if self.only_key is not None and norm_key(key) != norm_key(self.only_key):
            return
        rec = {
            "rule": rule,
            "construct": construct,
            "instance": instance,
            "key": key,
            "where": where,
            "message": message,
            "data": data or {},
        }
        known = self.known.lookup(self.pid, key)
        if known is not None:
            rec["known"] = known
            self.known_hits.append(rec)
            self.obligations.append({"rule": rule, "construct": construct, "status": "known-finding",
                                     "detail": message})
        else:
            self.violations.append(rec)
            self.obligations.append({"rule": rule, "construct": construct, "status": "violated",
                                     "detail": message})

    def decide(self, cond: bool, rule: str, construct: str, message: str, where: str = "",
               data: dict | None = None, instance: str = "", detail: str = "", how: str = "structural"):
        if cond:
            self.ok(rule, construct + (("|" + instance) if instance else ""), detail, how)
        else:
            self.fail(rule, construct, message, where, data, instance)
        return cond

    def floor(self, what: str, found: int, minimum: int):
        """A rule must match at least `minimum` instances, else the analysis is blind."""
        self.floors.append((what, found, minimum))
        if found < minimum and not self.violations:
            # (with reported violations the shortfall is their consequence - instances that failed were not counted - and the
            # violations are the verdict)
            raise AnalysisError(f"floor not reached: {what}: found {found} < {minimum}")

    def need(self, cond, msg: str):
        if not cond:
            raise AnalysisError(msg)
        return cond

    def note(self, **kw):
        for k, v in kw.items():
            self.analysed[k] = v

    # -- finish -----------------------------------------------------------
    def evidence(self, status: str) -> dict:
        n_ob = len(self.obligations)
        n_ok = sum(1 for o in self.obligations if o["status"] == "discharged")
        cov: dict = {
            "obligations": n_ob,
            "discharged": n_ok,
            "known_findings": len(self.known_hits),
            "checker_cmd": f"./check {self.pid} --tier {self.tier}",
            "trusted_base": self.trusted,
            "explanation": self.explanation,
            "rule": self.rule_text,
            "samples": self.samples or [{"note": "no obligation recorded"}],
            "analysed": self.analysed,
            "floors": [{"what": w, "found": f, "minimum": m} for (w, f, m) in self.floors],
            "status": status,
            "rules": sorted({o["rule"] for o in self.obligations}),
        }
        level = self.level
        if level == "proof" and (n_ok != n_ob or n_ob == 0):
            # a proof-level claim needs every obligation discharged; report honestly otherwise
            level = "other"
            cov["explanation"] = (cov["explanation"] + " [downgraded: not every obligation discharged on this run]").strip()
        if not cov["explanation"].strip():
            cov["explanation"] = "static rule check; see rules/analysed"
        return {
            "property_id": self.pid,
            "tier": self.tier,
            "seed": self.seed,
            "level": level,
            "coverage": cov,
            "assumptions": self.assumptions,
            "wall_s": round(time.time() - self.t0, 3),
            "violations": len(self.violations),
        }

    def finish(self) -> int:
        EVIDENCE_DIR.mkdir(exist_ok=True)
        status = "violations" if self.violations else "held"
        ev = self.evidence(status)
        (EVIDENCE_DIR / f"{self.pid}.json").write_text(json.dumps(ev, indent=1, default=str) + "\n")
        for k in self.known_hits:
            print(f"KNOWN-FINDING: property={self.pid} {k['key']} :: {k['known']} [{k['where']}]")
        if self.violations:
            REPLAY_DIR.mkdir(exist_ok=True)
            for i, v in enumerate(self.violations):
                path = REPLAY_DIR / f"{self.pid}-{i}.json"
                path.write_text(json.dumps({"property": self.pid, "tier": self.tier, "seed": self.seed, **v},
                                           indent=1, default=str) + "\n")
                print(f"{v['where'] or v['construct']}: [{v['rule']}] {v['message']}")
                print(f"VIOLATION property={self.pid} replay={path}")
            return 1
        n_ok = ev["coverage"]["discharged"]
        print(f"OK property={self.pid} tier={self.tier} obligations={ev['coverage']['obligations']} "
              f"discharged={n_ok} known={len(self.known_hits)} wall={ev['wall_s']}s")
        return 0


class Recorder:
    """Picklable stand-in for Check inside worker processes: records decide/ok/fail calls for replay in the parent."""

    def __init__(self, tier: str, seed: int):
        self.tier = tier
        self.seed = seed
        self.calls: list = []

    def ok(self, rule, construct, detail="", how="structural"):
        self.calls.append(("ok", (rule, construct, detail, how), {}))

    def fail(self, rule, construct, message, where="", data=None, instance=""):
        self.calls.append(("fail", (rule, construct, message, where, _plain(data), instance), {}))

    def decide(self, cond, rule, construct, message, where="", data=None, instance="", detail="", how="structural"):
        self.calls.append(("decide", (bool(cond), rule, construct, message, where, _plain(data), instance, detail, how), {}))
        return cond

    def need(self, cond, msg):
        if not cond:
            raise AnalysisError(msg)
        return cond


def _plain(x):
    try:
        return json.loads(json.dumps(x, default=str))
    except Exception:
        return str(x)


def big_stack(fn):
    """Call fn() on a roomy interpreter data stack.

    CPython (3.11, 3.12) keeps the frames of Python-to-Python calls in 16 KiB chunks and returns a chunk to the OS as soon as the
    frame at its base is popped.  The partial evaluator recurses deeply and keeps crossing a chunk boundary, so plain runs spend
    most of their time in mmap/munmap (measured: 8.5 s -> 0.7 s for the same work).  A trampoline whose frame asks for a little
    more than a power of two of stack slots makes the interpreter allocate one large chunk; everything fn calls then lives in
    the unused half of that chunk (virtual memory only, pages are touched on demand)."""
    def trampoline():
        return fn()

    try:
        trampoline.__code__ = trampoline.__code__.replace(co_stacksize=(1 << 23) + 1024)
    except Exception:  # an interpreter that refuses the size: run plainly
        return fn()
    return trampoline()


def _pmap_worker(payload):
    func, arg, tier, seed = payload
    rec = Recorder(tier, seed)
    try:
        big_stack(lambda: func(rec, arg))
        return rec.calls, None
    except Exception as e:  # re-raised in the parent as an analysis error
        return rec.calls, f"{type(e).__name__}: {e}"


def pmap(chk: "Check", func, args, jobs: int = 8):
    """Run func(recorder, arg) for every arg in parallel processes (fork) and replay the recorded obligations into chk
    in argument order.  func must be a module-level function."""
    import multiprocessing as mp

    args = list(args)
    if len(args) <= 1 or jobs <= 1:
        results = [_pmap_worker((func, a, chk.tier, chk.seed)) for a in args]
    else:
        import gc

        # keep the parent's heap (parsed ASTs, hash-consed DAG table) out of the children's garbage collections:
        # without this every collection in a child touches - and thereby copies - all inherited pages
        gc.collect()
        gc.freeze()
        ctx = mp.get_context("fork")
        with ctx.Pool(min(jobs, len(args))) as pool:
            results = pool.map(_pmap_worker, [(func, a, chk.tier, chk.seed) for a in args], chunksize=1)
    for calls, err in results:
        for name, a, kw in calls:
            getattr(chk, name)(*a, **kw)
        if err:
            raise AnalysisError(err)


def run_check(pid: str, fn, tier: str, seed: int, level: str, only_key: str | None = None) -> int:
    chk = Check(pid, tier, seed, level, only_key)
    try:
        fn(chk)
        return chk.finish()
    except AnalysisError as e:
        _write_error_evidence(chk, str(e))
        if os.environ.get("VERIF_DEBUG"):
            traceback.print_exc()
        print(f"ANALYSIS-ERROR property={pid} {e}")
        return 2
    except Exception as e:
        if type(e).__name__ in ("Undecidable", "PERaise"):
            # a value the rule needs could not be decided statically / the extracted code refuses
            _write_error_evidence(chk, f"{type(e).__name__}: {e}")
            if os.environ.get("VERIF_DEBUG"):
                traceback.print_exc()
            print(f"ANALYSIS-ERROR property={pid} {type(e).__name__}: {e}")
            return 2
        return _internal(chk, pid, e)


def _internal(chk, pid, e):
    try:
        raise e
    except Exception as e:  # tracebacks must not look like violations
        _write_error_evidence(chk, f"{type(e).__name__}: {e}")
        traceback.print_exc()
        print(f"ANALYSIS-ERROR property={pid} internal {type(e).__name__}: {e}")
        return 2


def _write_error_evidence(chk: Check, msg: str):
    try:
        EVIDENCE_DIR.mkdir(exist_ok=True)
        ev = chk.evidence("analysis-error")
        ev["level"] = "other"
        ev["coverage"]["explanation"] = "ANALYSIS-ERROR: " + msg
        (EVIDENCE_DIR / f"{chk.pid}.json").write_text(json.dumps(ev, indent=1, default=str) + "\n")
    except Exception:
        pass
