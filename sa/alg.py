"""ALG - reference formulas derived in the checker from the defining equations (DESIGN.md 3.5)."""
from __future__ import annotations

from fractions import Fraction

from . import dag
from .dag import Node


def series_inv(bs, order: int):
    """coefficients c_0..c_order of 1/(1 + b_1 a + b_2 a^2 + ...), bs = [b_1, b_2, ...]"""
    c = [dag.ONE]
    for j in range(1, order + 1):
        acc = dag.ZERO
        for i in range(1, j + 1):
            if i - 1 < len(bs):
                acc = dag.add(acc, dag.mul(bs[i - 1], c[j - i]))
        c.append(dag.neg(acc))
    return c


def int_monomial(e: int, a1, a0) -> Node:
    """int_{a0}^{a1} a^e da"""
    if e == -1:
        return dag.fn("log", dag.div(a1, a0))
    return dag.div(dag.sub(dag.power(a1, e + 1), dag.power(a0, e + 1)), e + 1)


def taylor_integral(n: int, bs, keep_deg: int, beta0, a1, a0) -> Node:
    """int_{a0}^{a1} a^(n-2)/(beta0 (1+sum b_i a^i)) da with the integrand's Taylor series in a
    truncated after the power a^keep_deg (powers are absolute, n-2+j <= keep_deg)."""
    cs = series_inv(bs, keep_deg + 3)
    terms = []
    for j, c in enumerate(cs):
        e = n - 2 + j
        if e > keep_deg:
            break
        terms.append(dag.mul(c, int_monomial(e, a1, a0)))
    return dag.div(dag.addn(terms), beta0)


def integrand(n: int, bs, beta0, a) -> Node:
    """a^n / (beta0 a^2 (1 + sum b_i a^i))"""
    den = dag.addn([dag.ONE] + [dag.mul(b, dag.power(a, i + 1)) for i, b in enumerate(bs)])
    return dag.div(dag.power(a, n - 2), dag.mul(beta0, den))


def poly(coefs, x) -> Node:
    return dag.addn([dag.mul(c, dag.power(x, i)) for i, c in enumerate(coefs)])
