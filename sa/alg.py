"""ALG - reference formulas derived in the checker from the defining equations (DESIGN.md 3.5)."""
from __future__ import annotations

from fractions import Fraction

from . import dag
from .dag import Node


def series_inv(bs, order: int):
    """coefficients c_0..c_order of 1/(1 + b_1 a + b_2 a^2 + ...), bs = [b_1, b_2, ...]"""
    c = [dag.ONE]
    for j in range(1, order + 1):
        acc = dag.ZERO
        for i in range(1, j + 1):
            if i - 1 < len(bs):
                acc = dag.add(acc, dag.mul(bs[i - 1], c[j - i]))
        c.append(dag.neg(acc))
    return c


def int_monomial(e: int, a1, a0) -> Node:
    """int_{a0}^{a1} a^e da"""
    if e == -1:
        return dag.fn("log", dag.div(a1, a0))
    return dag.div(dag.sub(dag.power(a1, e + 1), dag.power(a0, e + 1)), e + 1)


def taylor_integral(n: int, bs, keep_deg: int, beta0, a1, a0) -> Node:
    """int_{a0}^{a1} a^(n-2)/(beta0 (1+sum b_i a^i)) da with the integrand's Taylor series in a
    truncated after the power a^keep_deg (powers are absolute, n-2+j <= keep_deg)."""
    cs = series_inv(bs, keep_deg + 3)
    terms = []
    for j, c in enumerate(cs):
        e = n - 2 + j
        if e > keep_deg:
            break
        terms.append(dag.mul(c, int_monomial(e, a1, a0)))
    return dag.div(dag.addn(terms), beta0)


def integrand(n: int, bs, beta0, a) -> Node:
    """a^n / (beta0 a^2 (1 + sum b_i a^i))"""
    den = dag.addn([dag.ONE] + [dag.mul(b, dag.power(a, i + 1)) for i, b in enumerate(bs)])
    return dag.div(dag.power(a, n - 2), dag.mul(beta0, den))


def poly(coefs, x) -> Node:
    return dag.addn([dag.mul(c, dag.power(x, i)) for i, c in enumerate(coefs)])


# -- polynomials in (a, l) with scalar (dag) or matrix (Arr) coefficients ------------------------------
from .arr import Arr, matmul as _matmul


def vadd(x, y):
    if isinstance(x, Arr) or isinstance(y, Arr):
        if not isinstance(x, Arr):
            raise TypeError("scalar + matrix")
        if not isinstance(y, Arr):
            raise TypeError("matrix + scalar")
        return Arr([dag.add(p, q) for p, q in zip(x.flat(), y.flat())], x.shape)
    return dag.add(x, y)


def vmul(x, y):
    """ordered product: x on the left"""
    if isinstance(x, Arr) and isinstance(y, Arr):
        return _matmul(x, y, dag.add, dag.mul)
    if isinstance(x, Arr):
        return Arr([dag.mul(p, y) for p in x.flat()], x.shape)
    if isinstance(y, Arr):
        return Arr([dag.mul(x, q) for q in y.flat()], y.shape)
    return dag.mul(x, y)


class Poly2:
    """sum c[(i,j)] a^i l^j, truncated at a-degree N; coefficients scalar or matrix; products are ordered."""

    def __init__(self, N, terms=None):
        self.N = N
        self.t = dict(terms or {})

    def add(self, o):
        r = Poly2(self.N, self.t)
        for k, v in o.t.items():
            r.t[k] = vadd(r.t[k], v) if k in r.t else v
        return r

    def mul(self, o):
        r = Poly2(self.N)
        for (i1, j1), v1 in self.t.items():
            for (i2, j2), v2 in o.t.items():
                if i1 + i2 > self.N:
                    continue
                k = (i1 + i2, j1 + j2)
                v = vmul(v1, v2)
                r.t[k] = vadd(r.t[k], v) if k in r.t else v
        return r

    def scale(self, c):
        return Poly2(self.N, {k: vmul(c, v) for k, v in self.t.items()})

    def integrate_l(self):
        """int_0^l ... dl'"""
        return Poly2(self.N, {(i, j + 1): vmul(dag.const(Fraction(1, j + 1)), v) for (i, j), v in self.t.items()})

    def power(self, n):
        r = None
        for _ in range(n):
            r = self if r is None else r.mul(self)
        return r

    def coeff_a(self, i, l):
        """coefficient of a^i as a value, with l substituted"""
        acc = None
        for (ii, j), v in self.t.items():
            if ii != i:
                continue
            term = vmul(dag.power(l, j), v) if j else v
            acc = term if acc is None else vadd(acc, term)
        return acc


def running_coupling_series(betas, N, sign=+1):
    """a(l) with a(0)=a solving da/dl = sign * sum_k betas[k] a^(k+2), as Poly2 in (a,l) through a^N"""
    cur = Poly2(N, {(1, 0): dag.ONE})
    for _ in range(N):
        rhs = Poly2(N)
        for k, b in enumerate(betas):
            if k + 2 > N:
                break
            rhs = rhs.add(cur.power(k + 2).scale(dag.mul(sign, b)))
        cur = Poly2(N, {(1, 0): dag.ONE}).add(rhs.integrate_l())
    return cur


def path_ordered_exponential(gammas, betas, N, one, sign_beta=+1):
    """K(l) = P exp int_0^l gamma(a(l')) dl', gamma(a) = sum_k gammas[k] a^(k+1), later l on the left;
    returned as Poly2 through a^N.  `one` is the unit (dag.ONE or identity Arr)."""
    al = running_coupling_series(betas, N, sign_beta)
    gam = Poly2(N)
    for k, g in enumerate(gammas):
        if k + 1 > N:
            break
        gam = gam.add(al.power(k + 1).scale_left(g) if hasattr(al, "scale_left") else _scale_left(al.power(k + 1), g))
    K = Poly2(N, {(0, 0): one})
    for _ in range(N):
        K = Poly2(N, {(0, 0): one}).add(gam.mul(K).integrate_l())
    return K


def _scale_left(p: Poly2, g):
    return Poly2(p.N, {k: vmul(g, v) for k, v in p.t.items()})
