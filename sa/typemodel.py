"""Run-time types for the partial evaluator: the part of `typing` / `inspect` / `issubclass` that eko.io.dictlike.load_field uses.

A type handed to the evaluated code is either a class of the repository (the evaluator's ClassRef) or a host Python type /
typing construct wrapped in `TV`.  The wrappers answer `__supertype__`, `__mro__`, `__args__`, calls (constructor semantics of the
built-in scalar and container types on the evaluator's values) and identity / equality against the evaluator's references to
library objects (`typing.Union`, `np.ndarray`, ...).
"""
from __future__ import annotations

import enum
import importlib
import inspect
import typing
from fractions import Fraction

from . import dag
from .arr import Arr
from .pe import ClassRef, ExtRef, Obj, Opaque, PERaise


def _resolve(q):
    """host object named by an external reference, or None"""
    mod, _, name = q.rpartition(".")
    if mod == "builtins":
        import builtins

        return getattr(builtins, name, None)
    try:
        return getattr(importlib.import_module(mod), name)
    except Exception:
        return None


class TV(Opaque):
    def __init__(self, t):
        object.__setattr__(self, "t", t)

    def __getattr__(self, name):
        t = object.__getattribute__(self, "t")
        if name == "__supertype__" and hasattr(t, "__supertype__"):
            return wrap(t.__supertype__)
        if name == "__mro__" and hasattr(t, "__mro__"):
            return tuple(TV(c) for c in t.__mro__)
        if name == "__args__" and hasattr(t, "__args__"):
            return tuple(wrap(a) for a in t.__args__)
        if name == "__name__" and hasattr(t, "__name__"):
            return t.__name__
        raise PERaise("AttributeError", f"{t!r} has no attribute {name}")

    def _same_object(self, other):
        if isinstance(other, TV):
            return other.t is self.t
        if isinstance(other, ExtRef):
            return _resolve(other.qname) is self.t
        return False

    def __eq__(self, other):
        return self._same_object(other)

    def __hash__(self):
        return hash(id(self.t))

    def __repr__(self):
        return f"TV({self.t!r})"

    def __call__(self, *a, **k):
        t = self.t
        if k and t in (int, float, str, bool, list, tuple):
            raise PERaise("TypeError", f"{t.__name__}() takes no keyword arguments")
        x = a[0] if a else None
        if t is type(None):
            raise PERaise("TypeError", "NoneType takes no arguments")
        if t is float or t is int:
            if isinstance(x, (list, tuple, dict, Arr)) or x is None or isinstance(x, Obj):
                raise PERaise("TypeError", f"{t.__name__}() argument must be a string or a real number, not '{type(x).__name__}'")
            if isinstance(x, str):
                try:
                    return Fraction(x) if t is float else int(x)
                except ValueError as e:
                    raise PERaise("ValueError", str(e))
            if isinstance(x, bool):
                return int(x) if t is int else Fraction(int(x))
            if isinstance(x, dag.Node) and dag.as_const(x) is None:
                return x
            v = Fraction(dag.as_const(x)) if isinstance(x, dag.Node) else Fraction(x)
            return int(v) if t is int else v
        if t is str:
            return x if isinstance(x, str) else str(x)
        if t is bool:
            return bool(x)
        if t is list:
            return list(x.flat() if isinstance(x, Arr) else x)
        if t is tuple:
            return tuple(x.flat() if isinstance(x, Arr) else x)
        if t is dict:
            return dict(x)
        return ("constructed", t, a, tuple(sorted(k.items())))


def install(pe):
    E = pe.ext

    def types_of(x):
        if isinstance(x, tuple):
            return [y for e in x for y in types_of(e)]
        return [x]

    def issub(p_, a, k):
        sub, sups = a[0], types_of(a[1])
        for sup in sups:
            if isinstance(sub, ClassRef):
                if isinstance(sup, ClassRef):
                    seen, stack = set(), [sub.cls]
                    while stack:
                        c = stack.pop()
                        if c.qname == sup.cls.qname:
                            return True
                        if c.qname not in seen:
                            seen.add(c.qname)
                            stack.extend(p_.src.class_bases(c))
                    continue
                host = sup.t if isinstance(sup, TV) else _resolve(sup.qname) if isinstance(sup, ExtRef) else None
                if host is enum.Enum or host is enum.IntEnum:
                    from .pe import _is_enum

                    if _is_enum(p_.src, sub.cls) and (host is enum.Enum or any("IntEnum" in ast_name for ast_name in _base_names(sub.cls))):
                        return True
                if host is object:
                    return True
                continue
            if isinstance(sub, TV):
                if not inspect.isclass(sub.t):
                    raise PERaise("TypeError", "issubclass() arg 1 must be a class")
                host = sup.t if isinstance(sup, TV) else _resolve(sup.qname) if isinstance(sup, ExtRef) else None
                if host is not None and inspect.isclass(host) and issubclass(sub.t, host):
                    return True
                if host is typing.Generic and typing.Generic in getattr(sub.t, "__mro__", ()):
                    return True
                continue
            raise PERaise("TypeError", "issubclass() arg 1 must be a class")
        return False

    def _base_names(cls):
        import ast

        return [ast.unparse(b) for b in cls.node.bases]

    E["builtins.issubclass"] = issub
    prev_type = E.get("builtins.type")

    def type_(p_, a, k):
        x = a[0]
        if x is None:
            return TV(type(None))
        if isinstance(x, TV):
            return TV(type(x.t))
        return prev_type(p_, a, k)

    E["builtins.type"] = type_
    E["typing.get_origin"] = lambda p_, a, k: (wrap(typing.get_origin(a[0].t)) if isinstance(a[0], TV) and typing.get_origin(a[0].t) is not None else None)
    E["typing.get_args"] = lambda p_, a, k: tuple(wrap(x) for x in typing.get_args(a[0].t)) if isinstance(a[0], TV) else ()
    E["inspect.isclass"] = lambda p_, a, k: isinstance(a[0], ClassRef) or (isinstance(a[0], TV) and inspect.isclass(a[0].t))

    # ---- annotations: typing subscripts over host types and repository classes ------------------------------------------------
    def host(x):
        if isinstance(x, TV):
            return x.t
        if isinstance(x, ClassRef):
            return placeholder(x)
        if isinstance(x, ExtRef):
            r = _resolve(x.qname)
            if r is None:
                raise PERaise("NameError", x.qname)
            return r
        if x is None:
            return None
        if isinstance(x, tuple):
            return tuple(host(e) for e in x)
        if x is Ellipsis:
            return x
        raise PERaise("TypeError", f"not a type: {x!r}")

    def subscript(p_, base, idx):
        b = _resolve(base.qname)
        if b is None or not (base.qname.startswith("typing.") or base.qname.startswith("numpy.typing.") or b in (list, tuple, dict, type)):
            return None
        try:
            return wrap(b[host(idx)])
        except TypeError as e:
            raise PERaise("TypeError", str(e))

    pe.typing_subscript = subscript

    def annotation(p_, owner_cls, name):
        import ast

        from .pe import Env

        node = next(st.annotation for st in owner_cls.node.body if isinstance(st, ast.AnnAssign) and isinstance(st.target, ast.Name) and st.target.id == name)
        if isinstance(node, ast.Constant) and isinstance(node.value, str):
            node = ast.parse(node.value, mode="eval").body
        v = p_.eval(node, Env(owner_cls.module))
        return v if isinstance(v, (ClassRef, TV)) else wrap(host(v))

    pe.annotation_hook = annotation
    return pe


_PLACEHOLDERS: dict = {}
_BACK: dict = {}


def placeholder(cref):
    """a host class standing for a repository class inside typing constructs (Optional[<repo class>] ...)"""
    q = cref.cls.qname
    if q not in _PLACEHOLDERS:
        ph = type(q.rsplit(".", 1)[1], (), {"__qualname__": q})
        _PLACEHOLDERS[q] = ph
        _BACK[ph] = cref
    return _PLACEHOLDERS[q]


def wrap(t):
    return _BACK[t] if isinstance(t, type) and t in _BACK else TV(t)
