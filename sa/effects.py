"""Effect analysis on the source model: who writes module state / object state / its own arguments, reachability
including properties and overrides, nondeterminism sources, hash-order dependent iteration."""
from __future__ import annotations

import ast

from .src import Func, Class, Source

MUTATORS = {"append", "extend", "insert", "pop", "remove", "clear", "update", "setdefault", "add", "discard", "sort", "reverse",
            "fill", "resize", "popitem", "put", "itemset", "setflags", "partition", "sort"}


def own_nodes(fn_node):
    """nodes lexically in the function, excluding nested defs/classes (lambdas included)"""
    stack = list(ast.iter_child_nodes(fn_node))
    while stack:
        n = stack.pop()
        yield n
        if isinstance(n, (ast.FunctionDef, ast.AsyncFunctionDef, ast.ClassDef)):
            continue
        stack.extend(ast.iter_child_nodes(n))


def root_of(node):
    """root Name of an Attribute/Subscript chain and the chain as text"""
    path = []
    while isinstance(node, (ast.Attribute, ast.Subscript, ast.Starred)):
        if isinstance(node, ast.Attribute):
            path.append(node.attr)
        node = node.value
    if isinstance(node, ast.Name):
        return node.id, list(reversed(path))
    return None, list(reversed(path))


def local_names(f: Func) -> set:
    a = f.node.args
    out = {x.arg for x in a.posonlyargs + a.args + a.kwonlyargs}
    if a.vararg:
        out.add(a.vararg.arg)
    if a.kwarg:
        out.add(a.kwarg.arg)
    glob = set()
    for n in own_nodes(f.node):
        if isinstance(n, ast.Global):
            glob.update(n.names)
        elif isinstance(n, ast.Name) and isinstance(n.ctx, (ast.Store, ast.Del)):
            out.add(n.id)
        elif isinstance(n, (ast.Import, ast.ImportFrom)):
            for al in n.names:
                out.add((al.asname or al.name).split(".")[0])
    # enclosing function locals count as local state too (closures)
    if f.parent is not None:
        out |= local_names(f.parent)
    return out - glob


def stores(f: Func):
    """(kind, target expr, node) for every write performed by statements of f:
    kind in {'rebind' (Name store), 'attr', 'item', 'call' (mutating method), 'aug'}"""
    for n in own_nodes(f.node):
        if isinstance(n, (ast.Assign, ast.AnnAssign, ast.AugAssign, ast.For, ast.With, ast.Delete)):
            tgts = []
            if isinstance(n, ast.Assign):
                tgts = n.targets
            elif isinstance(n, (ast.AnnAssign, ast.AugAssign)):
                tgts = [n.target]
            elif isinstance(n, ast.For):
                tgts = [n.target]
            elif isinstance(n, ast.With):
                tgts = [i.optional_vars for i in n.items if i.optional_vars is not None]
            elif isinstance(n, ast.Delete):
                tgts = n.targets
            flat = []
            for t in tgts:
                flat.extend(t.elts if isinstance(t, (ast.Tuple, ast.List)) else [t])
            for t in flat:
                if isinstance(t, ast.Name):
                    yield ("aug" if isinstance(n, ast.AugAssign) else "rebind"), t, n
                elif isinstance(t, ast.Attribute):
                    yield "attr", t, n
                elif isinstance(t, ast.Subscript):
                    yield "item", t, n
        elif isinstance(n, ast.Call) and isinstance(n.func, ast.Attribute) and n.func.attr in MUTATORS:
            yield "call", n.func.value, n
        elif isinstance(n, ast.NamedExpr):
            yield "rebind", n.target, n


def global_writes(src: Source, f: Func):
    """writes to module-level state from inside f: list of (qualified target, text, lineno)"""
    out = []
    loc = local_names(f)
    declared_global = {nm for n in own_nodes(f.node) if isinstance(n, ast.Global) for nm in n.names}
    for kind, t, n in stores(f):
        if kind in ("rebind", "aug"):
            if t.id in declared_global:
                out.append((f"{f.module.name}.{t.id}", ast.unparse(n)[:100], n.lineno))
            continue
        root, path = root_of(t)
        if root is None or root in loc or root in ("self", "cls"):
            continue
        q = src.resolve_name(f.module, root)
        if q is None:
            continue
        # attribute store through a module alias: constants.NC = ...
        if q in src.modules and path:
            q = f"{q}.{path[0]}"
        if q in src.funcs or q in src.classes and kind != "attr":
            continue
        if q.split(".")[0] not in ("eko", "ekore", "ekobox", "ekomark"):
            continue  # np.sort(x) and friends: a call on an external module, not a mutation of repo state
        out.append((q, " ".join(ast.unparse(n).split())[:100], n.lineno))
    return out


def self_writes(f: Func):
    """attributes of self (or cls) written by the method f: list of (attr, text, lineno)"""
    out = []
    if f.cls is None and not (f.parent and f.parent.cls):
        return out
    # local aliases of object state:  x = self.attr  /  x = self.attr[...]  (no call in between, so no copy) and  y = x
    alias = {}
    for _ in range(3):
        for n in own_nodes(f.node):
            if isinstance(n, ast.Assign) and len(n.targets) == 1 and isinstance(n.targets[0], ast.Name):
                v = n.value
                while isinstance(v, ast.Subscript):
                    v = v.value
                if isinstance(v, ast.Attribute) and isinstance(v.value, ast.Name) and v.value.id in ("self", "cls"):
                    alias[n.targets[0].id] = v.attr
                elif isinstance(v, ast.Name) and v.id in alias:
                    alias[n.targets[0].id] = alias[v.id]
    for kind, t, n in stores(f):
        if kind == "aug" and isinstance(n.target, ast.Name):
            continue
        if kind == "rebind":
            continue
        root, path = root_of(t)
        if root in alias and kind in ("item", "attr", "call"):
            out.append((alias[root], " ".join(ast.unparse(n).split())[:100] + f"  [through the alias `{root}` of self.{alias[root]}]", n.lineno))
            continue
        if root in ("self", "cls") and path:
            out.append((path[0], " ".join(ast.unparse(n).split())[:100], n.lineno))
        elif root in ("self", "cls") and kind == "item":
            out.append(("[]", " ".join(ast.unparse(n).split())[:100], n.lineno))
    return out


def subclasses(src: Source, c: Class):
    out = []
    for d in src.classes.values():
        if d is not c and c in _all_bases(src, d):
            out.append(d)
    return out


def _all_bases(src, c, seen=None):
    seen = seen if seen is not None else []
    for b in src.class_bases(c):
        if b not in seen:
            seen.append(b)
            _all_bases(src, b, seen)
    return seen


_EDGES: dict = {}


def typed_callgraph(src: Source):
    """call graph with receiver types from annotated fields, annotated parameters and `x = Class(...)` assignments"""
    if id(src) in _EDGES:
        return _EDGES[id(src)]
    fcache: dict = {}

    def class_field_types(c):
        """'self.x' -> class, from annotated class-level fields (and bases), from `self.x = <annotated parameter>` and
        `self.x = Class(...)` in __init__, and one level down through typed fields ('self.x.y')"""
        if c.qname in fcache:
            return fcache[c.qname]
        ft = dict(src.field_types(c))
        for cls in [c] + list(_all_bases(src, c)):
            init = cls.methods.get("__init__")
            if init is None:
                continue
            ann = {}
            for p in init.node.args.args + init.node.args.kwonlyargs:
                if p.annotation is not None:
                    d = src.dotted(p.annotation)
                    q = src.resolve_name(init.module, d) if d else None
                    if q in src.classes:
                        ann[p.arg] = q
            for n in own_nodes(init.node):
                if isinstance(n, ast.Assign) and len(n.targets) == 1 and isinstance(n.targets[0], ast.Attribute) \
                        and isinstance(n.targets[0].value, ast.Name) and n.targets[0].value.id == "self":
                    key = f"self.{n.targets[0].attr}"
                    if isinstance(n.value, ast.Name) and n.value.id in ann:
                        ft.setdefault(key, ann[n.value.id])
                    elif isinstance(n.value, ast.Call):
                        d = src.dotted(n.value.func)
                        q = src.resolve_name(init.module, d) if d else None
                        if q in src.classes:
                            ft.setdefault(key, q)
        fcache[c.qname] = ft
        for key, q in list(ft.items()):
            if key.count(".") == 1 and q in src.classes and src.classes[q] is not c:
                for k2, q2 in src.field_types(src.classes[q]).items():
                    ft.setdefault(key + k2[len("self"):], q2)
        return ft

    def local_types_for(f):
        out = {}
        c = f.cls or (f.parent.cls if f.parent else None)
        if c is not None:
            out.update(class_field_types(c))
        a = f.node.args
        for p in a.posonlyargs + a.args + a.kwonlyargs:
            if p.annotation is not None:
                d = src.dotted(p.annotation)
                q = src.resolve_name(f.module, d) if d else None
                if q in src.classes:
                    out[p.arg] = q
        for n in own_nodes(f.node):
            if isinstance(n, ast.Assign) and len(n.targets) == 1 and isinstance(n.targets[0], ast.Name) and isinstance(n.value, ast.Call):
                d = src.dotted(n.value.func)
                q = src.resolve_name(f.module, d) if d else None
                if q in src.classes:
                    out[n.targets[0].id] = q
            elif isinstance(n, ast.Assign) and len(n.targets) == 1 and isinstance(n.targets[0], ast.Name) and isinstance(n.value, ast.Attribute):
                d = src.dotted(n.value)          # sc = self.managers.couplings
                if d in out:
                    out[n.targets[0].id] = out[d]
        return out

    _EDGES[id(src)] = src.callgraph(local_types_for)[0]
    return _EDGES[id(src)]


def reach(src: Source, roots, edges=None, follow_overrides=True):
    """call-graph closure extended with property loads (self.x where x is a method: property / cached) and overrides in
    subclasses of the class a method belongs to."""
    if edges is None:
        edges = typed_callgraph(src)
    seen = set()
    stack = list(roots)
    while stack:
        q = stack.pop()
        if q in seen or q not in src.funcs:
            continue
        seen.add(q)
        f = src.funcs[q]
        stack.extend(edges.get(q, ()))
        # function references passed around (functools.partial(quad_ker, ...), callbacks)
        for n in own_nodes(f.node):
            if isinstance(n, (ast.Name, ast.Attribute)) and isinstance(getattr(n, "ctx", None), ast.Load):
                d = src.dotted(n)
                if d and not d.startswith(("self.", "cls.")):
                    q2 = src.resolve_name(f.module, d)
                    if q2 in src.funcs:
                        stack.append(q2)
        cls = f.cls or (f.parent.cls if f.parent else None)
        if cls is not None:
            for n in own_nodes(f.node):
                if isinstance(n, ast.Attribute) and isinstance(n.value, ast.Name) and n.value.id in ("self", "cls"):
                    cands = [cls] + (subclasses(src, cls) if follow_overrides else [])
                    for c in cands:
                        g = src.find_method(c, n.attr)
                        if g is not None:
                            stack.append(g.qname)
        if follow_overrides and f.cls is not None:
            for d in subclasses(src, f.cls):
                if f.node.name in d.methods:
                    stack.append(d.methods[f.node.name].qname)
    return seen


# ---- argument mutation summaries -------------------------------------------------------------------------------------------

def param_mutations(src: Source, funcs=None, edges_resolver=None):
    """fixpoint summary: qname -> set of parameter names the function may mutate in place (directly, through a local alias /
    view, or by passing it to a callee that mutates the corresponding parameter)."""
    funcs = funcs if funcs is not None else list(src.funcs.values())
    summ = {f.qname: set() for f in funcs}
    alias = {}
    for f in funcs:
        params = set(f.params) | {a.arg for a in f.node.args.kwonlyargs}
        al = {p: p for p in params}
        # one pass of simple aliases: q = p | q = p[...] | q = p.T | q = np.asarray(p) (views, not copies)
        for n in own_nodes(f.node):
            if isinstance(n, ast.Assign) and len(n.targets) == 1 and isinstance(n.targets[0], ast.Name):
                v = n.value
                while isinstance(v, (ast.Subscript, ast.Attribute)):
                    v = v.value
                if isinstance(v, ast.Name) and v.id in al and n.targets[0].id not in params:
                    if not isinstance(n.value, ast.Call):
                        al[n.targets[0].id] = al[v.id]
        alias[f.qname] = al
        for kind, t, n in stores(f):
            if kind == "rebind":
                continue
            if kind == "aug":
                # x += y on a parameter mutates arrays in place
                if t.id in params:
                    summ[f.qname].add(("aug", t.id))
                continue
            root, _ = root_of(t)
            if root in al and root not in ("self", "cls"):
                summ[f.qname].add(("w", al[root]))
    changed = True
    while changed:
        changed = False
        for f in funcs:
            al = alias[f.qname]
            for c in src.calls_in(f):
                r = src.resolve_call(f, c)
                if not isinstance(r, Func) or r.qname not in summ:
                    continue
                mut = {p for k, p in summ[r.qname] if k == "w"}
                if not mut:
                    continue
                rp = r.params[1:] if (r.cls is not None and r.params[:1] == ["self"]) else r.params
                pairs = list(zip(rp, c.args)) + [(k.arg, k.value) for k in c.keywords if k.arg]
                for p, a in pairs:
                    if p in mut:
                        v = a
                        while isinstance(v, (ast.Subscript, ast.Attribute)):
                            v = v.value
                        if isinstance(v, ast.Name) and v.id in al and ("w", al[v.id]) not in summ[f.qname]:
                            summ[f.qname].add(("w", al[v.id]))
                            changed = True
    return summ


# ---- hash-order dependent iteration ------------------------------------------------------------------------------------------

def _is_strish(e, strnames=()):
    if isinstance(e, ast.Constant):
        return isinstance(e.value, (str, bytes))
    if isinstance(e, ast.JoinedStr):
        return True
    if isinstance(e, ast.BinOp) and isinstance(e.op, (ast.Add, ast.Mod)):
        return _is_strish(e.left, strnames) or _is_strish(e.right, strnames)
    if isinstance(e, ast.Call):
        if isinstance(e.func, ast.Name) and e.func.id in ("str", "repr", "chr"):
            return True
        if isinstance(e.func, ast.Attribute) and e.func.attr in ("format", "join", "lower", "upper", "strip", "replace"):
            return True
    if isinstance(e, ast.Tuple):
        return any(_is_strish(x, strnames) for x in e.elts)
    if isinstance(e, ast.Name):
        return e.id in strnames
    return False


def _strish_iterable(e, env):
    """iterable expression whose elements are provably strings"""
    if isinstance(e, (ast.List, ast.Tuple, ast.Set)):
        return bool(e.elts) and all(_is_strish(x) for x in e.elts)
    if isinstance(e, ast.Dict):
        return bool(e.keys) and all(k is not None and _is_strish(k) for k in e.keys)
    if isinstance(e, ast.Constant) and isinstance(e.value, str):
        return True
    if isinstance(e, (ast.ListComp, ast.SetComp, ast.GeneratorExp)):
        strn = {g.target.id for g in e.generators if isinstance(g.target, ast.Name) and _strish_iterable(g.iter, env)}
        return _is_strish(e.elt, strn)
    if isinstance(e, ast.Name):
        return env.get(e.id) == "striter"
    if isinstance(e, ast.Call) and isinstance(e.func, ast.Attribute) and e.func.attr in ("keys", "split", "splitlines"):
        if e.func.attr != "keys":
            return True
        return _strish_iterable(e.func.value, env)
    return False


def _set_kind(e, env):
    """'str' if e is a set whose elements are provably str-like, 'set' if it is some set, None otherwise"""
    if isinstance(e, ast.Set):
        return "str" if any(_is_strish(x) for x in e.elts) else "set"
    if isinstance(e, ast.SetComp):
        strn = {g.target.id for g in e.generators if isinstance(g.target, ast.Name) and _strish_iterable(g.iter, env)}
        return "str" if _is_strish(e.elt, strn) else "set"
    if isinstance(e, ast.Call) and isinstance(e.func, ast.Name) and e.func.id in ("set", "frozenset"):
        if e.args and _strish_iterable(e.args[0], env):
            return "str"
        if e.args and isinstance(e.args[0], ast.Name) and env.get(e.args[0].id) in ("str", "striter"):
            return "str"
        return "set"
    if isinstance(e, ast.BinOp) and isinstance(e.op, (ast.BitOr, ast.BitAnd, ast.Sub, ast.BitXor)):
        l, r = _set_kind(e.left, env), _set_kind(e.right, env)
        if l or r:
            return "str" if "str" in (l, r) else "set"
    if isinstance(e, ast.Call) and isinstance(e.func, ast.Attribute) and e.func.attr in ("union", "intersection", "difference", "symmetric_difference", "copy"):
        return _set_kind(e.func.value, env)
    if isinstance(e, ast.Name):
        k = env.get(e.id)
        return k if k in ("str", "set") else None
    return None


ORDER_SINKS = ("list", "tuple", "enumerate", "zip", "iter", "next", "dict", "array", "asarray", "fromiter", "join", "map", "reduce", "sum", "fsum", "extend",
               "fromkeys", "concatenate", "stack", "deque", "chain")


def set_iterations(fn_node, module_env=None):
    """order-dependent uses of sets inside a function (or module) node: list of (kind, text, lineno) with kind 'str'/'set'."""
    env = dict(module_env or {})
    # flow-insensitive local environment: name -> kind
    for _ in range(2):
        for n in ast.walk(fn_node):
            if isinstance(n, ast.Assign) and len(n.targets) == 1 and isinstance(n.targets[0], ast.Name):
                k = _set_kind(n.value, env)
                if k:
                    # flow-insensitive join: a name that holds a set of strings on one path is treated as one on all
                    env[n.targets[0].id] = "str" if "str" in (k, env.get(n.targets[0].id)) else k
                elif _strish_iterable(n.value, env):
                    env[n.targets[0].id] = "striter"
            elif isinstance(n, ast.AnnAssign) and isinstance(n.target, ast.Name):
                a = ast.unparse(n.annotation)
                if a.startswith(("Set[", "set[", "FrozenSet[", "frozenset[")) or a in ("set", "frozenset"):
                    env[n.target.id] = "str" if "str" in a else "set"
    out = []
    for n in ast.walk(fn_node):
        its = []
        if isinstance(n, (ast.For, ast.AsyncFor)):
            its.append(n.iter)
        elif isinstance(n, (ast.ListComp, ast.GeneratorExp, ast.DictComp, ast.SetComp)):
            # a set built from a set is again unordered: only order-keeping results count
            if not isinstance(n, ast.SetComp):
                its.extend(g.iter for g in n.generators)
        elif isinstance(n, ast.Call):
            nm = n.func.id if isinstance(n.func, ast.Name) else (n.func.attr if isinstance(n.func, ast.Attribute) else None)
            if nm in ORDER_SINKS:
                its.extend(n.args[:2])
            if isinstance(n.func, ast.Attribute) and n.func.attr == "pop" and not n.args and _set_kind(n.func.value, env):
                its.append(n.func.value)
        elif isinstance(n, ast.Starred):
            its.append(n.value)
        for it in its:
            k = _set_kind(it, env)
            if k:
                out.append((k, " ".join(ast.unparse(n).split())[:120], getattr(n, "lineno", 0)))
    return out


# ---- nondeterminism sources -----------------------------------------------------------------------------------------------------

NONDET = {"time.time", "time.perf_counter", "time.monotonic", "time.process_time", "time.time_ns", "time.perf_counter_ns",
          "datetime.datetime.now", "datetime.datetime.utcnow", "datetime.datetime.today", "datetime.date.today",
          "os.getpid", "os.urandom", "uuid.uuid1", "uuid.uuid4", "id", "os.times", "socket.gethostname", "getpass.getuser",
          "platform.node"}
NONDET_PREFIX = ("random.", "numpy.random.", "secrets.")


def nondet_calls(src: Source, f: Func):
    """calls of nondeterminism sources in f with a verdict whether the value only reaches logging:
    list of (source, lineno, only_logged: bool, text)"""
    out = []
    log_calls = []
    for n in own_nodes(f.node):
        if isinstance(n, ast.Call) and isinstance(n.func, ast.Attribute) and isinstance(n.func.value, ast.Name) \
                and n.func.value.id in ("logger", "logging", "log", "_logger", "warnings"):
            log_calls.append(n)
    in_log = set()
    for lc in log_calls:
        for x in ast.walk(lc):
            in_log.add(id(x))
    for n in own_nodes(f.node):
        if not isinstance(n, ast.Call):
            continue
        d = src.dotted(n.func)
        if d is None:
            continue
        q = src.resolve_name(f.module, d) or d
        if not (q in NONDET or q.startswith(NONDET_PREFIX) or (d == "id" and "id" not in local_names(f))):
            continue
        if d == "hash":
            continue
        if id(n) in in_log:
            out.append((q, n.lineno, True, ast.unparse(n)))
            continue
        # assigned to a local name whose every load is inside a logging call?
        holder = None
        for st in own_nodes(f.node):
            if isinstance(st, ast.Assign) and len(st.targets) == 1 and isinstance(st.targets[0], ast.Name) and st.value is n:
                holder = st.targets[0].id
        ok = False
        if holder is not None:
            loads = [x for x in own_nodes(f.node) if isinstance(x, ast.Name) and x.id == holder and isinstance(x.ctx, ast.Load)]
            ok = all(id(x) in in_log for x in loads)
        out.append((q, n.lineno, ok, ast.unparse(n)))
    return out


def return_exprs(fn_node):
    """expressions a function returns; a returned local name with a single assignment stands for the assigned expression
    (`tmp = EXPR; return tmp` is `return EXPR`)"""
    out = []
    for r in own_nodes(fn_node):
        if not isinstance(r, ast.Return) or r.value is None:
            continue
        v = r.value
        if isinstance(v, ast.Name):
            defs = [n.value for n in own_nodes(fn_node) if isinstance(n, ast.Assign) and len(n.targets) == 1
                    and isinstance(n.targets[0], ast.Name) and n.targets[0].id == v.id]
            if len(defs) >= 1:
                # the definition that precedes the return most closely
                before = [d for d in defs if d.lineno <= r.lineno]
                v = (before or defs)[-1]
        out.append(v)
    return out
