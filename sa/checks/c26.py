"""C26 - anomalous dimensions and matching elements are real-analytic in N (sufficient-condition effect analysis)."""
from __future__ import annotations

import ast
import collections

from .. import effects as E
from ..src import load, Func

LEVEL = "proof"
META = {
    "text": "A function built from real-coefficient rational operations and real-analytic atoms (log, exp, polygamma of its argument, "
            "...) satisfies f(conj N) = conj f(N) and is real for real N. Decided over every function of ekore that receives the "
            "Mellin moment or values derived from it (taint propagated through assignments and call arguments to a fixpoint, "
            "from the dispatchers' `n`): (1) no complex literal with a non-zero imaginary part, no complex(a, b) with b != 0; "
            "(2) no conj / real / imag / abs / angle (function or attribute) applied to a moment-derived value; (3) no branch, "
            "loop condition or conditional expression on a moment-derived value - except the memoisation idiom "
            "np.isnan(cache[...]) whose two arms yield the same value; (4) no power of a negative constant with a "
            "moment-derived exponent ((-1)**N = e^{i pi N} is not real-analytic) outside the `is_singlet is None` arm of "
            "symmetry_factor, and that arm is unreachable: every lookup of a parity-dependent harmonic sum (keys whose "
            "computation reads the flag, determined from cache.get) and every direct call of a function taking the flag passes "
            "a definite boolean - a literal, or the caller's own flag, recursively - and all parity-dependent lookups on one "
            "cache inside one function use one flag. Audited exceptions, one symbol each with its reason, are listed in the "
            "evidence: cern_polygamma (switches between analytic pieces by region; each piece and the reflection formula are "
            "real-analytic) and the two removable-singularity guards at N = 1 of the three-loop valence anomalous dimensions.",
    "note": "A sufficient condition: code that passes is real-analytic; the audited kernels are trusted as named.",
    "technique": "interprocedural taint (moment-derived values) + effect rules on the AST + definite-flag dataflow over call sites",
    "engine": "sa",
}

AUDITED = {
    "ekore.harmonics.polygamma.cern_polygamma": "region switches (X < 0 reflection, small |N| recurrence) between pieces that are each real-analytic; "
                                                 "conj-symmetric because the regions are symmetric under N -> conj N",
    "ekore.anomalous_dimensions.unpolarized.space_like.as3.gamma_nsv": "removable singularity at N = 1: the guard selects the analytic limit",
    "ekore.anomalous_dimensions.unpolarized.time_like.as3.gamma_nsv": "removable singularity at N = 1: the guard selects the analytic limit",
}
NONANALYTIC_FUNCS = {"numpy.conj", "numpy.conjugate", "numpy.real", "numpy.imag", "numpy.abs", "numpy.absolute", "abs", "numpy.angle", "numpy.fabs"}
NONANALYTIC_ATTRS = {"real", "imag", "conjugate", "conj"}
SEEDS = {"n", "N", "cache"}


def taint(src, funcs):
    """qname -> set of tainted local names (parameters included), fixpoint over call sites"""
    tainted = {q: {p for p in f.params if p in SEEDS} for q, f in funcs.items()}
    assigns = {}
    for q, f in funcs.items():
        lst = []
        for n in E.own_nodes(f.node):
            if isinstance(n, ast.Assign):
                tg = []
                for t in n.targets:
                    for el in (t.elts if isinstance(t, (ast.Tuple, ast.List)) else [t]):
                        root = E.root_of(el)[0] if isinstance(el, (ast.Subscript, ast.Attribute)) else (el.id if isinstance(el, ast.Name) else None)
                        if root:
                            tg.append(root)
                lst.append((tg, n.value))
            elif isinstance(n, ast.AugAssign) and isinstance(n.target, ast.Name):
                lst.append(([n.target.id], n.value))
            elif isinstance(n, (ast.For,)):
                lst.append(([x.id for x in ast.walk(n.target) if isinstance(x, ast.Name)], n.iter))
        assigns[q] = lst
    calls = {q: [(c, src.resolve_call(f, c)) for c in src.calls_in(f)] for q, f in funcs.items()}
    changed = True
    while changed:
        changed = False
        for q, f in funcs.items():
            tq = tainted[q]
            # local propagation
            loc = True
            while loc:
                loc = False
                for tg, val in assigns[q]:
                    if any(isinstance(x, ast.Name) and x.id in tq for x in ast.walk(val)):
                        for name in tg:
                            if name not in tq:
                                tq.add(name)
                                loc = changed = True
            for c, r in calls[q]:
                if not isinstance(r, Func) or r.qname not in funcs:
                    continue
                rp = r.params
                pairs = list(zip(rp, c.args)) + [(k.arg, k.value) for k in c.keywords if k.arg]
                for p, a in pairs:
                    if any(isinstance(x, ast.Name) and x.id in tq for x in ast.walk(a)) and p not in tainted[r.qname]:
                        tainted[r.qname].add(p)
                        changed = True
    return tainted


def run(chk):
    src = load()
    chk.rule_text = "no non-analytic operation, branch or negative-base power on moment-derived values; parity flag always definite"
    funcs = {q: f for q, f in src.funcs.items() if q.startswith("ekore.") and f.parent is None}
    chk.floor("ekore functions", len(funcs), 230)
    tn = taint(src, funcs)
    n_tainted = sum(1 for q in tn if tn[q])
    chk.floor("functions receiving moment-derived values", n_tainted, 200)
    used_audit = set()
    counts = collections.Counter()

    def mentions(node, names):
        return any(isinstance(x, ast.Name) and x.id in names for x in ast.walk(node))

    for q, f in funcs.items():
        t = tn[q]
        audited = q in AUDITED
        for n in E.own_nodes(f.node):
            # (1) complex literals
            if isinstance(n, ast.Constant) and isinstance(n.value, complex) and n.value.imag != 0:
                counts["complex"] += 1
                chk.fail("no-imaginary-constants", q, f"complex literal {n.value!r}", where=f"{f.module.relpath}:{n.lineno}", instance=repr(n.value))
            if isinstance(n, ast.Call) and isinstance(n.func, ast.Name) and n.func.id == "complex" and len(n.args) == 2:
                b = n.args[1]
                if not (isinstance(b, ast.Constant) and b.value == 0):
                    counts["complex"] += 1
                    if audited:
                        used_audit.add(q)
                        continue
                    chk.fail("no-imaginary-constants", q, f"`{ast.unparse(n)}` introduces an imaginary part", where=f"{f.module.relpath}:{n.lineno}",
                             instance=ast.unparse(n)[:40])
            if not t:
                continue
            # (2) non-analytic operations
            if isinstance(n, ast.Call):
                d = src.dotted(n.func) or ""
                d = src.resolve_name(f.module, d) or d          # through the module's import table: `np.conj` is numpy.conj under any alias
                if d in NONANALYTIC_FUNCS and any(mentions(a, t) for a in n.args):
                    counts["nonanalytic"] += 1
                    if audited:
                        used_audit.add(q)
                    else:
                        chk.fail("no-non-analytic-operations", q, f"`{ast.unparse(n)[:60]}` is applied to a value derived from the Mellin moment",
                                 where=f"{f.module.relpath}:{n.lineno}", instance=ast.unparse(n)[:40])
            if isinstance(n, ast.Attribute) and n.attr in NONANALYTIC_ATTRS and mentions(n.value, t):
                counts["nonanalytic"] += 1
                if audited:
                    used_audit.add(q)
                else:
                    chk.fail("no-non-analytic-operations", q, f"`{ast.unparse(n)[:60]}` takes the real/imaginary part or conjugate of a moment-derived "
                             f"value", where=f"{f.module.relpath}:{n.lineno}", instance=ast.unparse(n)[:40])
            # (3) branches
            if isinstance(n, (ast.If, ast.While, ast.IfExp)) and mentions(n.test, t):
                txt = ast.unparse(n.test)
                memo = all(isinstance(c, ast.Call) and src.resolve_name(f.module, src.dotted(c.func) or "") == "numpy.isnan"
                           for c in ([n.test.operand] if isinstance(n.test, ast.UnaryOp) and isinstance(n.test.op, ast.Not) else [n.test]))
                index_only = not any(isinstance(x, ast.Name) and x.id in t and x.id not in ("cache",) for x in ast.walk(n.test)) and "len(cache)" in txt
                counts["branch"] += 1
                if memo or index_only:
                    continue
                if audited:
                    used_audit.add(q)
                    continue
                chk.fail("no-branch-on-the-moment", q, f"`{txt[:70]}` branches on a value derived from the Mellin moment: the function is only "
                         f"piecewise analytic", where=f"{f.module.relpath}:{n.lineno}", instance=txt[:40])
            # (4) negative constant base
            if isinstance(n, ast.BinOp) and isinstance(n.op, ast.Pow) and mentions(n.right, t):
                base = n.left
                neg = (isinstance(base, ast.UnaryOp) and isinstance(base.op, ast.USub) and isinstance(base.operand, ast.Constant)) or \
                      (isinstance(base, ast.Constant) and isinstance(base.value, (int, float)) and base.value < 0)
                if neg:
                    counts["negpow"] += 1
                    guard = _enclosing_tests(f.node, n)
                    if not any("is_singlet is None" in g for g in guard):
                        chk.fail("no-negative-base-power", q, f"`{ast.unparse(n)}`: a negative constant to a moment-dependent power is e^(i pi N), not "
                                 f"real-analytic", where=f"{f.module.relpath}:{n.lineno}", instance=ast.unparse(n)[:40])
    for rule in ("no-imaginary-constants", "no-non-analytic-operations", "no-branch-on-the-moment", "no-negative-base-power"):
        chk.ok(rule, "ekore", f"{n_tainted} functions with moment-derived values; sites seen: {dict(counts)}", how="taint + effect rule")
    chk.decide(used_audit <= set(AUDITED) and len(used_audit) >= 2, "audited-exceptions-still-exist", "ekore", f"audited exceptions in use: {sorted(used_audit)}",
               detail="; ".join(f"{k}: {v}" for k, v in AUDITED.items()))
    chk.floor("negative-base powers seen (symmetry_factor)", counts["negpow"], 1)
    # ---- definite parity flag ------------------------------------------------------------------------------------------------------
    n_sites = parity_rule(chk, src, tn)
    chk.note(tainted_functions=n_tainted, sites=dict(counts), flag_sites=dict(n_sites), audited=AUDITED, files=["src/ekore/**"])
    chk.explanation = "Taint from the Mellin moment; effect rules; definite parity flag at every parity-dependent lookup."


def parity_rule(chk, src, tn, scope=("ekore.", "eko."), rule="parity-flag-is-definite", floors=True):
    """every call that reaches a parity-dependent harmonic sum passes a definite parity flag (shared with C29 for the matching
    elements): literal boolean, the caller's own flag, or a local computed from configuration values"""
    fget = src.func("ekore.harmonics.cache.get")
    parity_keys = set()
    for n in ast.walk(fget.node):
        if isinstance(n, ast.If) and isinstance(n.test, ast.Compare) and len(n.test.ops) == 1 and isinstance(n.test.ops[0], ast.Eq) \
                and "key" in (ast.unparse(n.test.left), ast.unparse(n.test.comparators[0])):
            key = ast.unparse(n.test.comparators[0] if ast.unparse(n.test.left) == "key" else n.test.left)
            if any(isinstance(x, ast.Name) and x.id == "is_singlet" for st in n.body for x in ast.walk(st)):
                parity_keys.add(key)
    chk.floor("parity-dependent keys", len(parity_keys), 8)
    flagged = {q: f for q, f in src.funcs.items() if q.startswith("ekore.") and "is_singlet" in f.params}
    chk.floor("functions taking the parity flag", len(flagged), 12)
    n_sites = collections.Counter()
    per_func_flags = collections.defaultdict(set)
    for q, f in src.funcs.items():
        if not q.startswith(tuple(scope)):
            continue
        for c in src.calls_in(f):
            r = src.resolve_call(f, c)
            if not (isinstance(r, Func) and r.qname in flagged):
                continue
            val = src.call_arg(r, c, "is_singlet")
            is_get = r.qname == fget.qname
            key_arg = src.call_arg(r, c, fget.params[0]) if is_get else None
            key = ast.unparse(key_arg).split(".")[-1] if key_arg is not None else None
            if is_get and key not in parity_keys:
                n_sites["parity-independent lookup"] += 1
                continue
            where = f"{f.module.relpath}:{c.lineno}"
            if val is None or (isinstance(val, ast.Constant) and val.value is None):
                # symmetry_factor's own recursion guard
                n_sites["omitted"] += 1
                chk.fail(rule, q, f"`{ast.unparse(c)[:70]}` does not pass the parity flag: the callee falls back to (-1)**N, "
                         f"which is not real-analytic", where=where, instance=f"{r.qname.split('.')[-1]}:{key or ''}")
            elif isinstance(val, ast.Constant) and isinstance(val.value, bool):
                n_sites[str(val.value)] += 1
                if is_get:
                    cache_arg = src.call_arg(r, c, fget.params[1])
                    per_func_flags[(q, ast.unparse(cache_arg) if cache_arg is not None else "")].add(val.value)
            elif isinstance(val, ast.Name) and val.id == "is_singlet" and "is_singlet" in f.params:
                n_sites["pass-through"] += 1
            elif isinstance(val, ast.Name) and _definite_local(f, val.id, tn.get(q, set())):
                n_sites["computed boolean"] += 1
            else:
                n_sites["other"] += 1
                chk.fail(rule, q, f"`{ast.unparse(c)[:70]}` passes `{ast.unparse(val)}` as parity flag: not a literal boolean nor the "
                         f"caller's own flag", where=where, instance=f"{r.qname.split('.')[-1]}:{key or ''}")
    if not n_sites["omitted"] and not n_sites["other"]:
        chk.ok(rule, "ekore", f"call sites: {dict(n_sites)}", how="definite-flag dataflow")
    if floors:
        chk.floor("definite parity flags", n_sites["True"] + n_sites["False"] + n_sites["pass-through"], 60)
    mixed = {k: v for k, v in per_func_flags.items() if len(v) > 1}
    chk.decide(not mixed, "one-parity-per-cache", "ekore", f"parity-dependent lookups on one cache with both flags: {sorted(mixed)[:3]}: a slot filled under "
               f"one parity is read under the other", how="call-site rule")
    return n_sites


def _definite_local(f, name, tainted):
    """`name` is a local assigned only from boolean literals or comparisons of configuration values (never None, never N-derived)"""
    defs = [n for n in E.own_nodes(f.node) if isinstance(n, ast.Assign) and any(isinstance(t, ast.Name) and t.id == name for t in n.targets)]
    if not defs:
        return False
    for d in defs:
        v = d.value
        if isinstance(v, ast.Constant) and isinstance(v.value, bool):
            continue
        if isinstance(v, (ast.Compare, ast.BoolOp)) or (isinstance(v, ast.UnaryOp) and isinstance(v.op, ast.Not)):
            if not any(isinstance(x, ast.Name) and x.id in tainted for x in ast.walk(v)):
                continue
        return False
    return True


def _enclosing_tests(fn_node, target):
    out = []

    def walk(node, tests):
        for ch in ast.iter_child_nodes(node):
            if ch is target:
                out.extend(tests)
                return True
            t2 = tests
            if isinstance(ch, ast.If):
                t2 = tests + [ast.unparse(ch.test)]
            if walk(ch, t2):
                return True
        return False

    walk(fn_node, [])
    return out
