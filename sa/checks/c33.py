"""C33 - threshold flavour rotations are mutually inverse and flavour-consistent (exhaustive, exact)."""
from __future__ import annotations

from fractions import Fraction

from .. import dag
from ..arr import Arr
from ..pe import PE, PERaise
from ..src import load

LEVEL = "proof"
META = {
    "text": "rotate_matching(nf, qed, inverse) is partially evaluated for every nf crossing 4, 5, 6 in QCD and QED, forward and "
            "inverse. Decided exactly (rationals): (1) the forward and the inverse coefficient maps compose to the identity on "
            "the label sets in both orders; (2) flavour consistency: for every distribution of the new evolution basis, the "
            "combination of old-basis distributions (taken with nf-1 active flavours) and the heavy quark's plus/minus "
            "combinations prescribed by the forward map has exactly the flavour content of that distribution with nf active "
            "flavours, where flavour contents come from the source's own pids_from_intrinsic_(unified_)evol tables; (3) labels "
            "of heavier, still inactive quarks are passed through unchanged."
            " Both request orders (direct first / inverse first) and a repeated request give the same maps (rule rotation-independent-of-earlier-requests).",
    "note": "Exhaustive over the six crossings; exact arithmetic on values extracted from the source. The flavour-content tables "
            "themselves are cross-checked against the rotation matrices under C32.",
    "technique": "partial evaluation over the finite configuration space + exact linear algebra",
    "engine": "sa",
}

FL = "eko.evolution_operator.flavors"


def _c(x):
    v = dag.as_const(x)
    if v is None:
        raise ValueError(f"non-constant coefficient {x!r}")
    return v


def run(chk):
    src = load()
    pe = PE(src)
    chk.rule_text = "inverse o forward = id ; sum_k m[new.k] content(k, nf-1) = content(new, nf)"
    frm = src.func(f"{FL}.rotate_matching")
    n_inst = 0
    for qed in (False, True):
        content_fn = f"{FL}.pids_from_intrinsic_unified_evol" if qed else f"{FL}.pids_from_intrinsic_evol"
        for nf in (4, 5, 6):
            inst = f"nf={nf},qed={qed}"
            n_inst += 1
            try:
                fwd = pe.call(frm.qname, [nf, qed, False])
                inv = pe.call(frm.qname, [nf, qed, True])
            except PERaise as e:
                chk.fail("rotation-available", frm.qname, f"rotate_matching raises {e} ({inst})", where=frm.where, instance=inst)
                continue
            F = {tuple(k.split(".")): _c(v) for k, v in fwd.items()}
            I = {tuple(k.split(".")): _c(v) for k, v in inv.items()}
            # each map is the same whichever of the two was asked first in the process (an evaluator that asks in the other order, and
            # one that asks for each map twice): entries left behind by an earlier request would connect the wrong pair of bases
            try:
                pe_b = PE(src)
                inv_b = pe_b.call(frm.qname, [nf, qed, True])
                fwd_b = pe_b.call(frm.qname, [nf, qed, False])
                inv_c = pe_b.call(frm.qname, [nf, qed, True])
                same = all({k: _c(v) for k, v in x.items()} == {k: _c(v) for k, v in y.items()} for x, y in ((fwd, fwd_b), (inv, inv_b), (inv_b, inv_c)))
                extra = sorted((set(fwd) ^ set(fwd_b)) | (set(inv) ^ set(inv_b)) | (set(inv_b) ^ set(inv_c)))[:4]
            except PERaise as e:
                same, extra = False, [f"raises {e}"]
            chk.decide(same, "rotation-independent-of-earlier-requests", frm.qname,
                       f"{inst}: the direct / inverse map differs according to which of them was requested first in the process (entries that differ: "
                       f"{extra}): something written into a shared table by one request shows up in the other", where=frm.where, instance=inst,
                       how="PE of the two request orders in separate evaluators")
            new_labels = sorted({o for o, _ in F})
            old_labels = sorted({i for _, i in F})
            # (1) composition both ways
            bad = None
            for a in old_labels:
                for b in old_labels:
                    s = sum(I.get((a, k), 0) * F.get((k, b), 0) for k in new_labels)
                    if s != (1 if a == b else 0):
                        bad = ("inverse*forward", a, b, s)
            for a in new_labels:
                for b in new_labels:
                    s = sum(F.get((a, k), 0) * I.get((k, b), 0) for k in old_labels)
                    if s != (1 if a == b else 0):
                        bad = ("forward*inverse", a, b, s)
            chk.decide(bad is None and len(new_labels) == len(old_labels), "rotations-mutually-inverse", frm.qname,
                       f"{inst}: {bad[0] if bad else 'label sets differ in size'}: entry ({bad[1] if bad else ''},{bad[2] if bad else ''}) = "
                       f"{bad[3] if bad else ''} instead of the identity", where=frm.where, instance=inst,
                       detail=f"{len(new_labels)} labels", how="exact")
            # (2) flavour consistency
            def content(label, n):
                w = pe.call(content_fn, [label, n, False])
                return [_c(x) for x in w.flat()]

            badf = None
            for new in new_labels:
                try:
                    want = content(new, nf)
                    got = [Fraction(0)] * 14
                    for old in old_labels:
                        cf = F.get((new, old), 0)
                        if cf == 0:
                            continue
                        w = content(old, nf - 1)
                        got = [g + cf * x for g, x in zip(got, w)]
                except PERaise as e:
                    badf = (new, f"flavour content not available: {e}", None)
                    break
                if got != want:
                    badf = (new, [str(x) for x in got], [str(x) for x in want])
                    break
            chk.decide(badf is None, "rotation-reproduces-flavour-content", frm.qname,
                       f"{inst}: the forward rotation gives {badf[0] if badf else ''} the flavour content {badf[1] if badf else ''} "
                       f"but with {nf} active flavours it is {badf[2] if badf else ''} (order: ph, tbar..dbar, g, d..t)",
                       where=frm.where, instance=inst, detail=f"{len(new_labels)} new-basis distributions", how="exact")
            # (3) inactive heavier quarks pass through
            names = pe.get_global("eko.basis_rotation", "quark_names")
            okp = True
            for k in range(nf + 1, 7):
                q = names[k - 1]
                for sgn in "+-":
                    lab = f"{q}{sgn}"
                    okp = okp and F.get((lab, lab)) == 1 and I.get((lab, lab)) == 1 \
                        and sum(1 for (o, i) in F if o == lab or i == lab) == 1
            chk.decide(okp, "inactive-quarks-pass-through", frm.qname, f"{inst}: a heavier inactive quark's +/- combination is not mapped identically",
                       where=frm.where, instance=inst)
    chk.floor("crossings", n_inst, 6)
    chk.note(crossings=n_inst, files=["src/eko/evolution_operator/flavors.py"])
    chk.explanation = "Exact evaluation of the threshold rotations for all six crossings."
