"""C41 - legacy runcards and archives upgrade to equivalent current structures."""
from __future__ import annotations

import ast
import itertools
from fractions import Fraction

from .. import dag
from ..pe import PE, PERaise, Opaque, Obj
from ..src import load, stmt_text

LEVEL = "proof"
META = {
    "text": "The converters are partially evaluated on legacy dictionaries with symbolic values and compared, key by key, with the "
            "mapping of the legacy format: THEORY: order = (PTO+1, QED); couplings: alphas, alphaem = alphaqed, else alphaem, "
            "else 0, reference point (Qref, nfref), em_running iff Qedref is given and equals Qref; heavy: matching ratios "
            "(kcThr, kbThr, ktThr), scheme HQ, masses (m, nan) for POLE and (m, Qm) for MSBAR, any other scheme refused; xif = "
            "XIF; defaults for n3lo_ad_variation, matching_order = (PTO, 0) unless PTO_matching, use_fhmruvv. OPERATOR: init = "
            "(Q0, nf0) with nf0 defaulting to 3 + number of default matching scales (m k)^2 not above Q0^2; the evolution grid "
            "from mugrid, or the square roots of Q2grid / mu2grid, each paired with its default flavour number (scales below, on "
            "and above every default matching scale are enumerated); evolution method through the EXA/EXP/TRN table, else "
            "passed on; inversion / scale-variation methods with their defaults; the six plain settings copied; integer "
            "ev_op_max_order -> (n, QED); debug flags; grid. ARCHIVES: v1/v2 metadata patches move bases.xgrid to xgrid and set "
            "the data version that the card accessors route on (vN sets N, N routes to vN.update_*); theory patches build "
            "couplings.ref from (scale, num_flavs_ref) and delete exactly the documented dropped keys after reading what they "
            "need; operator patches build init from (mu0, num_flavs_init); v1 adds matching_order (0,0), the use_fhmv rename "
            "and one integration core."
            " The initial scale exactly on a default matching scale with no initial flavour number gets the upper flavour number."
            " One legacy card upgraded five times with Q0 changed in between gives the default-flow point every time, and the upgrade leaves the caller's legacy cards as given.",
    "note": "Real legacy files are not read; the mapping table is the specification.",
    "technique": "partial evaluation of the converters on symbolic legacy dictionaries + exact comparison with a mapping table; version routing evaluated on a model file system with recording patches",
    "engine": "sa",
}

RC = "eko.io.runcards"


def S(n):
    return dag.sym(n)


def legacy_theory(hq="POLE", with_qed=True, qedref_equal=True, alphaqed=True):
    th = dict(PTO=2, QED=1, alphas=S("alphas"), alphaem=S("alphaem"), Qref=S("Qref"), nfref=5, HQ=hq, XIF=S("XIF"),
              mc=Fraction(2), mb=Fraction(5), mt=Fraction(170), kcThr=Fraction(1), kbThr=Fraction(2), ktThr=Fraction(1, 2),
              Qmc=S("Qmc"), Qmb=S("Qmb"), Qmt=S("Qmt"), Q0=Fraction(3), nf0=None, ModEv="EXA", ModSV=None)
    if alphaqed:
        th["alphaqed"] = S("alphaqed")
    if with_qed:
        th["Qedref"] = S("Qref") if qedref_equal else S("Qedref")
    return th


def legacy_operator(grid="mugrid"):
    op = dict(interpolation_polynomial_degree=S("deg"), interpolation_is_log=S("islog"), ev_op_iterations=S("its"), n_integration_cores=S("cores"),
              polarized=S("pol"), time_like=S("tl"), ev_op_max_order=7, debug_skip_non_singlet=S("dns"), debug_skip_singlet=S("ds"),
              interpolation_xgrid=S("xgrid"))
    mus = [Fraction(1), Fraction(2), Fraction(3), Fraction(9), Fraction(10), Fraction(11), Fraction(80), Fraction(85), Fraction(90)]
    if grid == "mugrid":
        op["mugrid"] = list(mus)
    else:
        op[grid] = [m * m for m in mus]
    return op, mus


def run(chk):
    src = load()
    chk.rule_text = "Legacy.new_theory / new_operator / v1 / v2 patches == mapping table of the legacy format, key by key"
    leg = src.cls(f"{RC}.Legacy")
    nth = leg.methods["new_theory"]
    nop = leg.methods["new_operator"]

    def mk_pe():
        pe = PE(src)
        pe.overrides["eko.io.dictlike.DictLike.from_dict"] = lambda p, a, k: a[-1]
        return pe

    def isclose(p, a, k):
        return dag.tonode(a[0]) is dag.tonode(a[1])

    n = 0
    for hq, with_qed, eq, aq in itertools.product(("POLE", "MSBAR", "FOO"), (True, False), (True, False), (True, False)):
        pe = mk_pe()
        pe.ext["numpy.isclose"] = isclose
        th = legacy_theory(hq, with_qed, eq, aq)
        o = pe.instantiate(leg.qname, [th, {}])
        inst = f"HQ={hq},Qedref={'=Qref' if with_qed and eq else ('other' if with_qed else 'absent')},alphaqed={aq}"
        try:
            new = pe.getattr(o, "new_theory")
        except PERaise as e:
            chk.decide(hq == "FOO" and "ValueError" in str(e), "legacy-theory-mapping", nth.qname, f"{inst}: raises {e}", where=nth.where, instance=inst)
            continue
        if hq == "FOO":
            chk.fail("legacy-theory-mapping", nth.qname, f"{inst}: an unknown mass scheme is accepted", where=nth.where, instance=inst)
            continue
        n += 1
        want = {
            "order": [3, 1],
            "couplings": dict(alphas=S("alphas"), alphaem=S("alphaqed") if aq else S("alphaem"), em_running=bool(with_qed and eq), ref=(S("Qref"), 5)),
            "heavy": {"matching_ratios": [Fraction(1), Fraction(2), Fraction(1, 2)], "masses_scheme": hq,
                      "masses": [[Fraction(2), "nan"], [Fraction(5), "nan"], [Fraction(170), "nan"]] if hq == "POLE"
                      else [[Fraction(2), S("Qmc")], [Fraction(5), S("Qmb")], [Fraction(170), S("Qmt")]]},
            "xif": S("XIF"), "n3lo_ad_variation": (0, 0, 0, 0, 0, 0, 0), "matching_order": [2, 0], "use_fhmruvv": True,
        }
        diffs = _diff(new, want)
        chk.decide(not diffs, "legacy-theory-mapping", nth.qname, f"{inst}: {diffs[:4]}", where=nth.where, instance=inst, how="PE vs mapping table")
    # explicit optional keys are honoured
    pe = mk_pe()
    pe.ext["numpy.isclose"] = isclose
    th = legacy_theory()
    th.update(PTO_matching=[1, 0], use_fhmruvv=False, n3lo_ad_variation=(1, 2, 3, 4, 5, 6, 7))
    th.pop("alphaqed")
    th["alphaem"] = None
    new = pe.getattr(pe.instantiate(leg.qname, [th, {}]), "new_theory")
    chk.decide(new.get("matching_order") == [1, 0] and new.get("use_fhmruvv") is False and new.get("n3lo_ad_variation") == (1, 2, 3, 4, 5, 6, 7)
               and new["couplings"]["alphaem"] == 0.0, "legacy-theory-mapping", nth.qname,
               f"explicit PTO_matching / use_fhmruvv / n3lo_ad_variation are not honoured or the missing QED coupling is not 0: "
               f"{[new.get('matching_order'), new.get('use_fhmruvv'), new.get('n3lo_ad_variation'), new['couplings']['alphaem']]}", where=nth.where,
               instance="optionals", how="PE")
    # ---- operator -----------------------------------------------------------------------------------------------------------------
    walls = [Fraction(4), Fraction(100), Fraction(7225)]  # (m k)^2 of the card above

    def nfd(mu):
        return 3 + sum(1 for w in walls if mu * mu >= w)

    for grid, evmod, nf0, modsv in itertools.product(("mugrid", "Q2grid", "mu2grid"), ("EXA", "EXP", "TRN", "decompose-exact"), (None, 4),
                                                     ("absent", None, "exponentiated")):
        pe = mk_pe()
        th = legacy_theory()
        th["XIF"] = Fraction(2)     # a concrete scale ratio: the flavour numbers of the upgraded points do not depend on it in any scheme
        th["ModEv"] = evmod
        th["nf0"] = nf0
        if modsv == "absent":
            th.pop("ModSV")
        else:
            th["ModSV"] = modsv
        if evmod == "EXP":
            th["backward_inversion"] = "exact"
        op, mus = legacy_operator(grid)
        inst = f"{grid},ModEv={evmod},nf0={nf0},ModSV={modsv}"
        try:
            new = pe.getattr(pe.instantiate(leg.qname, [th, op]), "new_operator")
        except PERaise as e:
            chk.fail("legacy-operator-mapping", nop.qname, f"{inst}: {type(e).__name__} {e}", where=nop.where, instance=inst)
            continue
        n += 1
        want = {
            "init": (Fraction(3), 4 if nf0 == 4 else nfd(Fraction(3))),
            "mugrid": [(m, nfd(m)) for m in mus],
            "configs": {"evolution_method": {"EXA": "iterate-exact", "EXP": "iterate-expanded", "TRN": "truncated"}.get(evmod, evmod),
                        "inversion_method": "exact" if evmod == "EXP" else "expanded",
                        "scvar_method": "expanded" if modsv == "absent" else modsv,
                        "interpolation_polynomial_degree": S("deg"), "interpolation_is_log": S("islog"), "ev_op_iterations": S("its"),
                        "n_integration_cores": S("cores"), "polarized": S("pol"), "time_like": S("tl"), "ev_op_max_order": [7, 1]},
            "debug": {"skip_non_singlet": S("dns"), "skip_singlet": S("ds")},
            "xgrid": S("xgrid"),
        }
        diffs = _diff(new, want)
        chk.decide(not diffs, "legacy-operator-mapping", nop.qname, f"{inst}: {diffs[:4]}", where=nop.where, instance=inst, how="PE vs mapping table")
    # the initial scale exactly ON a default matching scale, no initial flavour number given: the default flow counts that scale as passed
    # (the same convention that labels the evolution grid: a point on a matching scale gets the upper flavour number)
    for q0 in (Fraction(2), Fraction(10), Fraction(85), Fraction(9)):
        pe = mk_pe()
        th = legacy_theory()
        th["Q0"] = q0
        op, mus = legacy_operator("mugrid")
        inst = f"Q0={q0},nf0=None"
        try:
            new = pe.getattr(pe.instantiate(leg.qname, [th, op]), "new_operator")
            got = new.get("init")
        except PERaise as e:
            got = f"raises {e}"
        n += 1
        chk.decide(isinstance(got, tuple) and got[0] == q0 and got[1] == nfd(q0), "legacy-operator-mapping", nop.qname,
                   f"{inst}: the upgraded initial point is {got}; required ({q0}, {nfd(q0)}) - the default flow of the matching scales {[str(w) for w in walls]} "
                   f"(squared), a scale on a matching scale belonging to the upper patch, as for the points of the evolution grid", where=nop.where,
                   instance=inst, how="PE vs default flow")
    # ONE legacy card upgraded several times with the initial scale changed in place in between (a scan): every upgrade stands on its
    # own - nothing inferred by an earlier one is remembered in the caller's dictionaries - and the cards themselves are left as given
    pe = mk_pe()
    th = legacy_theory()
    op, mus = legacy_operator("mugrid")
    import copy as _copy

    stale, touched = None, None
    for q0 in (Fraction(1), Fraction(5), Fraction(50), Fraction(200), Fraction(1)):
        th["Q0"] = q0
        before = (dict(th), _copy.copy(op) if isinstance(op, dict) else op)
        try:
            o = pe.instantiate(leg.qname, [th, op])
            got = pe.getattr(o, "new_operator").get("init")
            pe.getattr(o, "new_theory")
        except PERaise as e:
            got = f"raises {e}"
        if not (isinstance(got, tuple) and got[0] == q0 and got[1] == nfd(q0)) and stale is None:
            stale = (q0, got)
        changed = [k for k in set(before[0]) | set(th) if not _eq(before[0].get(k, "<absent>"), th.get(k, "<absent>"))]
        if changed and touched is None:
            touched = (q0, changed)
    n += 1
    chk.decide(stale is None, "legacy-operator-mapping", nop.qname,
               f"one legacy card upgraded repeatedly with Q0 changed in between: at Q0={stale[0] if stale else ''} the initial point is {stale[1] if stale else ''}; required "
               f"({stale[0] if stale else ''}, {nfd(stale[0]) if stale else ''}) - something inferred by an earlier upgrade is remembered", where=nop.where,
               instance="repeated upgrade of one card", how="PE of a sequence of upgrades on one dictionary")
    chk.decide(touched is None, "upgrade-leaves-the-legacy-cards-as-given", nop.qname,
               f"upgrading at Q0={touched[0] if touched else ''} changes the entries {touched[1] if touched else ''} of the caller's legacy theory card", where=nop.where,
               instance="input cards", how="PE, cards compared before and after")
    chk.floor("legacy card cases", n, 84)
    # ---- archives ------------------------------------------------------------------------------------------------------------------------
    for ver, modname in ((1, "eko.io.v1"), (2, "eko.io.v2")):
        pe = PE(src)
        raw = {"bases": {"xgrid": S("xg"), "other": 1}, "version": "0.13.5", "data_version": 1, "origin": S("origin")}
        out = pe.call(f"{modname}.update_metadata", [Opaque(), raw])
        chk.decide(out.get("xgrid") is S("xg") and "bases" not in out and out.get("data_version") == ver and out.get("origin") is S("origin"),
                   "archive-patches", f"{modname}.update_metadata", f"metadata patch yields {out}", where=src.func(f"{modname}.update_metadata").where,
                   instance=f"v{ver} metadata", how="PE")
        raw = {"order": [2, 0], "couplings": {"alphas": S("as"), "alphaem": S("aem"), "scale": S("scale"), "num_flavs_ref": 5, "max_num_flavs": 6, "em_running": False},
               "heavy": {"masses": S("masses"), "masses_scheme": "pole", "matching_ratios": S("ratios"), "intrinsic_flavors": [4], "num_flavs_init": 4,
                         "num_flavs_max_pdf": 6}, "xif": S("xif"), "n3lo_ad_variation": S("n3"), "use_fhmv": S("fh")}
        if ver == 2:
            raw.pop("use_fhmv")
            raw["use_fhmruvv"] = S("fh")
            raw["matching_order"] = S("mo")
        out = pe.call(f"{modname}.update_theory", [raw])
        want = {"order": [2, 0], "couplings": {"alphas": S("as"), "alphaem": S("aem"), "em_running": False, "ref": (S("scale"), 5)},
                "heavy": {"masses": S("masses"), "masses_scheme": "pole", "matching_ratios": S("ratios")}, "xif": S("xif"), "n3lo_ad_variation": S("n3"),
                "use_fhmruvv": S("fh"), "matching_order": [0, 0] if ver == 1 else S("mo")}
        diffs = _diff(out, want)
        chk.decide(not diffs, "archive-patches", f"{modname}.update_theory", f"theory patch: {diffs[:4]}", where=src.func(f"{modname}.update_theory").where,
                   instance=f"v{ver} theory", how="PE vs mapping table")
        raw_op = {"mu0": S("mu0"), "mugrid": S("mugrid"), "xgrid": S("xg"), "configs": {"evolution_method": "truncated"}, "debug": {}}
        raw_th = {"heavy": {"num_flavs_init": 4, "num_flavs_max_pdf": 6, "intrinsic_flavors": [4]}, "couplings": {"num_flavs_ref": 5, "max_num_flavs": 6}}
        try:
            out = pe.call(f"{modname}.update_operator", [raw_op, raw_th])
        except PERaise as e:
            out = {"raises": str(e)}
        want = {"init": (S("mu0"), 4), "mugrid": S("mugrid"), "xgrid": S("xg"), "debug": {},
                "configs": {"evolution_method": "truncated", "n_integration_cores": 1} if ver == 1 else {"evolution_method": "truncated"}}
        diffs = _diff(out, want)
        chk.decide(not diffs, "archive-patches", f"{modname}.update_operator", f"operator patch: {diffs[:4]}",
                   where=src.func(f"{modname}.update_operator").where, instance=f"v{ver} operator", how="PE vs mapping table")
    # routing: which patch an archive of a given (library version, data version) goes through - evaluated on a model file system with
    # recording patches (the patches themselves are decided above)
    from .. import fsmodel

    ml = src.func("eko.io.metadata.Metadata.load")
    mdc = src.cls("eko.io.metadata.Metadata")
    ek = src.cls("eko.io.struct.EKO")

    def ver(p_, a, k):
        v = Opaque()
        parts = [int(x) for x in str(a[0]).split(".")[:3] if x.isdigit()]
        v.major, v.minor, v.micro = (parts + [0, 0, 0])[:3]
        return v

    for version, dv, want in (("0.13.5", 1, "v1"), ("0.14.2", 1, "v2"), ("0.14.6", 2, None), ("0.15.1", 3, None)):
        fs = fsmodel.FS()
        pe2 = PE(src)
        fsmodel.install(pe2, fs)
        pe2.ext["packaging.version.parse"] = ver
        calls = []
        for m_ in ("v1", "v2"):
            pe2.overrides[f"eko.io.{m_}.update_metadata"] = lambda p_, a, k, m_=m_: calls.append(m_) or dict(a[-1], patched=m_)
        pe2.overrides["eko.io.dictlike.DictLike.from_dict"] = lambda p_, a, k: Obj(mdc)
        fs.path("/a").mkdir()
        fs.write("/a/metadata.yaml", ("yaml", {"version": version, "data_version": dv, "origin": [1, 4], "xgrid": {}}))
        inst = f"library {version}, data version {dv}"
        try:
            pe2.apply(pe2.getattr(src_cls_ref(src, mdc), "load"), [fs.path("/a")], {})
            got = calls
        except PERaise as e:
            got = f"raises {e}"
        chk.decide(got == ([want] if want else []), "version-routing", ml.qname, f"metadata of an archive written by {inst} goes through "
                   f"{got}; required {[want] if want else 'no patch'}", where=ml.where, instance=f"metadata,{version},{dv}", how="PE on a model file system")
    for prop, fn, ccls in (("theory_card", "update_theory", "eko.io.runcards.TheoryCard"), ("operator_card", "update_operator", "eko.io.runcards.OperatorCard")):
        f = ek.methods[prop]
        for dv, want in ((1, "v1"), (2, "v2"), (3, None)):
            fs = fsmodel.FS()
            pe2 = PE(src)
            fsmodel.install(pe2, fs)
            calls = []
            for m_ in ("v1", "v2"):
                pe2.overrides[f"eko.io.{m_}.{fn}"] = lambda p_, a, k, m_=m_: calls.append(m_) or {"patched": m_}
            pe2.overrides["eko.io.dictlike.DictLike.from_dict"] = lambda p_, a, k: ("CARD", a[-1])
            fs.path("/a").mkdir()
            md = Obj(mdc)
            md.attrs.update(_path=fs.path("/a"), data_version=dv, version="0.0.0", origin=(1, 4), xgrid="XG")
            e = Obj(ek)
            e.attrs.update(metadata=md)
            paths = pe2.getattr(e, "paths")
            for nm in ("theory_card", "operator_card"):
                fs.write(str(pe2.getattr(paths, nm)), ("yaml", {"card": nm}))
            inst = f"{prop}, data version {dv}"
            try:
                card = pe2.getattr(e, prop)
                got = calls
                raw = card[1] if isinstance(card, tuple) else None
                okc = (raw == {"patched": want}) if want else (raw == {"card": prop})
            except PERaise as ex:
                got, okc = f"raises {ex}", False
            chk.decide(got == ([want] if want else []) and okc, "version-routing", f.qname, f"{inst}: the card goes through {got} and is built from "
                       f"{raw if not isinstance(got, str) else None}; required {[want] if want else 'no patch'} and the patched (resp. stored) dictionary",
                       where=f.where, instance=f"{prop},{dv}", how="PE on a model file system")
    chk.note(cases=n, files=["src/eko/io/runcards.py", "src/eko/io/v1.py", "src/eko/io/v2.py", "src/eko/io/metadata.py", "src/eko/io/struct.py"])
    chk.explanation = "Converters evaluated on symbolic legacy dictionaries and compared with the mapping table."


def _eq(a, b):
    if isinstance(b, str) and b == "nan":
        return isinstance(a, float) and a != a or type(a).__name__ == "NaNTop" or str(a) == "nan"
    if isinstance(a, (list, tuple)) and isinstance(b, (list, tuple)):
        return len(a) == len(b) and all(_eq(x, y) for x, y in zip(a, b))
    if isinstance(a, dict) and isinstance(b, dict):
        return not _diff(a, b)
    if isinstance(a, dag.Node) or isinstance(b, dag.Node):
        try:
            return dag.tonode(a) is dag.tonode(b)
        except Exception:
            return False
    if isinstance(a, bool) or isinstance(b, bool):
        return a is b
    return a == b


def _diff(got, want, path=""):
    out = []
    if not isinstance(got, dict):
        return [f"{path or 'result'} is {type(got).__name__}"]
    for k in want:
        if k not in got:
            out.append(f"{path}{k} missing")
        elif isinstance(want[k], dict):
            out.extend(_diff(got[k], want[k], f"{path}{k}."))
        elif not _eq(got[k], want[k]):
            out.append(f"{path}{k} = {got[k]} (required {want[k]})")
    for k in got:
        if k not in want:
            out.append(f"{path}{k} unexpected (= {got[k]})")
    return out


def src_cls_ref(src, cls):
    from ..pe import ClassRef

    return ClassRef(cls)
