"""C14 - QED x QCD kernels reduce to QCD kernels when alpha_em vanishes (formula level)."""
from __future__ import annotations

from .. import dag, kern
from ..arr import Arr
from ..pe import Top

LEVEL = "proof"
META = {
    "text": "With a_em := 0 the QED non-singlet kernel fixed_alphaem_exact is proved identical, as a formula in all remaining "
            "symbols, to the pure-QCD exact non-singlet kernel of the same order on the column gamma[1:,0] (times the trivial "
            "pure-QED factor, which is 1 for the physical grid where gamma[0,0]=0), for orders 1-4, QED orders 1-2 and nf 3-6. "
            "The exponent of every step of the QED singlet/valence iteration at a_em=0, with the half-step coupling equal to the "
            "midpoint, is proved equal to the exponent of the pure-QCD iterated singlet step built from gamma[1:,0] (index shift "
            "included)."
            " End-to-end clause, source-visible parts: sector operators obeying the a_em = 0 relations give the same parton-channel operator through the QED and the QCD branch of ad_to_evol_map and the flavour rotation (nf 3-6); the step ends and mid-points handed to the QED kernels are requested in one flavour number.",
    "note": "Block structure of the a_em^0 grids (photon row/column, Sdelta/Vdelta entries) is decided under C30 for all orders and nf, and "
            "re-evaluated here for three (order, nf) pairs where the non-singlet sectors differ from each other. End-to-end "
            "convergence with the number of iterations is a runtime quantity and is not decided.",
    "technique": "partial evaluation of sibling kernels + polynomial identity testing",
    "engine": "sa",
}


def run(chk):
    src, pe, M = kern.setup(chk)
    log4 = []
    kern.install_expm_model(pe, log4)
    chk.trusted += ["random interpretation in F_p"]
    chk.rule_text = "QED kernel(a_em=0) == QCD kernel on gamma[1:,0]"
    a1, a0 = dag.sym("a1"), dag.sym("a0")
    mf, mt = dag.sym("mu2_from"), dag.sym("mu2_to")
    fq = src.func(f"{kern.QNS}.fixed_alphaem_exact")
    nd = src.func(f"{kern.NS}.dispatcher")
    n_inst = 0
    for n in range(1, 5):
        for m in (1, 2):
            for nfc in (3, 4, 5, 6):
                inst = f"order=({n},{m}),nf={nfc}"
                n_inst += 1
                G = Arr.from_nested([[dag.sym(f"G{i}_{j}") if (i, j) != (0, 0) else 0 for j in range(m + 1)] for i in range(n + 1)])
                R = pe.call(fq.qname, [(n, m), G, a1, a0, 0, nfc, mf, mt])
                g = Arr.from_nested([G[i, 0] for i in range(1, n + 1)])
                E = pe.call(nd.qname, [(n, 0), M["ITERATE_EXACT"], g, a1, a0, nfc])
                ok, info = dag.is_zero_fp([dag.sub(R, E)], chk.seed, 3)
                chk.decide(ok, "qed-ns-reduces-to-qcd", fq.qname,
                           f"fixed_alphaem_exact at a_em=0 differs from the pure-QCD exact non-singlet kernel ({inst})",
                           where=fq.where, instance=inst, data={"witness": info}, how="PE + PIT F_p")
    # ---- singlet / valence iteration generator at a_em = 0 vs QCD generator --------------------------
    log2 = []

    def expm2d(pe_, args, kwargs):
        log2.append(args[0].copy())
        return (kern.expm_ref(args[0]), Top("l+"), Top("l-"), Top("e+"), Top("e-"))

    pe.overrides["ekore.anomalous_dimensions.exp_matrix_2D"] = expm2d
    try:
        fs = src.func(f"{kern.QVL}.dispatcher")
        for n in range(2, 5):
            for m in (1, 2):
                for nfc in (3, 4, 5, 6):
                    inst = f"order=({n},{m}),nf={nfc}"
                    n_inst += 1
                    dim = 2
                    G = Arr.from_nested([[[[dag.sym(f"Q{i}_{j}_{r}{c}") if i >= 1 else 0 for c in range(dim)] for r in range(dim)]
                                          for j in range(m + 1)] for i in range(n + 1)])
                    as_list = Arr.from_nested([a0, a1])
                    a_half = Arr.from_nested([[dag.div(dag.add(a1, a0), 2), 0]])
                    del log4[:]
                    del log2[:]
                    pe.call(fs.qname, [(n, m), M["ITERATE_EXACT"], G, as_list, a_half, nfc, 1, (10, 0)])
                    Gq = Arr.from_nested([G[i, 0].tolist() for i in range(1, n + 1)])
                    pe.call(f"{kern.SG}.dispatcher", [(n, 0), M["ITERATE_EXACT"], Gq, a1, a0, nfc, 1, (n, 0)])
                    chk.need(len(log4) == 1 and len(log2) == 1, f"expected one exponential on each side ({inst})")
                    ok, info = dag.is_zero_fp(kern.mat_sub(log4[0], log2[0]).flat(), chk.seed, 3)
                    chk.decide(ok, "qed-iterate-generator-reduces-to-qcd", fs.qname,
                               f"QED iteration step exponent at a_em=0 differs from the pure-QCD singlet step exponent ({inst})",
                               where=fs.where, instance=inst, data={"witness": info}, how="PE + PIT F_p")
                    if nfc != 4:
                        continue
                    # several steps on the same coupling grid: the whole kernels (products of the same uninterpreted
                    # exponentials) must coincide, i.e. also the ORDER of the step operators
                    from fractions import Fraction

                    its = 3
                    ratio = dag.div(a1, a0)
                    grid = [a0] + [dag.mul(a0, dag.power(ratio, Fraction(i, its))) for i in range(1, its)] + [a1]
                    as_l = Arr.from_nested(grid)
                    a_h = Arr.from_nested([[dag.div(dag.add(grid[i + 1], grid[i]), 2), 0] for i in range(its)])
                    Kq = pe.call(fs.qname, [(n, m), M["ITERATE_EXACT"], G, as_l, a_h, nfc, its, (10, 0)])
                    Kc = pe.call(f"{kern.SG}.dispatcher", [(n, 0), M["ITERATE_EXACT"], Gq, a1, a0, nfc, its, (n, 0)])
                    ok, info = dag.is_zero_fp(kern.mat_sub(Kq, Kc).flat(), chk.seed, 2)
                    n_inst += 1
                    chk.decide(ok, "qed-iterated-kernel-reduces-to-qcd", fs.qname,
                               f"with a_em=0 and {its} identical coupling steps the QED iterated kernel is not the pure-QCD iterated "
                               f"kernel (same step exponentials, different product) ({inst})", where=fs.where, instance=inst,
                               data={"witness": info}, how="PE + PIT F_p")
    finally:
        pe.overrides.pop("ekore.anomalous_dimensions.exp_matrix_2D", None)
    # ---- the a_em^0 slices the kernels are fed with: (g,S) block = QCD singlet, Sdelta = ns+, (V, Vdelta) = (nsV, ns-), photon and the
    # (0,0) slot empty - otherwise the QED kernel at a_em = 0 cannot reduce to the QCD one whatever the solver does (rule shared
    # with C30, evaluated here for the orders where the sectors differ)
    from .c30 import _case as _grid_case

    for case in (((3, 1), 4), ((4, 1), 3), ((2, 2), 5)):
        _grid_case(chk, case)
        n_inst += 1
    # "for the same coupling steps": the step ends and the mid-points the QED kernels get describe ONE coupling - all of them requested in the
    # segment's flavour number (shared with C53, evaluated with a recording coupling object)
    from .c53 import _couplings_nf

    _couplings_nf(chk, src, rule="qed-coupling-steps-in-one-flavour-number", methods=("compute_aem_list",))
    n_ord = kern.qed_product_order(chk, "qed-kernel-keeps-the-qcd-product-order")
    chk.floor("product-order instances", n_ord, 4)
    n_asm = _assembly(chk, src)
    chk.floor("assembly instances", n_asm, 4)
    chk.floor("instances", n_inst, 32 + 24)
    chk.note(instances=n_inst, files=["src/eko/kernels/non_singlet_qed.py", "src/eko/kernels/singlet_qed.py", "src/eko/kernels/valence_qed.py"])
    chk.explanation = "QED kernels with a_em := 0 compared with their QCD siblings as formulas."


def _assembly(chk, src):
    """End-to-end clause, the part visible in the source: sector operators that satisfy the a_em = 0 relations decided above (photon
    trivial, Sdelta.Sdelta and ns+u/ns+d = ns+, Vdelta.Vdelta and ns-u/ns-d = ns-, V.V = nsV, mixed entries zero), assembled by the
    QED branch of ad_to_evol_map and rotated to the flavour basis, give on the parton channels exactly the operator that the QCD
    branch assembles from the same sector operators."""
    from fractions import Fraction

    from .. import flav
    from ..pe import PE, PERaise
    from .c32 import PH, tensor_of

    pe = PE(src)
    fmap = src.func(f"{PH}.ad_to_evol_map")
    nsmap = pe.get_global("eko.basis_rotation", "non_singlet_pids_map")

    def member(v):
        return pe.instantiate("eko.member.OpMember", [Arr.from_nested([[v]]), Arr.from_nested([[0]])])

    SS, Sg, gS, gg, P, Mn, V = (dag.sym(x) for x in ("E_SS", "E_Sg", "E_gS", "E_gg", "E_plus", "E_minus", "E_val"))
    qcd = {(100, 100): SS, (100, 21): Sg, (21, 100): gS, (21, 21): gg, (nsmap["ns+"], 0): P, (nsmap["ns-"], 0): Mn, (nsmap["nsV"], 0): V}
    qed = {(a, b): 0 for a in (21, 22, 100, 101) for b in (21, 22, 100, 101)}
    qed.update({(100, 100): SS, (100, 21): Sg, (21, 100): gS, (21, 21): gg, (22, 22): 1, (101, 101): P,
                (10200, 10200): V, (10200, 10204): 0, (10204, 10200): 0, (10204, 10204): Mn,
                (nsmap["ns+u"], 0): P, (nsmap["ns+d"], 0): P, (nsmap["ns-u"], 0): Mn, (nsmap["ns-d"], 0): Mn})
    n = 0
    for nf in (3, 4, 5, 6):
        inst = f"assembly,nf={nf}"
        try:
            Tq = tensor_of(pe, pe.apply(pe.getattr(pe.import_ref(PH), "ad_to_evol_map"), [{k: member(v) for k, v in qcd.items()}, nf, Fraction(100), False], {}), False)
            Te = tensor_of(pe, pe.apply(pe.getattr(pe.import_ref(PH), "ad_to_evol_map"), [{k: member(v) for k, v in qed.items()}, nf, Fraction(100), True], {}), True)
        except PERaise as e:
            chk.fail("qed-assembly-reduces-to-qcd", fmap.qname, f"{inst}: the flavour tensor cannot be built: {e}", where=fmap.where, instance=inst)
            continue
        n += 1
        bad = None
        for o in range(14):
            for i in range(14):
                po, pi = flav.PIDS[o], flav.PIDS[i]
                if po == 22 or pi == 22:
                    continue
                ok, _ = dag.is_zero_fp([dag.sub(dag.tonode(Te[o, 0, i, 0]), dag.tonode(Tq[o, 0, i, 0]))], chk.seed, 2)
                if not ok and bad is None:
                    bad = (po, pi, dag.short(dag.tonode(Te[o, 0, i, 0]), 120), dag.short(dag.tonode(Tq[o, 0, i, 0]), 120))
        chk.decide(bad is None, "qed-assembly-reduces-to-qcd", fmap.qname,
                   f"{inst}: with sector operators obeying the a_em = 0 relations the QED assembly maps pid {bad[1] if bad else ''} onto pid "
                   f"{bad[0] if bad else ''} with {bad[2] if bad else ''}, the QCD assembly with {bad[3] if bad else ''}: as alpha_em vanishes the "
                   f"QED x QCD operator does not converge to the QCD operator on the parton channels", where=fmap.where, instance=inst,
                   how="PE of both branches of ad_to_evol_map + flavour rotation, PIT F_p")
    return n
