"""C25 - anomalous dimensions obey momentum and fermion-number sum rules (exact evaluation at the sum-rule moments)."""
from __future__ import annotations

from fractions import Fraction

import sympy as sp

from .. import dag, ekore_model as em, hvals
from ..arr import Arr
from ..pe import PE, PERaise
from ..src import load

LEVEL = "other"
META = {
    "text": "The sector dispatchers of the unpolarised space-like anomalous dimensions (QCD and QED-extended) are partially "
            "evaluated at the sum-rule moments N=2 and N=1 with the harmonic sums kept as atoms; the atoms are then given their "
            "EXACT special values from the defining nested sums (rationals), polygamma special values at half-integers and the "
            "closed form of M[Li2(x)/(1+x)], all written in the checker. Decided, for every nf 3-6: momentum conservation "
            "(column sums of the singlet block over {Sigma, g}; with QED over {g, photon, Sigma} for ALL FOUR columns and every "
            "(a_s^i a_em^j) slice) and quark-number conservation (minus, valence, and the QED valence grid and minus sectors at "
            "N=1): exactly zero (up to 1e-12, the rounding of decimal literals) for the closed-form orders a_s, a_s^2, a_em, "
            "a_s a_em, a_em^2, and within the documented accuracy for the parametrised orders (a_s^3: 1e-2; N3LO exact-moment "
            "parametrisation: 1e-5; FHMRUVV: 0.5 momentum / 0.2 number, the sizes recorded in the repository's own tests). The "
            "FHMRUVV central variation is proved equal to the mean of the upper and lower variations as an identity in N.",
    "note": "Uses the exact values of the special functions, not the repository's numerical implementations (whose accuracy is "
            "outside static reach). Polarised and time-like sum rules are not covered by this check.",
    "technique": "partial evaluation at the sum-rule moments + exact special values of harmonic sums (computer algebra in Q[zeta_k, log 2])",
    "engine": "sa",
}

US = "ekore.anomalous_dimensions.unpolarized.space_like"
VAR0 = (0,) * 7
TOL_EXACT = 1e-12
TOL = {  # order index k (a_s^(k+1)) -> (momentum tolerance, number tolerance); documented in tests/ekore/.../test_as3.py, test_as4*.py
    "as3": (1e-2, 5e-3),
    "as4": (1e-5, 1e-5),
    "as4_fhmruvv": (0.5, 0.2),
}


def _val(x, ft):
    if not isinstance(x, dag.Node):
        x = dag.tonode(x)
    e = sp.expand(dag.to_sympy(x, fntab=ft))
    if e.free_symbols or e.atoms(sp.pi.__class__):
        return float(hvals.numeric(e, 25))
    return float(e)


def run(chk):
    src = load()
    pe = PE(src, assume=em.assume_generic_moment)
    em.install_cache_atoms(pe)
    em.install_special_function_atoms(pe)
    ft = hvals.fntab()
    chk.rule_text = "column sums at N=2 and non-singlet/valence entries at N=1 vanish (exactly / within documented accuracy)"
    chk.trusted += ["sa/hvals.py exact special values", "sympy"]
    fS = src.func(f"{US}.gamma_singlet")
    fN = src.func(f"{US}.gamma_ns")
    fSq = src.func(f"{US}.gamma_singlet_qed")
    fVq = src.func(f"{US}.gamma_valence_qed")
    fNq = src.func(f"{US}.gamma_ns_qed")
    n_ob = 0
    skipped: list = []

    def tol_for(k, fh, kind):
        if k <= 1:
            return TOL_EXACT
        if k == 2:
            return TOL["as3"][kind]
        return TOL["as4_fhmruvv" if fh else "as4"][kind]

    # ---- QCD ------------------------------------------------------------------------------------------
    for nf in (3, 4, 5, 6):
        for fh in (True, False):
            try:
                g = pe.call(fS.qname, [(4, 0), 2, nf, VAR0, fh])
            except PERaise as e:
                if e.etype == "NotImplementedError":
                    g = pe.call(fS.qname, [(3, 0), 2, nf, VAR0, fh])
                else:
                    raise
            for k in range(g.shape[0]):
                for col, name in ((0, "quark"), (1, "gluon")):
                    v = _val(dag.add(g[k, 0, col], g[k, 1, col]), ft)
                    tol = tol_for(k, fh, 0)
                    n_ob += 1
                    chk.decide(abs(v) <= tol, "momentum-conservation", fS.qname,
                               f"nf={nf}, a_s^{k + 1}{' (FHMRUVV)' if fh and k == 3 else ''}: gamma_q{name[0]} + gamma_g{name[0]} at N=2 = {v:.3e} "
                               f"(allowed {tol:g})", where=fS.where, instance=f"nf={nf},k={k},{name},fh={fh}", detail=f"{v:.2e} <= {tol:g}",
                               how="exact special values")
            for mode, mname in ((10201, "ns-"), (10200, "nsV")):
                try:
                    v4 = pe.call(fN.qname, [(4, 0), mode, 1, nf, VAR0, fh])
                except PERaise as e:
                    if e.etype == "ZeroDivisionError":
                        # removable singularity at exactly N=1 in a parametrisation (the repository's own test evaluates at
                        # N = 1 + 1e-8): the limit is not decidable with atoms -> evaluate the orders below it only
                        skipped.append(f"nf={nf},{mname},fh={fh}: a_s^4 term has a removable singularity at N=1 (not decided)")
                        v3 = pe.call(fN.qname, [(3, 0), mode, 1, nf, VAR0, fh])
                        for k in range(3):
                            v = _val(v3[k], ft)
                            tol = tol_for(k, fh, 1)
                            n_ob += 1
                            chk.decide(abs(v) <= tol, "number-conservation", fN.qname,
                                       f"nf={nf}, a_s^{k + 1}: gamma_{mname}(N=1) = {v:.3e} (allowed {tol:g})", where=fN.where,
                                       instance=f"nf={nf},k={k},{mname},fh={fh}", detail=f"{v:.2e} <= {tol:g}", how="exact special values")
                        continue
                    chk.fail("number-conservation", fN.qname, f"nf={nf}: {mname} cannot be evaluated at N=1: {e}", where=fN.where,
                             instance=f"nf={nf},{mname},fh={fh}")
                    continue
                for k in range(4):
                    v = _val(v4[k], ft)
                    tol = tol_for(k, fh, 1)
                    n_ob += 1
                    chk.decide(abs(v) <= tol, "number-conservation", fN.qname,
                               f"nf={nf}, a_s^{k + 1}: gamma_{mname}(N=1) = {v:.3e} (allowed {tol:g})", where=fN.where,
                               instance=f"nf={nf},k={k},{mname},fh={fh}", detail=f"{v:.2e} <= {tol:g}", how="exact special values")
    # ---- QED -------------------------------------------------------------------------------------------
    for nf in (3, 4, 5, 6):
        G = pe.call(fSq.qname, [(3, 2), 2, nf, VAR0, True])
        for i in range(G.shape[0]):
            for j in range(G.shape[1]):
                if (i, j) == (0, 0) or (i >= 1 and j >= 1 and (i, j) != (1, 1)):
                    continue
                for col, cname in enumerate(("g", "ph", "Sigma", "Sigma_delta")):
                    v = _val(dag.addn([G[i, j, r, col] for r in (0, 1, 2)]), ft)
                    tol = TOL_EXACT if (j > 0 or i <= 2) else TOL["as3"][0]
                    n_ob += 1
                    chk.decide(abs(v) <= tol, "qed-momentum-conservation", fSq.qname,
                               f"nf={nf}, O(a_s^{i} a_em^{j}): column {cname}: gamma_g + gamma_ph + gamma_Sigma at N=2 = {v:.3e} "
                               f"(allowed {tol:g}); total momentum of gluon, photon and quark singlet is not conserved",
                               where=fSq.where, instance=f"nf={nf},({i},{j}),{cname}", detail=f"{v:.2e} <= {tol:g}",
                               how="exact special values")
        V = pe.call(fVq.qname, [(3, 2), 1, nf, VAR0, True])
        for i in range(V.shape[0]):
            for j in range(V.shape[1]):
                if (i, j) == (0, 0) or (i >= 1 and j >= 1 and (i, j) != (1, 1)):
                    continue
                for r in range(2):
                    for c in range(2):
                        v = _val(V[i, j, r, c], ft)
                        tol = TOL_EXACT if (j > 0 or i <= 2) else TOL["as3"][1]
                        n_ob += 1
                        chk.decide(abs(v) <= tol, "qed-number-conservation", fVq.qname,
                                   f"nf={nf}, O(a_s^{i} a_em^{j}): valence entry [{r},{c}] at N=1 = {v:.3e} (allowed {tol:g})",
                                   where=fVq.where, instance=f"nf={nf},({i},{j}),[{r},{c}]", how="exact special values")
        for mode in (10202, 10203):
            g = pe.call(fNq.qname, [(3, 2), mode, 1, nf, VAR0, True])
            for i in range(g.shape[0]):
                for j in range(g.shape[1]):
                    if (i, j) == (0, 0) or (i >= 1 and j >= 1 and (i, j) != (1, 1)):
                        continue
                    v = _val(g[i, j], ft)
                    tol = TOL_EXACT if (j > 0 or i <= 2) else TOL["as3"][1]
                    n_ob += 1
                    chk.decide(abs(v) <= tol, "qed-number-conservation", fNq.qname,
                               f"nf={nf}, mode {mode}, O(a_s^{i} a_em^{j}): gamma_ns-(N=1) = {v:.3e} (allowed {tol:g})",
                               where=fNq.where, instance=f"nf={nf},{mode},({i},{j})", how="exact special values")
    # ---- FHMRUVV: central = mean(upper, lower), identity in N ----------------------------------------------
    N = dag.sym("N")
    FH = f"{US}.as4.fhmruvv"
    for nf in (3, 4, 5):
        for fname in ("gamma_gg", "gamma_gq", "gamma_qg", "gamma_ps", "gamma_nsp", "gamma_nsm", "gamma_nsv"):
            modname = {"gamma_gg": "ggg", "gamma_gq": "ggq", "gamma_qg": "gqg", "gamma_ps": "gps", "gamma_nsp": "gnsp",
                       "gamma_nsm": "gnsm", "gamma_nsv": "gnsv"}[fname]
            q = f"{FH}.{modname}.{fname}"
            if q not in src.funcs:
                continue
            f = src.funcs[q]
            try:
                vals = [pe.call(q, [N, nf, "<harmonic cache>", var]) for var in (0, 1, 2)]
            except PERaise as e:
                chk.fail("fhmruvv-central-is-mean", q, f"nf={nf}: raises {e}", where=f.where, instance=f"nf={nf}")
                continue
            ok, info = dag.is_zero_fp([dag.sub(vals[0], dag.div(dag.add(vals[1], vals[2]), 2))], chk.seed, 3)
            n_ob += 1
            chk.decide(ok, "fhmruvv-central-is-mean", q, f"nf={nf}: central variation != (upper + lower)/2 as functions of N",
                       where=f.where, instance=f"nf={nf}", data={"witness": info}, how="PE + PIT F_p")
    chk.floor("sum-rule obligations", n_ob, 300)
    chk.note(not_decided=skipped)
    chk.note(obligations=n_ob, tolerances={k: list(v) for k, v in TOL.items()},
             files=["src/ekore/anomalous_dimensions/unpolarized/space_like/"])
    chk.explanation = ("Sum rules evaluated with exact special-function values at N=2 / N=1 for every nf; parametrised orders "
                       "held to the accuracy the repository documents in its tests.")
