"""C34 - the interpolation basis is a partition of unity that reproduces polynomials."""
from __future__ import annotations

import ast
import itertools
from fractions import Fraction
from types import SimpleNamespace

from .. import dag, effects as E
from ..arr import Arr
from ..pe import PE, Obj, PEError, PERaise
from ..src import load

LEVEL = "proof"
META = {
    "text": "The statement follows from, and is decided through: (1) LAGRANGE: Area._compute_coefs, partially evaluated with symbolic "
            "nodes for every degree 1-6 and every position of the polynomial in its block, yields exactly the coefficients of the "
            "Lagrange polynomial prod_{k != j}(x - x_k)/(x_j - x_k) (identity in x and all nodes) - hence value one at the own "
            "node, zero at the other nodes of the block, sum one over the block, exact reproduction of polynomials up to the "
            "degree. (2) BLOCKS: for every grid size 2-40 and degree 1-6 the block list built by InterpolatorDispatcher has one "
            "block per interval, of exactly degree+1 consecutive nodes inside the grid, containing both ends of its interval; "
            "BasisFunction gives polynomial j an area on interval i exactly when j is in block i, built from that block - so on "
            "every interval the active polynomials are the complete Lagrange set of one block. (3) EVALUATION: evaluate_x, "
            "partially evaluated with symbolic coefficients, is sum_i coef_i x^i of the area with xmin < x <= xmax, the very "
            "first node included through a tolerance that is absolute and of machine-epsilon size (a point 1e-9 below the "
            "support evaluates to zero), zero outside the support; log_evaluate_x applies it to log x. (4) RE-INTERPOLATION: "
            "get_interpolation returns R[i][j] = basis_j(target_i) and short-cuts to the identity only under a comparison of "
            "the grids that has no absolute tolerance; every allclose/isclose applied to x-grid values (XGrid.__eq__, "
            "get_interpolation, manipulate.xgrid_check) passes an explicit atol. (5) GUARDS: grids with repeated points or "
            "fewer than two points, degrees below one and grids with at most `degree` points are refused (enumerated)."
            " An accepted grid is stored in ascending order; the internal points in another order as target grid give the permutation matrix, not the identity."
            " A logarithmic, a linear and again a logarithmic dispatcher over the same points asked for one target grid in one evaluator each return the values of their OWN basis functions.",
    "note": "Floating-point accuracy of the sums is not decided; the algebraic statements are, for all nodes.",
    "technique": "partial evaluation with symbolic nodes + polynomial identity testing; exhaustive enumeration of block layouts; tolerance call-site rule",
    "engine": "sa",
}

IP = "eko.interpolation"
EPS = Fraction(1, 2 ** 52)


def mk_pe(src):
    pe = PE(src)
    pe.ext["numpy.finfo"] = lambda p, a, k: SimpleNamespace(eps=EPS)
    return pe


def run(chk):
    src = load()
    chk.rule_text = "coefs == Lagrange polynomial; blocks cover their interval with degree+1 nodes; evaluate_x half-open with eps-sized absolute edge; no default atol on x grids"
    area_cls = src.cls(f"{IP}.Area")
    fcoef = area_cls.methods["_compute_coefs"]
    x = dag.sym("x")
    n_lag = 0
    pe = mk_pe(src)
    degs = range(1, 7)
    for deg in degs:
        nodes = [dag.sym(f"n{k}") for k in range(deg + 3)]
        grid = Arr.from_nested(nodes)
        for kmin in (0, 2):
            block = (kmin, kmin + deg)
            for j in range(kmin, kmin + deg + 1):
                lower = min(max(j - 1, kmin), kmin + deg - 1)
                try:
                    a = pe.instantiate(area_cls.qname, [lower, j, block, grid])
                except PERaise as e:
                    chk.fail("coefficients-are-lagrange", fcoef.qname, f"degree {deg}, block {block}, polynomial {j}: raises {e}", where=fcoef.where,
                             instance=f"{deg},{kmin},{j}")
                    continue
                coefs = pe.getattr(a, "coefs")
                cs = coefs.flat() if isinstance(coefs, Arr) else list(coefs)
                poly = dag.addn([dag.mul(dag.tonode(c), dag.power(x, i)) for i, c in enumerate(cs)])
                num = dag.const(1)
                den = dag.const(1)
                for k in range(kmin, kmin + deg + 1):
                    if k != j:
                        num = dag.mul(num, dag.sub(x, nodes[k]))
                        den = dag.mul(den, dag.sub(nodes[j], nodes[k]))
                ok, info = dag.is_zero_fp([dag.sub(poly, dag.div(num, den))], chk.seed, 2)
                n_lag += 1
                chk.decide(ok and len(cs) == deg + 1, "coefficients-are-lagrange", fcoef.qname,
                           f"degree {deg}, block {block}, polynomial {j}: sum coef_i x^i is not prod_(k != j)(x - x_k)/(x_j - x_k) "
                           f"({len(cs)} coefficients)", where=fcoef.where, instance=f"{deg},{kmin},{j}", data={"witness": info}, how="PE + PIT F_p")
                ok2 = pe.getattr(a, "xmin") is nodes[lower] and pe.getattr(a, "xmax") is nodes[lower + 1]
                chk.decide(ok2, "area-spans-its-interval", area_cls.qname, f"area {lower} of polynomial {j}: bounds are not (x[{lower}], x[{lower + 1}])",
                           where=area_cls.where, instance=f"{deg},{kmin},{j}")
    chk.floor("Lagrange identities", n_lag, 50)
    # out-of-block polynomial refused
    try:
        pe.instantiate(area_cls.qname, [0, 5, (0, 2), Arr.from_nested([dag.sym(f"n{k}") for k in range(6)])])
        chk.fail("area-spans-its-interval", area_cls.qname, "a polynomial outside the block is accepted", where=area_cls.where, instance="refusal")
    except PERaise as e:
        chk.decide("ValueError" in str(e), "area-spans-its-interval", area_cls.qname, f"raises {e}", where=area_cls.where, instance="refusal")
    # ---- (2) blocks ------------------------------------------------------------------------------------------------------------
    disp = src.cls(f"{IP}.InterpolatorDispatcher")
    bf_cls = src.cls(f"{IP}.BasisFunction")
    xg_cls = src.cls(f"{IP}.XGrid")
    n_lay = 0
    nmax = 40 if chk.tier == "thorough" else 24
    bad = []
    for n in list(range(2, nmax + 1)):
        for deg in range(1, min(6, n - 1) + 1):
            pe = mk_pe(src)
            cap = []
            pe.overrides[bf_cls.qname] = lambda p, a, k, cap=cap: cap.append((a, k)) or Obj(bf_cls)
            g = Obj(xg_cls)
            g.attrs.update(grid=Arr.from_nested([Fraction(i) for i in range(n)]), log=True, raw=Arr.from_nested([Fraction(i) for i in range(n)]))
            pe.overrides[f"{xg_cls.qname}.__len__"] = lambda p, a, k, n=n: n
            try:
                pe.instantiate(disp.qname, [g, deg])
            except PERaise as e:
                bad.append(f"n={n},deg={deg}: raises {e}")
                continue
            n_lay += 1
            if len(cap) != n:
                bad.append(f"n={n},deg={deg}: {len(cap)} basis functions")
                continue
            blocks = list(cap[0][0][2]) if len(cap[0][0]) > 2 else list(cap[0][1].get("list_of_blocks"))
            okb = len(blocks) == n - 1
            for i, b in enumerate(blocks):
                kmin, kmax = b
                okb = okb and kmax - kmin == deg and 0 <= kmin and kmax <= n - 1 and kmin <= i and i + 1 <= kmax
            okp = [c[0][1] for c in cap] == list(range(n)) and all(c[1].get("mode_log") is True for c in cap)
            if not (okb and okp):
                bad.append(f"n={n},deg={deg}: blocks {blocks[:6]}")
    chk.decide(not bad, "blocks-cover-their-interval", disp.qname, f"block layout wrong: {bad[:3]}; required: one block of degree+1 consecutive nodes "
               f"inside the grid per interval, containing the interval, polynomials 0..n-1 built with the grid's log flag", where=disp.where,
               how="exhaustive PE")
    chk.floor("block layouts", n_lay, 100)
    # BasisFunction: areas of polynomial j <-> blocks containing j
    pe = mk_pe(src)
    made = []
    pe.overrides[area_cls.qname] = lambda p, a, k: made.append(tuple(a)) or Obj(area_cls)
    pe.overrides[f"{bf_cls.qname}.areas_to_const"] = lambda p, a, k: None
    blocks = [(0, 2), (0, 2), (1, 3), (2, 4), (2, 4)]
    grid6 = Arr.from_nested([dag.sym(f"n{k}") for k in range(6)])
    okA = True
    for j in range(6):
        del made[:]
        try:
            pe.instantiate(bf_cls.qname, [grid6, j, blocks], {"mode_log": True, "mode_N": False})
        except PERaise as e:
            okA = okA and j == 5 and "ValueError" in str(e)  # node 5 lies in no block of this (truncated) list
            continue
        want = [(i, j, b) for i, b in enumerate(blocks) if b[0] <= j <= b[1]]
        got = [(m[0], m[1], tuple(m[2])) for m in made]
        okA = okA and got == want and all(m[3] is grid6 for m in made)
    chk.decide(okA, "areas-follow-the-blocks", bf_cls.qname, "BasisFunction does not create, for polynomial j, exactly one area per block containing j "
               "(with the interval index, j, the block and the grid)", where=bf_cls.where, how="PE")
    # ---- (3) evaluation ----------------------------------------------------------------------------------------------------------
    fev = src.func(f"{IP}.evaluate_x")
    pe = mk_pe(src)
    c = [[dag.sym(f"c{a}{i}") for i in range(3)] for a in range(2)]
    areas = Arr.from_nested([[Fraction(1), Fraction(2)] + c[0], [Fraction(2), Fraction(4)] + c[1]])
    pts = [(Fraction(1), 0), (Fraction(1) - Fraction(1, 10 ** 9), None), (Fraction(1) + EPS, 0), (Fraction(3, 2), 0), (Fraction(2), 0),
           (Fraction(2) + Fraction(1, 10 ** 9), 1), (Fraction(4), 1), (Fraction(4) + Fraction(1, 10 ** 9), None), (Fraction(0), None),
           (Fraction(1) - Fraction(1, 10 ** 6), None)]
    for xv, which in pts:
        try:
            got = pe.call(fev.qname, [xv, areas])
        except PERaise as e:
            chk.fail("evaluation-is-half-open", fev.qname, f"x={xv}: raises {e}", where=fev.where, instance=str(xv))
            continue
        want = dag.const(0) if which is None else dag.addn([dag.mul(c[which][i], dag.const(xv ** i)) for i in range(3)])
        ok, info = dag.is_zero_fp([dag.sub(dag.tonode(got), want)], chk.seed, 2)
        chk.decide(ok, "evaluation-is-half-open", fev.qname,
                   f"areas (1,2] and (2,4], x = {float(xv)!r}: the value is {dag.short(dag.tonode(got))}; required "
                   f"{'zero (outside the support)' if which is None else f'the polynomial of area {which}'} - intervals are open below and closed "
                   f"above, only the very first node is included, through an absolute tolerance of machine-epsilon size", where=fev.where,
                   instance=str(xv), how="PE")
    flx = src.func(f"{IP}.log_evaluate_x")
    pel = mk_pe(src)
    seen = []
    areas_in = Arr.from_nested([[dag.sym("lo"), dag.sym("hi"), dag.sym("c0")]])
    pel.overrides[fev.qname] = lambda p, a, k: seen.append((a[0], a[1])) or dag.sym("EVAL")
    try:
        got = pel.call(flx.qname, [dag.sym("X"), areas_in])
    except (PERaise, PEError) as e:
        got = None
        seen.append(("raises", str(e)))
    chk.decide(got is dag.sym("EVAL") and len(seen) == 1 and seen[0][0] is dag.fn("log", dag.sym("X")) and seen[0][1] is areas_in,
               "evaluation-is-half-open", flx.qname, f"log_evaluate_x(X, areas) is not evaluate_x(log X, areas): evaluate_x received "
               f"{[dag.short(dag.tonode(a)) if not isinstance(a, (str, Arr)) else type(a).__name__ for a, _ in seen]}", where=flx.where, instance="log",
               how="PE with recording evaluate_x")
    # ---- (4) re-interpolation + tolerance rule -------------------------------------------------------------------------------------
    fgi = disp.methods["get_interpolation"]
    pe = mk_pe(src)
    pe.ext["numpy.allclose"] = lambda p, a, k: False
    pe.overrides[f"{bf_cls.qname}.evaluate_x"] = lambda p, a, k: dag.fn("b", dag.const(a[0].attrs["j"]), dag.tonode(a[1]))
    d = Obj(disp)
    basis = []
    for j in range(3):
        b = Obj(bf_cls)
        b.attrs.update(j=j)
        basis.append(b)
    g = Obj(xg_cls)
    g.attrs.update(raw=Arr.from_nested([dag.sym(f"g{i}") for i in range(3)]), grid=Arr.from_nested([dag.sym(f"g{i}") for i in range(3)]))
    pe.overrides[f"{xg_cls.qname}.__len__"] = lambda p, a, k: 3
    d.attrs.update(basis=basis, xgrid=g, log=True, polynomial_degree=2)
    tg = [dag.sym("t0"), dag.sym("t1")]
    R = pe.apply(pe.getattr(d, "get_interpolation"), [tg], {})
    ok = isinstance(R, Arr) and tuple(R.shape) == (2, 3) and all(R[i, j] is dag.fn("b", dag.const(j), tg[i]) for i in range(2) for j in range(3))
    chk.decide(ok, "reinterpolation-matrix", fgi.qname, "get_interpolation(target) is not R[i][j] = basis_j(target_i)", where=fgi.where, how="PE")
    permuted_target_rule(chk, src, "reinterpolation-matrix")
    two_dispatchers_rule(chk, src, "reinterpolation-matrix")
    n_tol = 0
    for mod in ("eko.interpolation", "eko.io.manipulate"):
        for q, f in src.funcs.items():
            if not q.startswith(mod + "."):
                continue
            for cl in src.calls_in(f):
                d_ = src.resolve_name(f.module, src.dotted(cl.func) or "") or ""
                if d_ in ("numpy.allclose", "numpy.isclose"):
                    txt = " ".join(ast.unparse(a) for a in cl.args)
                    if any(tok in txt for tok in ("raw", "xgrid", "targetgrid", "xmin", "xmax", "grid")):
                        n_tol += 1
                        kws = {k.arg: ast.unparse(k.value) for k in cl.keywords}
                        chk.decide("atol" in kws, "no-default-absolute-tolerance-on-x", q, f"`{ast.unparse(cl)[:70]}` compares x-grid values with "
                                   f"numpy's default atol=1e-8, which is larger than small-x grid points: grids differing only at very small x are "
                                   f"declared equal", where=f"{f.module.relpath}:{cl.lineno}", instance=ast.unparse(cl)[:50])
    chk.floor("tolerance call sites on x grids", n_tol, 3)
    # ---- (5) guards ------------------------------------------------------------------------------------------------------------------
    fxi = xg_cls.methods["__init__"]
    pe = mk_pe(src)
    cases = [([Fraction(1, 10), Fraction(1, 10), Fraction(1)], True), ([Fraction(1)], True), ([], True), ([Fraction(1, 10), Fraction(1)], False),
             ([Fraction(1, 2), Fraction(1, 10), Fraction(1)], False)]
    for grid_, refused in cases:
        made = None
        try:
            made = pe.instantiate(xg_cls.qname, [list(grid_)], {"log": False})
            got = False
        except PERaise as e:
            got = "ValueError" in str(e)
        chk.decide(got == refused, "invalid-grids-and-degrees-are-refused", fxi.qname, f"grid {[str(v) for v in grid_]}: refused={got}, required {refused}",
                   where=fxi.where, instance=str(len(grid_)) + ("dup" if len(set(grid_)) != len(grid_) else ""), how="PE")
        if made is not None and not refused:
            # an accepted grid is stored in ascending order (the blocks, the half-open evaluation and is_below_x all rely on it):
            # points given in another order are a valid grid, not a different one
            stored = pe.getattr(made, "raw")
            chk.need(isinstance(stored, Arr), "XGrid.raw of an accepted grid is not an array any more")
            vals = [dag.as_const(dag.tonode(v)) for v in stored.flat()]
            chk.decide(vals == sorted(grid_), "accepted-grid-is-ascending", fxi.qname,
                       f"points given as {[str(v) for v in grid_]} are stored as {[str(v) for v in vals] if vals else stored}; required ascending "
                       f"order: with areas whose lower edge lies above the upper one the basis is no partition of unity", where=fxi.where,
                       instance="order:" + ",".join(str(v) for v in grid_), how="PE")
    for n, deg in itertools.product(range(2, 8), range(-1, 8)):
        pe = mk_pe(src)
        pe.overrides[bf_cls.qname] = lambda p, a, k: Obj(bf_cls)
        g = Obj(xg_cls)
        g.attrs.update(grid=Arr.from_nested([Fraction(i) for i in range(n)]), log=False, raw=Arr.from_nested([Fraction(i) for i in range(n)]))
        pe.overrides[f"{xg_cls.qname}.__len__"] = lambda p, a, k, n=n: n
        try:
            pe.instantiate(disp.qname, [g, deg])
            got = False
        except PERaise as e:
            got = "ValueError" in str(e)
        want = deg < 1 or n <= deg
        if got != want:
            chk.fail("invalid-grids-and-degrees-are-refused", disp.qname, f"{n} points, degree {deg}: refused={got}, required {want}", where=disp.where,
                     instance=f"{n},{deg}")
    chk.ok("invalid-grids-and-degrees-are-refused", disp.qname, "6 x 9 (points, degree) combinations", how="exhaustive PE")
    chk.note(lagrange=n_lag, layouts=n_lay, files=["src/eko/interpolation.py", "src/eko/io/manipulate.py"])
    chk.explanation = "Lagrange identity (symbolic nodes), block layouts (exhaustive), evaluation semantics, tolerance rule, guards."


def two_dispatchers_rule(chk, src, rule):
    """two interpolators over the SAME points, one logarithmic and one linear, asked for the same target grid one after the other in
    one process: each matrix is made of the basis functions of the dispatcher that was asked (nothing computed for the first one is
    handed out for the second)"""
    xg_cls = src.cls(f"{IP}.XGrid")
    disp = src.cls(f"{IP}.InterpolatorDispatcher")
    bf_cls = src.cls(f"{IP}.BasisFunction")
    fgi = disp.methods["get_interpolation"]
    pe = mk_pe(src)
    pe.overrides[f"{bf_cls.qname}.evaluate_x"] = lambda p, a, k: dag.fn("b" + a[0].attrs["tag"], dag.const(a[0].attrs["j"]), dag.tonode(a[1]))
    pts = [Fraction(1, 10), Fraction(1, 2), Fraction(1)]
    tg = [Fraction(1, 5), Fraction(3, 4)]
    bad = None
    for tag, log in (("L", True), ("X", False), ("L", True)):
        g = pe.instantiate(xg_cls.qname, [list(pts)], {"log": log})
        d = Obj(disp)
        basis = []
        for j in range(3):
            b = Obj(bf_cls)
            b.attrs.update(j=j, tag=tag)
            basis.append(b)
        d.attrs.update(basis=basis, xgrid=g, log=log, polynomial_degree=1)
        try:
            R = pe.apply(pe.getattr(d, "get_interpolation"), [Arr.from_nested(list(tg))], {})
            ok = isinstance(R, Arr) and tuple(R.shape) == (2, 3) and all(R[i, j] is dag.fn("b" + tag, dag.const(j), dag.tonode(tg[i])) for i in range(2) for j in range(3))
            got = dag.short(dag.tonode(R[0, 0])) if isinstance(R, Arr) else repr(R)[:40]
        except PERaise as e:
            ok, got = False, f"raises {e}"
        if not ok and bad is None:
            bad = (log, got)
    chk.decide(bad is None, rule, fgi.qname,
               f"dispatchers over the same points asked in the order logarithmic, linear, logarithmic for one target grid: the {'logarithmic' if bad and bad[0] else 'linear'} "
               f"one returns entries like {bad[1] if bad else ''}; required the values of ITS OWN basis functions at the target points (a matrix remembered from the "
               f"other kind of interpolation does not reproduce polynomials in this one's variable)", where=fgi.where, instance="log then linear, same points",
               how="PE of consecutive requests in one evaluator, tagged basis functions")


def permuted_target_rule(chk, src, rule):
    """shared with C43 (a target grid given to apply / rotate_result goes through the same matrix)"""
    xg_cls = src.cls(f"{IP}.XGrid")
    disp = src.cls(f"{IP}.InterpolatorDispatcher")
    bf_cls = src.cls(f"{IP}.BasisFunction")
    fgi = disp.methods["get_interpolation"]
    # a target grid made of the internal points in ANOTHER ORDER is not the internal grid: the matrix is the permutation, not the identity
    pe = mk_pe(src)
    pe.overrides[f"{bf_cls.qname}.evaluate_x"] = lambda p, a, k: dag.fn("b", dag.const(a[0].attrs["j"]), dag.tonode(a[1]))
    pts = [Fraction(1, 10), Fraction(1, 2), Fraction(1)]
    g = pe.instantiate(xg_cls.qname, [list(pts)], {"log": False})
    d = Obj(disp)
    basis = []
    for j in range(3):
        b = Obj(bf_cls)
        b.attrs.update(j=j)
        basis.append(b)
    d.attrs.update(basis=basis, xgrid=g, log=False, polynomial_degree=1)
    tg = list(reversed(pts))
    try:
        R = pe.apply(pe.getattr(d, "get_interpolation"), [Arr.from_nested(tg)], {})
        ok = isinstance(R, Arr) and tuple(R.shape) == (3, 3) and all(R[i, j] is dag.fn("b", dag.const(j), dag.tonode(tg[i])) for i in range(3) for j in range(3))
        got = "the identity" if isinstance(R, Arr) and all(dag.as_const(dag.tonode(R[i, j])) == (1 if i == j else 0) for i in range(3) for j in range(3)) else "another matrix"
    except PERaise as e:
        ok, got = False, f"raises {e}"
    chk.decide(ok, rule, fgi.qname, f"the internal points in descending order as target grid: get_interpolation returns {got}; "
               f"required R[i][j] = basis_j(target_i) (a permutation): results come back in the order of the target grid", where=fgi.where,
               instance="permuted internal grid", how="PE")
