"""C51 - scale-varied EKOs agree with the central EKO to the working order (unit-ratio clause + structure)."""
from __future__ import annotations

import ast
from fractions import Fraction

from .. import dag, qk
from ..arr import Arr
from ..core import pmap
from ..pe import PE, Obj, Env, decide_on_values, named_arguments
from ..series import valuation_at_least
from ..src import load, stmt_text

LEVEL = "proof"
META = {
    "text": "(1) UNIT RATIO: with L = ln(xi^2) = 0 the integrand kernels quad_ker_qcd / quad_ker_qed extracted for the exponentiated "
            "and for the expanded scheme are proved identical, as formulas, to the unvaried kernel, for every order, sector and a "
            "representative of each method class (QCD orders 1-4, QED orders (n,1..2)); likewise the matching kernel (quad_ker_ome with "
            "symbolic matrix elements). (2c) MATCHING KERNEL: quad_ker_ome in the exponentiated scheme, evaluated at the (nf+1)-flavour "
            "coupling of xi^2 mu_h^2 (RGE series of nf+1 flavours), differs from the central matching kernel only beyond the matching "
            "order, for nf = 3, 4, 5 light flavours, matching orders 1-3, singlet and non-singlet entries. (2) "
            "WORKING ORDER, non-singlet closed form: for the exact kernel the scale-varied combination K_sv(a(xi^2 mu^2)) is shown "
            "to differ from the unvaried one only at relative order a^n: the expanded factor times the kernel evaluated at the "
            "shifted coupling, with the coupling shift given by the RGE series, has ln-ratio valuation >= n in the joint scaling "
            "(Laurent series over F_p), for n = 1..4, and the exponentiated shift likewise. (3) STRUCTURE: Operator.mu2 (which "
            "couplings enter a segment) follows the documented table over (scheme, threshold flag); the couplings' matching "
            "scales are shifted by xi^2 only in the exponentiated scheme (runner.commons.couplings). (3b) the identity shortcut of Operator.compute is taken only for "
            "coinciding scales and never on the last operator of the expanded scheme (where K(a, ln xi^2) != 1 from NLO on, also when the coupling distance vanishes)."
            " (3c) Operator.compute_a asks the coupling object for exactly the two scales of Operator.mu2, also on a zero-length segment.",
    "note": "The O(a_s^n) law of complete operators (quadrature, interpolation) is a runtime statement; what is proved is the law "
            "for the integrand in the non-singlet closed form and the exact unit-ratio identity for every kernel.",
    "technique": "differential partial evaluation + polynomial identity testing + Laurent-series valuation; truth table by exhaustive PE",
    "engine": "sa",
}

OP = "eko.evolution_operator.Operator"


def mu2_table(chk, src, pe, rule="segment-couplings-table"):
    """Operator.mu2 over (scheme, threshold): documented table."""
    cls = src.cls(OP)
    f = cls.methods["mu2"]
    svm = pe.enum_members(pe.get_global("eko.io.types", "ScaleVariationsMethod").cls)
    q0, q1, x = dag.sym("q2_from"), dag.sym("q2_to"), dag.sym("xif2")
    n = 0
    for scheme in (None, "EXPONENTIATED", "EXPANDED"):
        for thr in (False, True):
            o = Obj(cls)
            modsv = None if scheme is None else next(v for k, v in svm.items() if k.upper() == scheme)
            o.attrs.update(config={"ModSV": modsv, "xif2": x}, q2_from=q0, q2_to=q1, is_threshold=thr)
            mu0, mu1 = pe.getattr(o, "mu2")
            want0 = dag.mul(q0, x) if scheme == "EXPONENTIATED" else q0
            want1 = dag.mul(q1, x) if (scheme == "EXPONENTIATED" or (scheme == "EXPANDED" and not thr)) else q1
            ok, info = dag.is_zero_fp([dag.sub(mu0, want0), dag.sub(mu1, want1)], chk.seed, 2)
            n += 1
            chk.decide(ok, rule, f.qname,
                       f"scheme={scheme}, is_threshold={thr}: couplings are taken at ({dag.short(dag.tonode(mu0))}, {dag.short(dag.tonode(mu1))}) "
                       f"instead of ({dag.short(want0)}, {dag.short(want1)}): initial scale shifted only in the exponentiated scheme, final "
                       f"scale shifted in the exponentiated scheme and, for the last (non-threshold) segment, in the expanded scheme",
                       where=f.where, instance=f"{scheme},{thr}", how="exhaustive PE")
    return n


def _unit_case(rec, case):
    """one unvaried kernel and its scale-varied siblings at L = 0 (worker of the parallel map)"""
    src, pe = qk.make_pe()
    M, SV = qk.enums(pe)
    fq = src.func(f"{qk.QK}.quad_ker_qcd")
    fe = src.func(f"{qk.QK}.quad_ker_qed")

    def same(a, b):
        fa = a.flat() if isinstance(a, Arr) else [a]
        fb = b.flat() if isinstance(b, Arr) else [b]
        return dag.is_zero_fp([dag.sub(x, y) for x, y in zip(fa, fb)], rec.seed, 2)

    if case[0] == "qcd":
        _, n, mname, m0, m1 = case
        base = dict(order=(n, 0), mode0=m0, mode1=m1, method=M[mname], nf=4, its=1)
        ref = qk.qcd(pe, sv_mode=SV["unvaried"], Lsv=0, **base)
        for scheme in ("exponentiated", "expanded"):
            for thr in (False, True):
                v = qk.qcd(pe, sv_mode=SV[scheme], Lsv=0, is_threshold=thr, **base)
                ok, info = same(ref, v)
                rec.decide(ok, "unit-ratio-reproduces-unvaried-kernel", fq.qname,
                           f"order={n}, {mname}, sector ({m0},{m1}), {scheme}, threshold={thr}: with xi=1 the kernel differs from the "
                           f"unvaried one", where=fq.where, instance=f"{n},{mname},{m0},{scheme},{thr}", how="differential PE + PIT")
    else:
        _, n, m, m0, m1, running = case
        base = dict(order=(n, m), mode0=m0, mode1=m1, method=M["ITERATE_EXACT"], nf=4, its=1, running=running)
        ref = qk.qed(pe, sv_mode=SV["unvaried"], Lsv=0, **base)
        for scheme in ("exponentiated", "expanded"):
            v = qk.qed(pe, sv_mode=SV[scheme], Lsv=0, **base)
            ok, info = same(ref, v)
            rec.decide(ok, "unit-ratio-reproduces-unvaried-kernel", fe.qname,
                       f"order=({n},{m}), sector ({m0},{m1}), {scheme}, running={running}: with xi=1 the QED kernel differs from "
                       f"the unvaried one", where=fe.where, instance=f"({n},{m}),{m0},{scheme},{running}", how="differential PE + PIT")


def end_point_couplings(chk, src, rule="end-point-couplings-follow-the-mu2-table"):
    """Operator.compute_a asks the coupling object for exactly the two scales of Operator.mu2 - also for a segment of zero length,
    where in the expanded scheme the final coupling still sits at xif2 mu_to^2 (the compensating evolution between the two is what
    makes the varied operator agree with the central one to the working order)."""
    from ..pe import Opaque

    ocls = src.cls(OP)
    f = ocls.methods["compute_a"]
    n = 0
    for thr in (False, True):
        for scheme in (None, "exponentiated", "expanded"):
            for q_to in (Fraction(20), Fraction(10)):
                pe = PE(src)
                asked = []

                class SC(Opaque):
                    def a(self, scale_to=None, nf_to=None, **k):
                        asked.append(scale_to)
                        return Arr.from_nested([dag.sym(f"as{len(asked)}"), dag.sym(f"aem{len(asked)}")])

                o = Obj(ocls)
                mg = Opaque()
                mg.couplings = SC()
                svm = {k.lower(): v for k, v in pe.enum_members(pe.get_global("eko.io.types", "ScaleVariationsMethod").cls).items()}
                o.attrs.update(managers=mg, nf=4, order=(3, 0), q2_from=Fraction(10), q2_to=q_to, is_threshold=thr,
                               config={"ModSV": svm.get(scheme) if scheme else None, "xif2": Fraction(2)})
                inst = f"scheme={scheme},threshold={thr},mu2_from=10,mu2_to={q_to},xif2=2"
                try:
                    want = list(pe.getattr(o, "mu2"))
                    got = pe.apply(pe.getattr(o, "compute_a"), [], {})
                except PERaise as e:
                    chk.fail(rule, f.qname, f"{inst}: raises {e}", where=f.where, instance=inst)
                    continue
                n += 1
                vals = [dag.as_const(dag.tonode(x)) for x in asked]
                # the two returned couplings are the answers to requests at mu2[0] and mu2[1] (a request may be shared when they coincide)
                ok = isinstance(got, tuple) and len(got) == 2 and set(vals) == {Fraction(w) for w in want} and \
                    all(dag.as_const(dag.tonode(asked[int(str(g_[0].payload)[2:]) - 1])) == Fraction(w) for g_, w in zip(got, want)
                        if isinstance(g_, Arr) and getattr(g_[0], "op", None) == "sym")
                chk.decide(ok, rule, f.qname,
                           f"{inst}: couplings requested at {[str(v) for v in vals]}, required at {[str(w) for w in want]} (Operator.mu2) - with the final "
                           f"coupling of a zero-length expanded segment taken at mu_from^2 the evolution that compensates K(a_s, ln xif2) is dropped and the "
                           f"varied operator differs from the central one at relative O(a_s)", where=f.where, instance=inst,
                           how="PE with a recording coupling object")
    chk.floor("end-point coupling requests", n, 12)


def shortcut_rule(chk, src, rule="shortcut-never-drops-the-expanded-factor"):
    """Operator.compute takes the identity shortcut only where the operator IS the identity (shared with C53: anywhere else the
    operator jumps to the identity inside the tolerance window of the comparison)."""
    # (3b) the identity shortcut of Operator.compute: in the expanded scheme the last (non-threshold) operator is K(a, ln xif2) . E;
    # from NLO on K != 1, so the shortcut may never be taken there - also when the COUPLING distance vanishes (xif2 mu_to^2 = mu_from^2),
    # which makes E = 1 but not K.  In every other regime it may be taken only for coinciding scales.
    from .c01 import _make_operator
    from ..pe import PERaise

    fcomp = src.func(f"{OP}.compute")
    n_short = 0
    for order in ((2, 0), (4, 0), (2, 1)):
        pes = PE(src)
        integrated = []
        pes.overrides[f"{OP}.integrate"] = lambda pe_, a, k, integrated=integrated: integrated.append(1)
        for scheme in ("unvaried", "exponentiated", "expanded"):
            for xif2 in ((Fraction(1),) if scheme == "unvaried" else (Fraction(2), Fraction(1, 2))):
                for thr in (False, True):
                    for q_to in (Fraction(100), Fraction(100) / xif2, Fraction(100) * xif2, Fraction(400)):
                        inst = f"order={order},scheme={scheme},xif2={xif2},threshold={thr},mu2_from=100,mu2_to={q_to}"
                        o = _make_operator(pes, src, order, 4, scheme, xif2, thr)
                        o.attrs["q2_to"] = q_to
                        del integrated[:]
                        try:
                            pes.apply(pes.getattr(o, "compute"), [], {})
                        except PERaise as e:
                            chk.fail(rule, fcomp.qname, f"compute raises {e} ({inst})", where=fcomp.where, instance=inst)
                            continue
                        n_short += 1
                        factor = scheme == "expanded" and xif2 != 1 and not thr
                        may_skip = q_to == 100 and not factor
                        chk.decide(bool(integrated) or may_skip, rule, fcomp.qname,
                                   f"{inst}: compute returns the identity without integrating, but the operator is "
                                   + ("K(a_s, ln xif2) times the evolution between the couplings, and K != 1 from NLO on whatever the coupling distance"
                                      if factor else "the evolution between two different scales") + " - the varied and the central operator then differ at "
                                   "relative O(a_s), not beyond the working order", where=fcomp.where, instance=inst, how="exhaustive PE of Operator.compute")
    chk.floor("shortcut instances", n_short, 100)


def run(chk):
    src, pe = qk.make_pe()
    M, SV = qk.enums(pe)
    chk.rule_text = "kernel(scheme, L=0) == kernel(unvaried); ln-ratio of scale-varied NS kernel = O(a^n); mu2 table"
    fq = src.func(f"{qk.QK}.quad_ker_qcd")
    fe = src.func(f"{qk.QK}.quad_ker_qed")
    n_inst = 0

    def same(a, b):
        fa = a.flat() if isinstance(a, Arr) else [a]
        fb = b.flat() if isinstance(b, Arr) else [b]
        return dag.is_zero_fp([dag.sub(x, y) for x, y in zip(fa, fb)], chk.seed, 2)

    # ---- (1) unit ratio (independent kernel extractions: run in parallel) -----------------------------------------------
    cases = []
    for n in (1, 2, 3, 4):
        for mname in (("ITERATE_EXACT", "TRUNCATED", "DECOMPOSE_EXPANDED") if chk.tier == "thorough" else ("ITERATE_EXACT", "TRUNCATED")):
            for (m0, m1) in (((100, 21), (21, 21), (10101, 0), (10201, 0), (10200, 0)) if chk.tier == "thorough"
                             else ((100, 21), (10101, 0), (10200, 0))):
                cases.append(("qcd", n, mname, m0, m1))
    for n, m in ((1, 1), (2, 2), (3, 2), (4, 1)):
        for (m0, m1) in ((21, 22), (100, 101), (10200, 10204), (10102, 0), (10203, 0)):
            for running in (False, True):
                cases.append(("qed", n, m, m0, m1, running))
    n_inst = sum(4 if c[0] == "qcd" else 2 for c in cases)
    pmap(chk, _unit_case, cases, jobs=14)
    chk.floor("unit-ratio kernel comparisons", n_inst, 150)

    # ---- (2) working-order law for the non-singlet exact kernel -------------------------------------------------------
    # unvaried:  E(a1, a0)  with a_i = a(mu_i^2).   scale-varied: couplings at xi^2 mu^2, i.e. A_i = a_i - beta0 L a_i^2 - ...
    # (RGE series, da/dlnmu^2 = -sum beta_k a^(k+2));  expanded: K(A1) E(A1, A0);  exponentiated: E'(A1, A0) with shifted gammas.
    from .. import alg, literature as lit

    L = dag.sym("L")
    betas = [dag.substitute(lit.BETA_QCD[(2 + i, 0)][0], {"nf": 4}) for i in range(4)]
    run_series = alg.running_coupling_series(betas, 5, -1)  # a(l) with da/dl = -beta(a): coupling at the higher scale
    for n in (1, 2, 3, 4):
        def shifted(sym):
            return dag.addn([dag.mul(run_series.coeff_a(i, L), dag.power(dag.sym(sym), i)) for i in range(1, 6) if run_series.coeff_a(i, L) is not None])

        A1, A0 = shifted("as1"), shifted("as0")
        base = dict(order=(n, 0), mode0=10201, mode1=0, method=M["ITERATE_EXACT"], nf=4, its=1)
        E = qk.qcd(pe, sv_mode=SV["unvaried"], Lsv=0, **base)
        for scheme in ("expanded", "exponentiated"):
            Ksv = qk.qcd(pe, sv_mode=SV[scheme], Lsv=L, **base)
            Ksv = dag.substitute(dag.tonode(Ksv), {"as1": A1, "as0": A0}) if scheme == "exponentiated" else \
                dag.substitute(dag.tonode(Ksv), {"as1": A1})
            # expanded scheme: only the final coupling is shifted (mu2 table: initial scale unshifted); the kernel then runs
            # from a0 to A1 and is multiplied by the expanded factor - compare with E(a1,a0) at relative order a^n
            d = dag.sub(dag.fn("log", Ksv), dag.fn("log", E))
            d1 = dag.diff(d, "as1")
            ok, info = valuation_at_least([d1], {"as1": 1, "as0": 1}, n - 1, chk.seed, 2)
            chk.decide(ok, "scale-variation-is-higher-order", fq.qname,
                       f"order={n}, {scheme}: d/da1 ln[K_sv/K] has a term of order a^{info.get('lowest_power')} (< a^{n - 1}): the scale-"
                       f"varied non-singlet kernel differs from the central one below relative order a^{n}", where=fq.where,
                       instance=f"{n},{scheme}", data={"witness": info}, how="Laurent series over F_p")
    # singlet: K_sv = SV(a', L) K(a', a0) and K(a, a0) = K(a, a') K(a', a0) for the path-ordered solution, so the law holds iff
    # SV(a', L) equals the path-ordered exponential from a' back to a through a^(n-1) - with non-commuting matrices
    from .. import kern

    fsv = src.func("eko.scale_variations.expanded.singlet_variation")
    a_s = dag.sym("a_s")
    nfs = dag.sym("nf")
    bl = [lit.BETA_QCD[(2 + i, 0)][0] for i in range(3)]
    for n in (1, 2, 3, 4):
        gm = [Arr.from_nested([[dag.sym(f"S{i}_{r}{c}") for c in range(2)] for r in range(2)]) for i in range(n)]
        Km = alg.path_ordered_exponential(gm, bl, max(n - 1, 0), kern.eye(2))
        want = None
        for i in range(0, n):
            term = alg.vmul(dag.power(a_s, i), Km.coeff_a(i, L))
            want = term if want is None else alg.vadd(want, term)
        got = pe.call(fsv.qname, [Arr.from_nested([g.tolist() for g in gm]), a_s, (n, 0), nfs, L, 2])
        ok, info = dag.is_zero_fp(kern.mat_sub(got, want).flat(), chk.seed, 2)
        chk.decide(ok, "scale-variation-is-higher-order", fsv.qname,
                   f"order={n}, singlet expanded factor: differs from the path-ordered exponential of gamma over ln xi^2 (kept in "
                   f"order) below a^{n}: the scale-varied singlet operator then differs from the central one below relative order a^{n}",
                   where=fsv.where, instance=f"{n},singlet-expanded", data={"witness": info}, how="Picard series + PIT F_p")
    # ---- (2c) the matching kernel in the exponentiated scheme ----------------------------------------------------------------------
    # central: M(a) = 1 + sum_k a^k A_k with a the (nf+1)-flavour coupling at the matching scale; exponentiated: the same series in the
    # coupling at xi^2 times that scale with re-expanded coefficients.  The two agree through a^K (K the matching order) exactly when the
    # re-expansion uses the beta function of THAT coupling, i.e. of nf+1 flavours - decided on quad_ker_ome itself with symbolic matrix
    # elements, so the flavour number handed to the re-expansion at the call site is part of what is decided.
    from ..pe import Opaque, PERaise

    fo = src.func(f"{qk.QK}.quad_ker_ome")
    OMEQ = "ekore.operator_matrix_elements.unpolarized.space_like"
    n_ome = 0
    for nf_light in (3, 4, 5):
        betas_up = [dag.substitute(lit.BETA_QCD[(2 + i, 0)][0], {"nf": nf_light + 1}) for i in range(4)]
        series_up = alg.running_coupling_series(betas_up, 5, -1)
        a_c = dag.sym("a")
        a_sv = dag.addn([dag.mul(series_up.coeff_a(i, L), dag.power(a_c, i)) for i in range(1, 6) if series_up.coeff_a(i, L) is not None])
        for K in (1, 2, 3):
            for sector, (m0, m1), dim in (("singlet", (100, 21), 3), ("singlet", (90, 90), 3), ("non-singlet", (200, 200), 2)):
                src_o, peo = qk.make_pe()
                prev_assume = peo.assume

                def assume_generic(text, env, peo=peo, prev_assume=prev_assume):
                    r = prev_assume(text, env)
                    return r if r is not None else decide_on_values(peo, text, env)    # a generic integrand factor is not zero

                peo.assume = assume_generic

                class KB(Opaque):
                    def __init__(self, u, is_log, logx, mode0):
                        self.is_singlet = mode0 in (100, 21, 90)
                        self.is_QEDsinglet = False
                        self.n = dag.sym("N")

                    def integrand(self, areas):
                        return dag.sym("J")

                peo.overrides[f"{qk.QK}.QuadKerBase"] = lambda p_, a, k: KB(*a)
                Asym = Arr.from_nested([[[dag.sym(f"A{k}_{r}{c}") for c in range(dim)] for r in range(dim)] for k in range(1, K + 1)])
                peo.overrides[f"{OMEQ}.A_singlet"] = lambda p_, a, k, Asym=Asym: Asym.copy()
                peo.overrides[f"{OMEQ}.A_non_singlet"] = lambda p_, a, k, Asym=Asym: Asym.copy()
                _M, SVo = qk.enums(peo)

                def ker(mode, coupling, Lsv_):
                    return peo.call(fo.qname, [dag.sym("u"), (K, 0), m0, m1, True, dag.sym("logx"), "AREAS", coupling, nf_light, dag.sym("Lm"), SVo[mode], Lsv_,
                                               None, False, False, False])

                inst = f"matching order {K}, {sector} ({m0},{m1}), {nf_light}->{nf_light + 1} flavours"
                try:
                    central = ker("unvaried", a_c, 0)
                    varied = ker("exponentiated", a_sv, L)
                    unit = ker("exponentiated", a_c, 0)
                except PERaise as e:
                    chk.fail("scale-variation-is-higher-order", fo.qname, f"{inst}: quad_ker_ome raises {e}", where=fo.where, instance=inst)
                    continue
                n_ome += 1
                oku, _ = dag.is_zero_fp([dag.sub(dag.tonode(unit), dag.tonode(central))], chk.seed, 2)
                chk.decide(oku, "unit-ratio-reproduces-unvaried-kernel", fo.qname, f"{inst}: with xi=1 the exponentiated matching kernel differs from the "
                           f"unvaried one", where=fo.where, instance=inst, how="PE + PIT")
                ok, info = valuation_at_least([dag.sub(dag.tonode(varied), dag.tonode(central))], {"a": 1}, K + 1, chk.seed, 2)
                chk.decide(ok, "scale-variation-is-higher-order", fo.qname,
                           f"{inst}, exponentiated: the matching kernel at the coupling of xi^2 mu_h^2 differs from the central one at order "
                           f"a^{info.get('lowest_power')} (required: not below a^{K + 1}); the series in the ({nf_light + 1})-flavour coupling must be "
                           f"re-expanded with the beta function of {nf_light + 1} flavours", where=fo.where, instance=inst, data={"witness": info},
                           how="PE of quad_ker_ome with symbolic matrix elements + Laurent series over F_p")
    chk.floor("matching-kernel instances", n_ome, 27)
    # ---- (3) structure ------------------------------------------------------------------------------------------------------
    pe2 = PE(src)
    n_tab = mu2_table(chk, src, pe2)
    chk.floor("mu2 table rows", n_tab, 6)
    shortcut_rule(chk, src)
    end_point_couplings(chk, src)
    fc = src.func("eko.runner.commons.couplings")
    # evaluated with a recording Couplings class for the three schemes: the matching ratios handed to the couplings are the squared
    # ratios of the card, times xif^2 in the exponentiated scheme only
    from ..pe import Opaque

    SVM = pe2.enum_members(pe2.get_global("eko.io.types", "ScaleVariationsMethod").cls)
    ks = [dag.sym("kc"), dag.sym("kb"), dag.sym("kt")]
    xif = dag.sym("xif")
    for scheme in ("EXPONENTIATED", "EXPANDED", None):
        rec = []
        pe3 = PE(src)
        pe3.overrides["eko.couplings.Couplings"] = lambda p_, a, k, rec=rec: rec.append(named_arguments(k)) or "SC"
        pe3.overrides["eko.io.runcards.masses"] = lambda p_, a, k: "MASSES"
        th, op = Opaque(), Opaque()
        th.heavy = Opaque()
        th.heavy.matching_ratios = list(ks)
        th.heavy.masses_scheme = "SCHEME"
        th.xif, th.order, th.couplings = xif, (2, 0), "REF"
        op.configs = Opaque()
        op.configs.evolution_method = pe3.enum_members(pe3.get_global("eko.io.types", "EvolutionMethod").cls)["ITERATE_EXACT"]
        op.configs.scvar_method = pe3.enum_members(pe3.get_global("eko.io.types", "ScaleVariationsMethod").cls)[scheme] if scheme else None
        pe3.call(fc.qname, [th, op])
        chk.need(len(rec) == 1, "runner.commons.couplings no longer builds exactly one Couplings object")
        tr = rec[0].get("thresholds_ratios")
        tr = tr.flat() if isinstance(tr, Arr) else list(tr) if isinstance(tr, (list, tuple)) else []
        factor = dag.power(xif, 2) if scheme == "EXPONENTIATED" else dag.const(1)
        ok = len(tr) == 3 and dag.is_zero_fp([dag.sub(dag.tonode(t), dag.mul(dag.power(k_, 2), factor)) for t, k_ in zip(tr, ks)], chk.seed, 2)[0]
        chk.decide(ok, "matching-scales-shifted-only-when-exponentiated", fc.qname,
                   f"scheme {scheme}: the couplings get the matching ratios {[dag.short(dag.tonode(t)) for t in tr]}; required k^2"
                   f"{' * xif^2' if scheme == 'EXPONENTIATED' else ''} (the matching scales of the coupling follow the renormalisation scale "
                   f"only in the exponentiated scheme)", where=fc.where, instance=str(scheme), how="PE with a recording Couplings class")
    chk.note(instances=n_inst, files=["src/eko/evolution_operator/quad_ker.py", "src/eko/scale_variations/", "src/eko/evolution_operator/__init__.py",
                                      "src/eko/runner/commons.py"])
    chk.explanation = "Unit-ratio identity for all integrand kernels; working-order law for the closed-form non-singlet kernel; mu2 table."
