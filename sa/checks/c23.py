"""C23 - matrix exponentials and eigen-projectors are correct."""
from __future__ import annotations

import itertools

from .. import dag, kern
from ..arr import Arr
from ..pe import PE, PERaise, decide_on_values
from ..src import load

LEVEL = "proof"
META = {
    "text": "CLOSED FORM (2x2): exp_matrix_2D is partially evaluated on a symbolic complex 2x2 matrix; with the square root of the "
            "discriminant as an algebraic element the returned eigenvalues and projectors are proved to satisfy e+ + e- = 1, "
            "e+ e- = e- e+ = 0, e+^2 = e+, e-^2 = e-, M = l+ e+ + l- e-, l+ + l- = tr M, l+ l- = det M and exp = "
            "e^{l+} e+ + e^{l-} e-, each paired with its own eigenvalue in the order returned. GENERAL: exp_matrix is "
            "partially evaluated for dimension 2 and 4 on M = V diag(w) V^-1 built from a symbolic eigen-system, with "
            "numpy.linalg.eig modelled as returning that eigen-system and the inverse taken symbolically: the projectors "
            "e_i = v_i (x) (V^-1)_i satisfy e_i e_j = delta_ij e_i, sum e_i = 1, M = sum w_i e_i with w and e in the same "
            "order, and exp = sum e^{w_i} e_i; the closed form and the general routine agree on the same 2x2 matrix.",
    "note": "That numpy.linalg.eig returns a correct eigen-system is the library's contract and is assumed; numerical conditioning "
            "for nearly degenerate matrices is not decided.",
    "technique": "partial evaluation with symbolic matrices + polynomial identity testing over F_p (square roots as algebraic elements); library call modelled by its contract",
    "engine": "sa",
}

AD = "ekore.anomalous_dimensions"


def M(rows):
    return Arr.from_nested(rows)


def mm(a, b):
    n = a.shape[0]
    return M([[dag.addn([dag.mul(dag.tonode(a[i, k]), dag.tonode(b[k, j])) for k in range(n)]) for j in range(n)] for i in range(n)])


def madd(a, b, s=1):
    n = a.shape[0]
    return M([[dag.add(dag.tonode(a[i, j]), dag.mul(dag.const(s), dag.tonode(b[i, j]))) for j in range(n)] for i in range(n)])


def mscale(c, a):
    n = a.shape[0]
    return M([[dag.mul(dag.tonode(c), dag.tonode(a[i, j])) for j in range(n)] for i in range(n)])


def eye(n):
    return M([[dag.const(1 if i == j else 0) for j in range(n)] for i in range(n)])


def zero(chk, a, b=None):
    d = [dag.tonode(x) for x in (a.flat() if b is None else madd(a, b, -1).flat())]
    return dag.is_zero_fp(d, chk.seed, 2)


def projector_identities(chk, rule, construct, where, inst, Mx, lams, es, expm):
    n = Mx.shape[0]
    ok, info = zero(chk, _sum(es), eye(n))
    chk.decide(ok, rule, construct, f"{inst}: the projectors do not sum to the identity", where=where, instance=f"{inst},sum", data={"witness": info},
               how="PE + PIT F_p")
    for i, j in itertools.product(range(len(es)), repeat=2):
        want = es[i] if i == j else mscale(dag.const(0), es[i])
        ok, info = zero(chk, mm(es[i], es[j]), want)
        chk.decide(ok, rule, construct, f"{inst}: e_{i} e_{j} != {'e_' + str(i) if i == j else '0'}", where=where, instance=f"{inst},e{i}e{j}",
                   data={"witness": info}, how="PE + PIT F_p")
    ok, info = zero(chk, _sum([mscale(l, e) for l, e in zip(lams, es)]), Mx)
    chk.decide(ok, rule, construct, f"{inst}: M != sum_i lambda_i e_i with eigenvalues and projectors paired in the order returned", where=where,
               instance=f"{inst},spectral", data={"witness": info}, how="PE + PIT F_p")
    ok, info = zero(chk, _sum([mscale(dag.fn("exp", dag.tonode(l)), e) for l, e in zip(lams, es)]), expm)
    chk.decide(ok, rule, construct, f"{inst}: exp != sum_i exp(lambda_i) e_i", where=where, instance=f"{inst},exp", data={"witness": info},
               how="PE + PIT F_p")


def _sum(ms):
    acc = ms[0]
    for m in ms[1:]:
        acc = madd(acc, m)
    return acc


def run(chk):
    src = load()
    chk.rule_text = "e_i e_j = delta_ij e_i, sum e_i = 1, M = sum lambda_i e_i, exp = sum exp(lambda_i) e_i (2x2 closed form and general routine)"
    f2 = src.func(f"{AD}.exp_matrix_2D")
    fg = src.func(f"{AD}.exp_matrix")
    # ---- closed form ----------------------------------------------------------------------------------------------------------
    pe = PE(src)
    pe.ext["builtins.complex"] = kern._complex
    G = M([[dag.sym("g00"), dag.sym("g01")], [dag.sym("g10"), dag.sym("g11")]])
    try:
        expm, lp, lm, ep, em = pe.call(f2.qname, [G])
    except PERaise as e:
        chk.need(False, f"exp_matrix_2D raises {e}")
    projector_identities(chk, "closed-form-2x2", f2.qname, f2.where, "2x2 closed form", G, [lp, lm], [ep, em], expm)
    tr = dag.add(dag.sym("g00"), dag.sym("g11"))
    det = dag.sub(dag.mul(dag.sym("g00"), dag.sym("g11")), dag.mul(dag.sym("g01"), dag.sym("g10")))
    ok, info = dag.is_zero_fp([dag.sub(dag.add(dag.tonode(lp), dag.tonode(lm)), tr), dag.sub(dag.mul(dag.tonode(lp), dag.tonode(lm)), det)], chk.seed, 2)
    chk.decide(ok, "closed-form-2x2", f2.qname, "lambda+ + lambda- != tr M or lambda+ lambda- != det M", where=f2.where, instance="vieta",
               data={"witness": info}, how="PE + PIT F_p")
    # ---- general ------------------------------------------------------------------------------------------------------------------
    from ..pe_models import _inv  # symbolic adjugate inverse used by the numpy.linalg.inv model

    for dim in (2, 4):
        w = [dag.sym(f"w{i}") for i in range(dim)]
        V = M([[dag.sym(f"v{i}{j}") for j in range(dim)] for i in range(dim)])

        def assume(text, env):
            # the matrix is generic: nothing vanishes, and a discriminant is not within a tolerance of zero
            return decide_on_values(box[0], text, env)

        box = [None]
        pe = PE(src, assume=assume)
        box[0] = pe
        pe.ext["builtins.complex"] = kern._complex
        Vinv = _inv(pe, V)
        Mx = mm(mm(V, M([[w[i] if i == j else dag.const(0) for j in range(dim)] for i in range(dim)])), Vinv)
        pe.ext["numpy.linalg.eig"] = lambda p, a, k: (Arr.from_nested(list(w)), V)
        try:
            expm, lams, es = pe.call(fg.qname, [Mx])
        except PERaise as e:
            chk.fail("general-eigen-decomposition", fg.qname, f"dimension {dim}: {type(e).__name__} {e}", where=fg.where, instance=str(dim))
            continue
        lam_list = [lams[i] for i in range(dim)] if isinstance(lams, Arr) else list(lams)
        e_list = [M([[es[i, r, c] for c in range(dim)] for r in range(dim)]) for i in range(dim)]
        projector_identities(chk, "general-eigen-decomposition", fg.qname, fg.where, f"dimension {dim}", Mx, lam_list, e_list, expm)
        if dim == 2:
            pe2 = PE(src)
            pe2.ext["builtins.complex"] = kern._complex
            expm2 = pe2.call(f2.qname, [Mx])[0]
            ok, info = zero(chk, expm2, expm)
            chk.decide(ok, "closed-form-agrees-with-general", f2.qname, "exp_matrix_2D and exp_matrix disagree on the same 2x2 matrix", where=f2.where,
                       data={"witness": info}, how="sibling comparison by PE")
    chk.note(files=["src/ekore/anomalous_dimensions/__init__.py"])
    chk.explanation = "Spectral identities of both routines decided for all matrix entries."
