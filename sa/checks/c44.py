"""C44 - products of EKOs compose in evolution order, with the solver's first-order error rule."""
from __future__ import annotations

import itertools
from fractions import Fraction

from .. import dag
from ..arr import Arr
from ..pe import PE, Obj, PERaise, Opaque, ClassRef
from ..src import load

LEVEL = "proof"
META = {
    "text": "ekos_product is partially evaluated on two mock EKOs holding symbolic non-commuting rank-4 operators (earlier: mu0 -> "
            "mu1; later: mu1 -> targets), in place and writing to a new archive, with and without errors. For every target of "
            "the later EKO not already in the earlier one, the stored operator is proved to act on any symbolic input as "
            "'apply the earlier, then the later': stored[a,j,c,l] = sum_{b,k} later[a,j,b,k] * earlier[b,k,c,l]; its error is "
            "|later|.|d earlier| + |d later|.|earlier| (every factor under an absolute value - the rule of runner.operators."
            "_dotop, compared with it by partial evaluation of both on the same operands), and is absent when either factor has "
            "none. The earlier operator is the one at the point matched (approx with the caller's tolerances) to the later EKO's "
            "initial point (mu0^2, nf), a missing match is refused with ValueError, targets already present are kept, the "
            "in-place variant writes into the earlier EKO and the copy variant into the archive opened at `path`, which is "
            "closed afterwards.",
    "note": "Numerical values of stored arrays are not decided; the contraction and error formulas are, for all values.",
    "technique": "partial evaluation with symbolic tensors on mock archives + polynomial identity testing over F_p; sibling comparison with the solver's join rule",
    "engine": "sa",
}

NP, NX = 2, 2


def sym_op(name):
    return Arr.from_nested([[[[dag.sym(f"{name}_{a}{j}{b}{k}") for k in range(NX)] for b in range(NP)] for j in range(NX)] for a in range(NP)])


def mk_op(src, name, with_err):
    o = Obj(src.cls("eko.io.items.Operator"))
    o.attrs.update(operator=sym_op(name), error=sym_op("d" + name) if with_err else None)
    return o


class Card(Opaque):
    pass


class MockEko(Opaque):
    _real = "eko.io.struct.EKO"  # members not set here are the real archive's properties

    def __init__(self, name, store, init=None):
        self.name = name
        self.store = dict(store)
        self.written = {}
        self.closed = False
        self.copied_to = None
        self.approx_calls = []
        self.operator_card = Card()
        self.operator_card._real = "eko.io.runcards.OperatorCard"
        self.operator_card.init = init
        self.match = None

    def approx(self, ep, rtol=None, atol=None):
        self.approx_calls.append((ep, rtol, atol))
        return self.match

    def __getitem__(self, ep):
        return self.store[ep]

    def __setitem__(self, ep, op):
        self.written[ep] = op
        self.store[ep] = op

    def __contains__(self, ep):
        return ep in self.store

    def items(self):
        return list(self.store.items())

    # read-only views the archive class offers besides item access
    @property
    def evolgrid(self):
        return list(self.store)

    @property
    def mu2grid(self):
        return [ep[0] for ep in self.store]

    def __iter__(self):
        return iter(list(self.store))

    def deepcopy(self, path):
        self.copied_to = path

    def close(self):
        self.closed = True


def mat(t):
    A, I, B, J = t.shape
    return [[t[a, i, b, j] for b in range(B) for j in range(J)] for a in range(A) for i in range(I)]


def mm(x, y):
    return [[dag.addn([dag.mul(x[r][s], y[s][c]) for s in range(len(y))]) for c in range(len(y[0]))] for r in range(len(x))]


def mabs(x):
    return [[dag.fn("abs", dag.tonode(v)) for v in row] for row in x]


def run(chk):
    global NP, NX
    NP, NX = (3, 3) if chk.tier == "thorough" else (2, 2)
    src = load()
    chk.rule_text = "stored == later . earlier on the combined index; error == |later||d earlier| + |d later||earlier|; bookkeeping"
    fp = src.func("ekobox.utils.ekos_product")
    # exact rational scales (membership tests on lists of scales must be decidable)
    MU1 = Fraction(3)
    mu1 = (MU1 ** 2, 5)
    t1, t2, t3 = (Fraction(16), 5), (Fraction(25), 5), (Fraction(36), 6)
    other = (Fraction(4), 4)
    t4 = (other[0], 5)  # same scale as a point of the earlier EKO, other flavour number: a different target, must be composed
    n_id = 0
    for inplace, err_ini, err_fin in itertools.product((True, False), (True, False), (True, False)):
        pe = PE(src)
        earlier = mk_op(src, "A", err_ini)
        ini = MockEko("ini", {mu1: earlier, other: mk_op(src, "X", True), t2: mk_op(src, "KEEP", True)})
        ini.match = mu1
        fin = MockEko("fin", {t1: mk_op(src, "B1", err_fin), t2: mk_op(src, "B2", err_fin), t3: mk_op(src, "B3", err_fin), t4: mk_op(src, "B4", err_fin)}, init=(MU1, 5))
        copy_ = MockEko("copy", ini.store)
        edits = []

        def edit(p, a, k, edits=edits, copy_=copy_):
            edits.append(a[-1] if a else k.get("path"))
            return copy_

        pe.overrides["eko.io.struct.EKO.edit"] = edit
        rt, at = dag.sym("rtol"), dag.sym("atol")
        path = "NEWPATH"
        inst = inst0 = f"inplace={inplace},err_ini={err_ini},err_fin={err_fin}"
        try:
            pe.call(fp.qname, [ini, fin], {"rtol": rt, "atol": at, "path": None if inplace else path})
        except (PERaise, ValueError) as e:
            chk.fail("product-composes-in-evolution-order", fp.qname, f"{inst}: raises {e}", where=fp.where, instance=inst)
            continue
        dest = ini if inplace else copy_
        # bookkeeping
        ep0 = ini.approx_calls[0][0] if ini.approx_calls else None
        ok = len(ini.approx_calls) == 1 and isinstance(ep0, tuple) and ep0[1] == 5 and ini.approx_calls[0][1] is rt and ini.approx_calls[0][2] is at
        if ok:
            z, _ = dag.is_zero_fp([dag.sub(dag.tonode(ep0[0]), dag.tonode(MU1 ** 2))], chk.seed, 2)
            ok = z
        chk.decide(ok, "earlier-operator-is-the-matched-point", fp.qname, f"{inst}: the earlier EKO is searched with {ini.approx_calls}; required "
                   f"once, at (mu0^2, nf) of the later EKO's initial point with the caller's tolerances", where=fp.where, instance=inst)
        chk.decide(set(dest.written) == {t1, t3, t4} and (inplace or (ini.copied_to == path and edits == [path] and copy_.closed and not ini.written)),
                   "product-bookkeeping", fp.qname, f"{inst}: written {list(dest.written)} into {dest.name}; copy to {ini.copied_to}, opened {edits}, "
                   f"closed={copy_.closed}; required: exactly the (scale, nf) targets absent from the earlier EKO, into the earlier EKO (in place) or into the "
                   f"archive copied to and opened at `path`, closed afterwards", where=fp.where, instance=inst)
        for tn in (t1, t3, t4):
          if tn not in dest.written:
            continue
          inst = f"{inst0},target={tn[0]}"
          res = dest.written[tn]
          later = fin.store[tn]
          n_id = _one_target(chk, src, pe, fp, inst, res, later, earlier, err_ini, err_fin, n_id)
    # refusal when nothing matches
    _refusal(chk, src, fp, mu1, t1)
    chk.floor("tensor identities", n_id, 20)
    chk.note(identities=n_id, files=["src/ekobox/utils.py", "src/eko/runner/operators.py"])
    chk.explanation = "Composition order, error rule and bookkeeping of ekos_product decided by PE on mock archives."


def _one_target(chk, src, pe, fp, inst, res, later, earlier, err_ini, err_fin, n_id):
        L, E_ = mat(later.attrs["operator"]), mat(earlier.attrs["operator"])
        want = mm(L, E_)
        got = mat(pe.getattr(res, "operator"))
        ok, info = dag.is_zero_fp([dag.sub(g, w) for gr, wr in zip(got, want) for g, w in zip(gr, wr)], chk.seed, 2)
        n_id += 1
        chk.decide(ok, "product-composes-in-evolution-order", fp.qname, f"{inst}: the stored operator is not later . earlier (the operator of the "
                   f"EKO starting at mu1 must act on the result of the EKO ending at mu1)", where=fp.where, instance=inst, data={"witness": info},
                   how="PE + PIT F_p")
        gerr = pe.getattr(res, "error")
        if err_ini and err_fin:
            dL, dE = mat(later.attrs["error"]), mat(earlier.attrs["error"])
            werr = [[dag.add(a, b) for a, b in zip(r1, r2)] for r1, r2 in zip(mm(mabs(L), mabs(dE)), mm(mabs(dL), mabs(E_)))]
            if not isinstance(gerr, Arr):
                chk.fail("product-error-rule", fp.qname, f"{inst}: no error stored although both factors have one", where=fp.where, instance=inst)
            else:
                ok, info = dag.is_zero_fp([dag.sub(g, w) for gr, wr in zip(mat(gerr), werr) for g, w in zip(gr, wr)], chk.seed, 2)
                n_id += 1
                chk.decide(ok, "product-error-rule", fp.qname, f"{inst}: the stored error is not |later|.|d earlier| + |d later|.|earlier|",
                           where=fp.where, instance=inst, data={"witness": info}, how="PE + PIT F_p")
                # sibling: the solver's join of [earlier, later]
                pj = PE(src)
                joined = pj.call("eko.runner.operators.join", [[earlier, later]])
                ok2, info2 = dag.is_zero_fp([dag.sub(g, w) for g, w in zip(gerr.flat(), pj.getattr(joined, "error").flat())]
                                            + [dag.sub(g, w) for g, w in zip(pe.getattr(res, "operator").flat(), pj.getattr(joined, "operator").flat())],
                                            chk.seed, 2)
                chk.decide(ok2, "product-agrees-with-the-solver-join", fp.qname, f"{inst}: ekos_product and runner.operators.join disagree on the "
                           f"same pair of operators", where=fp.where, instance=inst, data={"witness": info2}, how="sibling comparison by PE")
        else:
            chk.decide(gerr is None, "product-error-rule", fp.qname, f"{inst}: an error is stored although a factor has none", where=fp.where,
                       instance=inst)
        return n_id


def _refusal(chk, src, fp, mu1, t1):
    pe = PE(src)
    ini = MockEko("ini", {mu1: mk_op(src, "A", True)})
    ini.match = None
    fin = MockEko("fin", {t1: mk_op(src, "B1", True)}, init=(Fraction(3), 5))
    try:
        pe.call(fp.qname, [ini, fin], {})
        chk.fail("unmatched-initial-point-is-refused", fp.qname, "no matching point: the product is computed anyway", where=fp.where)
    except PERaise as e:
        chk.decide("ValueError" in str(e) and not ini.written, "unmatched-initial-point-is-refused", fp.qname, f"raises {e}", where=fp.where)
