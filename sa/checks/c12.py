"""C12 - exact singlet methods converge to the path-ordered solution: generator clause (necessary condition)."""
from __future__ import annotations

from fractions import Fraction

from .. import dag, kern, literature as lit
from ..arr import Arr
from ..pe import Top

LEVEL = "proof"
META = {
    "text": "Decides the generator of the iterated solutions, the part of the convergence statement that is visible in the source: "
            "with the matrix exponential treated as an uninterpreted function, singlet.eko_iterate (orders 1-4, 1-3 steps) is "
            "proved to return exp(ln_k)...exp(ln_1) with ln_i = [sum_j gamma_j a^j / sum_j beta_j a^(j+1)](a = midpoint of step i) "
            "* (a_i - a_(i-1)), steps taken in order along the geometric grid a0..a1, beta_j from the literature table; the QED "
            "singlet/valence eko_iterate likewise with sum_ij gamma[i,j] a_s^i a_em^j / sum beta^(i+1,j) a_s^(i+1) a_em^j at the "
            "supplied half-step couplings (beta^(2,1) mixed term included), and the QED non-singlet `exact` is proved to be the "
            "ordered product of the fixed-alpha_em kernels (C07) over the supplied coupling steps and a geometric mu^2 grid. For "
            "the perturbative-exact method the three ingredients that make the expansion converge are proved: r_vec(is_exact) "
            "returns the Taylor coefficients of a*gamma(a)/beta(a) to every order it fills (series identity for symbolic beta_j), "
            "u_vec satisfies the U-matrix recursion [U_k,R_0]+kU_k = R_k+sum R_(k-j)U_j for every k with general 2x2 R_k, and "
            "eko_perturbative multiplies U(a_high) E0 U(a_low)^-1 per step with later steps on the left.",
    "note": "The convergence RATE with the number of iterations is a runtime quantity and is NOT decided (a one-step exponential "
            "midpoint rule with this generator is second order; that is mathematics about the formula proved here).",
    "technique": "partial evaluation with an uninterpreted matrix exponential + polynomial identity testing of the step generator",
    "engine": "sa",
}

AD = "ekore.anomalous_dimensions"


def run(chk):
    src, pe, M = kern.setup(chk)
    log4 = []
    kern.install_expm_model(pe, log4)
    log2 = []

    def expm2d(pe_, args, kwargs):
        m = args[0]
        log2.append(m.copy())
        out = kern.expm_ref(m)
        return (out, Top("lambda_p"), Top("lambda_m"), Top("e_p"), Top("e_m"))

    chk.trusted += ["sa/literature.py", "random interpretation in F_p"]
    chk.rule_text = "step exponent == gamma(a_mid)/beta(a_mid) * delta_a ; kernel == ordered product of step exponentials"
    a1, a0, nf = dag.sym("a1"), dag.sym("a0"), dag.sym("nf")
    sd = src.func(f"{kern.SG}.dispatcher")
    fi = src.func(f"{kern.SG}.eko_iterate")
    n_inst = 0
    pe.overrides[f"{AD}.exp_matrix_2D"] = expm2d
    try:
        for n in range(2, 5):
            betas = kern.beta_lit(n)
            for its in (1, 2, 3):
                for mname in ("ITERATE_EXACT", "ITERATE_EXPANDED"):
                    inst = f"order={n},iterations={its},method={mname}"
                    n_inst += 1
                    G = kern.sg_gamma(n)
                    del log2[:]
                    K = pe.call(sd.qname, [(n, 0), M[mname], G, a1, a0, nf, its, (n, 0)])
                    chk.need(len(log2) == its, f"expected {its} exponentials, saw {len(log2)} ({inst})")
                    ratio = dag.div(a1, a0)
                    steps = [dag.mul(a0, dag.power(ratio, Fraction(i, its))) if 0 < i < its else (a0 if i == 0 else a1)
                             for i in range(its + 1)]
                    diffs = []
                    want = kern.eye(2)
                    for i in range(its):
                        al, ah = steps[i], steps[i + 1]
                        mid = dag.div(dag.add(ah, al), 2)
                        den = dag.addn([dag.mul(betas[j], dag.power(mid, j + 1)) for j in range(n)])
                        ref = Arr([dag.mul(dag.div(dag.addn([dag.mul(G[j, r, c], dag.power(mid, j)) for j in range(n)]), den),
                                           dag.sub(ah, al)) for r in range(2) for c in range(2)], (2, 2))
                        diffs.extend(kern.mat_sub(log2[i], ref).flat())
                        want = kern.mat_mul(kern.expm_ref(log2[i]), want)
                    ok, info = dag.is_zero_fp(diffs, chk.seed, 2)
                    chk.decide(ok, "iterate-step-generator", fi.qname,
                               f"exponent of an iteration step is not gamma(a_mid)/beta(a_mid)*(a_high-a_low) with literature beta "
                               f"(step {info.get('index', 0) // 4}) ({inst})", where=fi.where, instance=inst, data={"witness": info},
                               how="PE + PIT F_p")
                    ok, info = dag.is_zero_fp(kern.mat_sub(K, want).flat(), chk.seed, 2)
                    chk.decide(ok, "iterate-ordered-product", fi.qname, f"iterated kernel is not exp(ln_last)...exp(ln_first) ({inst})",
                               where=fi.where, instance=inst, data={"witness": info}, how="PE + PIT F_p")
    finally:
        pe.overrides.pop(f"{AD}.exp_matrix_2D", None)

    # ---- perturbative-exact: ingredients whose correctness makes the expansion converge --------------------
    # (a) r_vec(is_exact=True): sum_k r_k a^k must be the Taylor series of gamma(a)/beta(a)*a to EVERY computed order
    from ..series import valuation_at_least

    a = dag.sym("a")
    frv = src.func(f"{kern.SG}.r_vec")
    for n in range(2, 5):
        for mo in ((n + 1, n + 3, n + 6) if chk.tier == "quick" else (n, n + 1, n + 2, n + 3, n + 6, 10)):
            inst = f"order={n},max_order={mo}"
            n_inst += 1
            G = kern.sg_gamma(n)
            bsym = [dag.sym(f"beta{j}") for j in range(n)]
            r = pe.call(frv.qname, [G, bsym, (mo, 0), (n, 0), True])
            chk.need(isinstance(r, Arr) and r.shape == (mo + 1, 2, 2), f"r_vec shape changed ({inst})")
            # how many coefficients does u_vec consume?  u has max_order entries u_0..u_(mo-1) built from r_0..r_(mo-1)
            top = mo - 1
            res = []
            den = dag.addn([dag.mul(bsym[j], dag.power(a, j)) for j in range(n)])
            for rr in range(2):
                for cc in range(2):
                    ser = dag.addn([dag.mul(r[k, rr, cc], dag.power(a, k)) for k in range(0, top + 1)])
                    num = dag.addn([dag.mul(G[j, rr, cc], dag.power(a, j)) for j in range(n)])
                    res.append(dag.sub(dag.mul(ser, den), num))
            ok, info = valuation_at_least(res, {"a": 1}, top + 1, chk.seed, 2)
            chk.decide(ok, "perturbative-r-coefficients-are-taylor-series", frv.qname,
                       f"exact R_k, k<= {top}: (sum_k R_k a^k) * sum_j beta_j a^j - sum_j gamma_j a^j has a term a^{info.get('lowest_power')} "
                       f"(must vanish through a^{top}); with a wrong R_k the perturbative-exact solution stops converging as the "
                       f"expansion order grows ({inst})", where=frv.where, instance=inst, data={"witness": info},
                       how="series over F_p")
    # (b) u_vec solves its recursion  [U_k, R_0] + k U_k = R_k + sum_{j=1}^{k-1} R_{k-j} U_j  for every k
    fuv = src.func(f"{kern.SG}.u_vec")
    for mo in (3, 5) if chk.tier == "quick" else (2, 3, 4, 5, 7):
        n_inst += 1
        R = Arr.from_nested([[[dag.sym(f"R{k}_{i}{j}") for j in range(2)] for i in range(2)] for k in range(mo + 1)])
        U = pe.call(fuv.qname, [R, (mo, 0)])
        chk.need(isinstance(U, Arr) and U.shape == (mo, 2, 2), "u_vec shape changed")
        res = kern.mat_sub(U[0], kern.eye(2)).flat()
        for kk in range(1, mo):
            lhs = kern.mat_sub(kern.mat_mul(U[kk], R[0]), kern.mat_mul(R[0], U[kk]))
            lhs = Arr([dag.add(x, dag.mul(kk, y)) for x, y in zip(lhs.flat(), U[kk].flat())], (2, 2))
            rhs = R[kk]
            for jj in range(1, kk):
                rhs = Arr([dag.add(x, y) for x, y in zip(rhs.flat(), kern.mat_mul(R[kk - jj], U[jj]).flat())], (2, 2))
            res.extend(kern.mat_sub(lhs, rhs).flat())
        ok, info = dag.is_zero_fp(res, chk.seed, 2)
        chk.decide(ok, "perturbative-u-recursion", fuv.qname,
                   f"U_k does not satisfy [U_k,R_0] + k U_k = R_k + sum_j R_(k-j) U_j (k = {max(0, info.get('index', 4) - 4) // 4 + 1}) "
                   f"(max_order={mo})", where=fuv.where, instance=f"max_order={mo}", data={"witness": info}, how="PE + PIT F_p")
    # (c) eko_perturbative: each step is U(a_high) E0(a_high,a_low) U(a_low)^-1, later steps on the left
    fep = src.func(f"{kern.SG}.eko_perturbative")
    los = []

    def lo_model(pe_, args, kwargs):
        los.append(args)
        i = len(los)
        return Arr.from_nested([[dag.sym(f"E0_{i}_{r}{c}") for c in range(2)] for r in range(2)])

    def uvec_model(pe_, args, kwargs):
        mo = args[1][0]
        return Arr.from_nested([[[dag.sym(f"U{k}_{r}{c}") if k else (1 if r == c else 0) for c in range(2)] for r in range(2)]
                                for k in range(mo)])

    pe.overrides[f"{kern.SG}.lo_exact"] = lo_model
    pe.overrides[f"{kern.SG}.u_vec"] = uvec_model
    try:
        for its in (1, 2):
            del los[:]
            n_inst += 1
            G = kern.sg_gamma(3)
            K = pe.call(sd.qname, [(3, 0), M["PERTURBATIVE_EXACT"], G, a1, a0, nf, its, (4, 0)])
            Uk = uvec_model(pe, [None, (4, 0)], {})
            ratio = dag.div(a1, a0)
            steps = [a0] + [dag.mul(a0, dag.power(ratio, Fraction(i, its))) for i in range(1, its)] + [a1]
            want = kern.eye(2)
            okargs = len(los) == its
            for i in range(its):
                al, ah = steps[i], steps[i + 1]
                E0 = Arr.from_nested([[dag.sym(f"E0_{i + 1}_{r}{c}") for c in range(2)] for r in range(2)])

                def sumu(x):
                    acc = kern.eye(2)
                    for k in range(1, 4):
                        acc = Arr([dag.add(p, dag.mul(dag.power(x, k), q)) for p, q in zip(acc.flat(), Uk[k].flat())], (2, 2))
                    return acc

                step = kern.mat_mul(kern.mat_mul(sumu(ah), E0), kern.mat_inv(pe, sumu(al)))
                want = kern.mat_mul(step, want)
                if okargs:
                    zz, _ = dag.is_zero_fp([dag.sub(los[i][1], ah), dag.sub(los[i][2], al)], chk.seed, 2)
                    okargs = okargs and zz and los[i][0] is G
            ok, info = dag.is_zero_fp(kern.mat_sub(K, want).flat(), chk.seed, 2)
            chk.decide(ok and okargs, "perturbative-step-shape", fep.qname,
                       f"perturbative kernel is not prod_steps U(a_high) E0(a_high,a_low) U(a_low)^-1 with later steps on the left "
                       f"(iterations={its})", where=fep.where, instance=f"iterations={its}", data={"witness": info}, how="PE + PIT F_p")
    finally:
        pe.overrides.pop(f"{kern.SG}.lo_exact", None)
        pe.overrides.pop(f"{kern.SG}.u_vec", None)

    # ---- QED singlet / valence --------------------------------------------------------------------
    for qn, dim in ((f"{kern.QSG}.dispatcher", 4), (f"{kern.QVL}.dispatcher", 2)):
        f = src.func(qn)
        for n in (1, 2, 3, 4):
            for m in (1, 2):
                for nfc in ((3, 4, 5, 6) if chk.tier == "thorough" else (4, 5)):
                    its = 2
                    inst = f"order=({n},{m}),nf={nfc}"
                    n_inst += 1
                    G = Arr.from_nested([[[[dag.sym(f"Q{i}_{j}_{r}{c}") for c in range(dim)] for r in range(dim)]
                                          for j in range(m + 1)] for i in range(n + 1)])
                    as_list = Arr.from_nested([dag.sym(f"as{i}") for i in range(its + 1)])
                    a_half = Arr.from_nested([[dag.sym(f"ah{i}"), dag.sym(f"aemh{i}")] for i in range(its)])
                    del log4[:]
                    K = pe.call(qn, [(n, m), M["ITERATE_EXACT"], G, as_list, a_half, nfc, its, (10, 0)])
                    chk.need(len(log4) == its, f"expected {its} exponentials, saw {len(log4)} ({inst})")
                    diffs = []
                    want = kern.eye(dim)
                    bl = [dag.substitute(b, {"nf": nfc}) for b in kern.beta_lit(n)]
                    for s in range(its):
                        ash, aemh = a_half[s, 0], a_half[s, 1]
                        den = dag.addn([dag.mul(bl[i], dag.power(ash, i + 2)) for i in range(n)]
                                       + [dag.mul(dag.mul(lit.beta_qcd_as2aem1(nfc), dag.power(ash, 2)), aemh)])
                        ref = []
                        for r in range(dim):
                            for c in range(dim):
                                num = dag.addn([dag.mul(dag.mul(G[i, j, r, c], dag.power(ash, i)), dag.power(aemh, j))
                                                for i in range(n + 1) for j in range(m + 1)])
                                ref.append(dag.mul(dag.div(num, den), dag.sub(as_list[s + 1], as_list[s])))
                        diffs.extend(kern.mat_sub(log4[s], Arr(ref, (dim, dim))).flat())
                        want = kern.mat_mul(kern.expm_ref(log4[s]), want)
                    ok, info = dag.is_zero_fp(diffs, chk.seed, 2)
                    chk.decide(ok, "qed-iterate-step-generator", qn,
                               f"QED step exponent is not sum gamma[i,j] as^i aem^j / (sum beta^(i+2,0) as^(i+2) + beta^(2,1) as^2 aem) * delta_a "
                               f"with literature beta ({inst})", where=f.where, instance=inst, data={"witness": info}, how="PE + PIT F_p")
                    ok, info = dag.is_zero_fp(kern.mat_sub(K, want).flat(), chk.seed, 2)
                    chk.decide(ok, "iterate-ordered-product", qn, f"QED iterated kernel is not the ordered product of step exponentials ({inst})",
                               where=f.where, instance=inst, data={"witness": info}, how="PE + PIT F_p")
    n_inst += kern.qed_product_order(chk, "iterate-ordered-product", orders=((2, 1), (3, 2)))
    # ---- QED non-singlet: product of fixed-alpha_em kernels over the steps ------------------------------
    fx = src.func(f"{kern.QNS}.exact")
    rec = []

    def fixed_model(pe_, args, kwargs):
        rec.append(args)
        return dag.sym(f"F{len(rec)}")

    pe.overrides[f"{kern.QNS}.fixed_alphaem_exact"] = fixed_model
    try:
        for its in (1, 2, 3):
            del rec[:]
            G = Arr.from_nested([[dag.sym(f"G{i}_{j}") for j in range(3)] for i in range(4)])
            as_list = Arr.from_nested([dag.sym(f"as{i}") for i in range(its + 1)])
            aem_half = Arr.from_nested([dag.sym(f"aem{i}") for i in range(its)])
            mf, mt = dag.sym("mu2_from"), dag.sym("mu2_to")
            E = pe.call(f"{kern.QNS}.dispatcher", [(3, 2), M["ITERATE_EXACT"], G, as_list, aem_half, True, 5, its, mf, mt])
            n_inst += 1
            inst = f"iterations={its}"
            ok = len(rec) == its
            diffs = [dag.sub(E, dag.addn([dag.ZERO]) if not ok else _prod([dag.sym(f"F{i + 1}") for i in range(its)]))]
            for s, args in enumerate(rec):
                order, g, x1, x0, xem, nfa, m_from, m_to = args
                ok = ok and order == (3, 2) and g is G and nfa == 5
                lo = mf if s == 0 else dag.mul(mf, dag.power(dag.div(mt, mf), Fraction(s, its)))
                hi = mt if s == its - 1 else dag.mul(mf, dag.power(dag.div(mt, mf), Fraction(s + 1, its)))
                diffs += [dag.sub(x1, as_list[s + 1]), dag.sub(x0, as_list[s]), dag.sub(xem, aem_half[s]),
                          dag.sub(m_from, lo), dag.sub(m_to, hi)]
            okz, info = dag.is_zero_fp(diffs, chk.seed, 2)
            chk.decide(ok and okz, "qed-ns-product-over-steps", fx.qname,
                       f"QED non-singlet `exact` is not the ordered product of fixed-alpha_em kernels over the coupling steps with a "
                       f"geometric mu^2 grid ({inst})", where=fx.where, instance=inst, data={"witness": info}, how="PE + PIT F_p")
    finally:
        pe.overrides.pop(f"{kern.QNS}.fixed_alphaem_exact", None)
    chk.floor("generator instances", n_inst, 18 + 32 + 3)
    chk.note(instances=n_inst, files=["src/eko/kernels/singlet.py", "src/eko/kernels/singlet_qed.py", "src/eko/kernels/valence_qed.py",
                                      "src/eko/kernels/non_singlet_qed.py"])
    chk.explanation = "Step generator and product order of the iterated solutions decided for all symbols; convergence rate not decided."


def _prod(xs):
    r = dag.ONE
    for x in xs:
        r = dag.mul(r, x)
    return r
