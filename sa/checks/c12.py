"""C12 - exact singlet methods converge to the path-ordered solution: generator clause (necessary condition)."""
from __future__ import annotations

from fractions import Fraction

from .. import dag, kern, literature as lit
from ..arr import Arr
from ..pe import Top

LEVEL = "proof"
META = {
    "text": "Decides the generator of the iterated solutions, the part of the convergence statement that is visible in the source: "
            "with the matrix exponential treated as an uninterpreted function, singlet.eko_iterate (orders 1-4, 1-3 steps) is "
            "proved to return exp(ln_k)...exp(ln_1) with ln_i = [sum_j gamma_j a^j / sum_j beta_j a^(j+1)](a = midpoint of step i) "
            "* (a_i - a_(i-1)), steps taken in order along the geometric grid a0..a1, beta_j from the literature table; the QED "
            "singlet/valence eko_iterate likewise with sum_ij gamma[i,j] a_s^i a_em^j / sum beta^(i+1,j) a_s^(i+1) a_em^j at the "
            "supplied half-step couplings (beta^(2,1) mixed term included), and the QED non-singlet `exact` is proved to be the "
            "ordered product of the fixed-alpha_em kernels (C07) over the supplied coupling steps and a geometric mu^2 grid.",
    "note": "The convergence RATE with the number of iterations is a runtime quantity and is NOT decided (a one-step exponential "
            "midpoint rule with this generator is second order; that is mathematics about the formula proved here).",
    "technique": "partial evaluation with an uninterpreted matrix exponential + polynomial identity testing of the step generator",
    "engine": "sa",
}

AD = "ekore.anomalous_dimensions"


def run(chk):
    src, pe, M = kern.setup(chk)
    log4 = []
    kern.install_expm_model(pe, log4)
    log2 = []

    def expm2d(pe_, args, kwargs):
        m = args[0]
        log2.append(m.copy())
        out = kern.expm_ref(m)
        return (out, Top("lambda_p"), Top("lambda_m"), Top("e_p"), Top("e_m"))

    chk.trusted += ["sa/literature.py", "random interpretation in F_p"]
    chk.rule_text = "step exponent == gamma(a_mid)/beta(a_mid) * delta_a ; kernel == ordered product of step exponentials"
    a1, a0, nf = dag.sym("a1"), dag.sym("a0"), dag.sym("nf")
    sd = src.func(f"{kern.SG}.dispatcher")
    fi = src.func(f"{kern.SG}.eko_iterate")
    n_inst = 0
    pe.overrides[f"{AD}.exp_matrix_2D"] = expm2d
    try:
        for n in range(2, 5):
            betas = kern.beta_lit(n)
            for its in (1, 2, 3):
                for mname in ("ITERATE_EXACT", "ITERATE_EXPANDED"):
                    inst = f"order={n},iterations={its},method={mname}"
                    n_inst += 1
                    G = kern.sg_gamma(n)
                    del log2[:]
                    K = pe.call(sd.qname, [(n, 0), M[mname], G, a1, a0, nf, its, (n, 0)])
                    chk.need(len(log2) == its, f"expected {its} exponentials, saw {len(log2)} ({inst})")
                    ratio = dag.div(a1, a0)
                    steps = [dag.mul(a0, dag.power(ratio, Fraction(i, its))) if 0 < i < its else (a0 if i == 0 else a1)
                             for i in range(its + 1)]
                    diffs = []
                    want = kern.eye(2)
                    for i in range(its):
                        al, ah = steps[i], steps[i + 1]
                        mid = dag.div(dag.add(ah, al), 2)
                        den = dag.addn([dag.mul(betas[j], dag.power(mid, j + 1)) for j in range(n)])
                        ref = Arr([dag.mul(dag.div(dag.addn([dag.mul(G[j, r, c], dag.power(mid, j)) for j in range(n)]), den),
                                           dag.sub(ah, al)) for r in range(2) for c in range(2)], (2, 2))
                        diffs.extend(kern.mat_sub(log2[i], ref).flat())
                        want = kern.mat_mul(kern.expm_ref(log2[i]), want)
                    ok, info = dag.is_zero_fp(diffs, chk.seed, 2)
                    chk.decide(ok, "iterate-step-generator", fi.qname,
                               f"exponent of an iteration step is not gamma(a_mid)/beta(a_mid)*(a_high-a_low) with literature beta "
                               f"(step {info.get('index', 0) // 4}) ({inst})", where=fi.where, instance=inst, data={"witness": info},
                               how="PE + PIT F_p")
                    ok, info = dag.is_zero_fp(kern.mat_sub(K, want).flat(), chk.seed, 2)
                    chk.decide(ok, "iterate-ordered-product", fi.qname, f"iterated kernel is not exp(ln_last)...exp(ln_first) ({inst})",
                               where=fi.where, instance=inst, data={"witness": info}, how="PE + PIT F_p")
    finally:
        pe.overrides.pop(f"{AD}.exp_matrix_2D", None)

    # ---- QED singlet / valence --------------------------------------------------------------------
    for qn, dim in ((f"{kern.QSG}.dispatcher", 4), (f"{kern.QVL}.dispatcher", 2)):
        f = src.func(qn)
        for n in (1, 2, 3, 4):
            for m in (1, 2):
                for nfc in ((3, 4, 5, 6) if chk.tier == "thorough" else (4, 5)):
                    its = 2
                    inst = f"order=({n},{m}),nf={nfc}"
                    n_inst += 1
                    G = Arr.from_nested([[[[dag.sym(f"Q{i}_{j}_{r}{c}") for c in range(dim)] for r in range(dim)]
                                          for j in range(m + 1)] for i in range(n + 1)])
                    as_list = Arr.from_nested([dag.sym(f"as{i}") for i in range(its + 1)])
                    a_half = Arr.from_nested([[dag.sym(f"ah{i}"), dag.sym(f"aemh{i}")] for i in range(its)])
                    del log4[:]
                    K = pe.call(qn, [(n, m), M["ITERATE_EXACT"], G, as_list, a_half, nfc, its, (10, 0)])
                    chk.need(len(log4) == its, f"expected {its} exponentials, saw {len(log4)} ({inst})")
                    diffs = []
                    want = kern.eye(dim)
                    bl = [dag.substitute(b, {"nf": nfc}) for b in kern.beta_lit(n)]
                    for s in range(its):
                        ash, aemh = a_half[s, 0], a_half[s, 1]
                        den = dag.addn([dag.mul(bl[i], dag.power(ash, i + 2)) for i in range(n)]
                                       + [dag.mul(dag.mul(lit.beta_qcd_as2aem1(nfc), dag.power(ash, 2)), aemh)])
                        ref = []
                        for r in range(dim):
                            for c in range(dim):
                                num = dag.addn([dag.mul(dag.mul(G[i, j, r, c], dag.power(ash, i)), dag.power(aemh, j))
                                                for i in range(n + 1) for j in range(m + 1)])
                                ref.append(dag.mul(dag.div(num, den), dag.sub(as_list[s + 1], as_list[s])))
                        diffs.extend(kern.mat_sub(log4[s], Arr(ref, (dim, dim))).flat())
                        want = kern.mat_mul(kern.expm_ref(log4[s]), want)
                    ok, info = dag.is_zero_fp(diffs, chk.seed, 2)
                    chk.decide(ok, "qed-iterate-step-generator", qn,
                               f"QED step exponent is not sum gamma[i,j] as^i aem^j / (sum beta^(i+2,0) as^(i+2) + beta^(2,1) as^2 aem) * delta_a "
                               f"with literature beta ({inst})", where=f.where, instance=inst, data={"witness": info}, how="PE + PIT F_p")
                    ok, info = dag.is_zero_fp(kern.mat_sub(K, want).flat(), chk.seed, 2)
                    chk.decide(ok, "iterate-ordered-product", qn, f"QED iterated kernel is not the ordered product of step exponentials ({inst})",
                               where=f.where, instance=inst, data={"witness": info}, how="PE + PIT F_p")
    # ---- QED non-singlet: product of fixed-alpha_em kernels over the steps ------------------------------
    fx = src.func(f"{kern.QNS}.exact")
    rec = []

    def fixed_model(pe_, args, kwargs):
        rec.append(args)
        return dag.sym(f"F{len(rec)}")

    pe.overrides[f"{kern.QNS}.fixed_alphaem_exact"] = fixed_model
    try:
        for its in (1, 2, 3):
            del rec[:]
            G = Arr.from_nested([[dag.sym(f"G{i}_{j}") for j in range(3)] for i in range(4)])
            as_list = Arr.from_nested([dag.sym(f"as{i}") for i in range(its + 1)])
            aem_half = Arr.from_nested([dag.sym(f"aem{i}") for i in range(its)])
            mf, mt = dag.sym("mu2_from"), dag.sym("mu2_to")
            E = pe.call(f"{kern.QNS}.dispatcher", [(3, 2), M["ITERATE_EXACT"], G, as_list, aem_half, True, 5, its, mf, mt])
            n_inst += 1
            inst = f"iterations={its}"
            ok = len(rec) == its
            diffs = [dag.sub(E, dag.addn([dag.ZERO]) if not ok else _prod([dag.sym(f"F{i + 1}") for i in range(its)]))]
            for s, args in enumerate(rec):
                order, g, x1, x0, xem, nfa, m_from, m_to = args
                ok = ok and order == (3, 2) and g is G and nfa == 5
                lo = mf if s == 0 else dag.mul(mf, dag.power(dag.div(mt, mf), Fraction(s, its)))
                hi = mt if s == its - 1 else dag.mul(mf, dag.power(dag.div(mt, mf), Fraction(s + 1, its)))
                diffs += [dag.sub(x1, as_list[s + 1]), dag.sub(x0, as_list[s]), dag.sub(xem, aem_half[s]),
                          dag.sub(m_from, lo), dag.sub(m_to, hi)]
            okz, info = dag.is_zero_fp(diffs, chk.seed, 2)
            chk.decide(ok and okz, "qed-ns-product-over-steps", fx.qname,
                       f"QED non-singlet `exact` is not the ordered product of fixed-alpha_em kernels over the coupling steps with a "
                       f"geometric mu^2 grid ({inst})", where=fx.where, instance=inst, data={"witness": info}, how="PE + PIT F_p")
    finally:
        pe.overrides.pop(f"{kern.QNS}.fixed_alphaem_exact", None)
    chk.floor("generator instances", n_inst, 18 + 32 + 3)
    chk.note(instances=n_inst, files=["src/eko/kernels/singlet.py", "src/eko/kernels/singlet_qed.py", "src/eko/kernels/valence_qed.py",
                                      "src/eko/kernels/non_singlet_qed.py"])
    chk.explanation = "Step generator and product order of the iterated solutions decided for all symbols; convergence rate not decided."


def _prod(xs):
    r = dag.ONE
    for x in xs:
        r = dag.mul(r, x)
    return r
