"""C02 - each final EKO is the ordered product of the parts along its matched path; parts computed once."""
from __future__ import annotations

import ast
import itertools
from fractions import Fraction

from .. import dag
from ..arr import Arr
from ..pe import PE, Obj, PERaise, Env
from ..src import load, stmt_text
from .c19 import _expected

LEVEL = "proof"
META = {
    "text": "(1) operators.join is partially evaluated on three symbolic operators with errors (rank-4 tensors over (pid, x)): the "
            "result is proved to be e3.e2.e1 - later steps to the left - as matrices on the combined (pid, x) index, and its error "
            "to be the first-order rule |L||dR| + |dL||R| accumulated in the same order; without errors on an element the error is "
            "dropped. (2) recipes._elements is partially evaluated for every ordering of origin/target against the matching scales: "
            "it yields exactly one recipe per block of Atlas.matched_path, in path order, Evolution for segments and Matching for "
            "matchings, with the block's fields (from_atlas/as_atlas are mutually inverse). (3)+(4) managed.solve is evaluated AS A "
            "WHOLE - real recipe construction (set-based, with the value identity of the recipe headers), real inventories on a model "
            "file system, real retrieve/join; only the two part computations are recording mocks returning symbolic operators - for "
            "five runs of one process (targets sharing segments, a target exactly on a matching scale listed before and after one "
            "that crosses it, backward targets, a repeated set of scales with another initial flavour number): every distinct step "
            "of the reference paths is computed exactly once, by the computation of its kind, with the cliff flag the reference path "
            "requires, and the operator a fresh object reads for every target is, element by element, the join in path order of the "
            "parts of that target's own path. (5) the matching part is built with the number of light "
            "flavours hq-1, the scale of the recipe and the matching ratio of the quark hq.",
    "note": "Numeric equality of the stored product with an independently computed one is a runtime statement; the product "
            "formula, order and routing are decided for all operator values.",
    "technique": "partial evaluation with symbolic tensors + polynomial identity testing; exhaustive PE over orderings; partial evaluation of the whole solve on a model file system with recording part computations",
    "engine": "sa",
}

OPS = "eko.runner.operators"


def _mat(t: Arr):
    """(a,i,b,j) -> matrix on the combined index (a,i) x (b,j)"""
    A, I, B, J = t.shape
    return [[t[a, i, b, j] for b in range(B) for j in range(J)] for a in range(A) for i in range(I)]


def _mm(x, y):
    n, k, m = len(x), len(y), len(y[0])
    return [[dag.addn([dag.mul(x[r][s], y[s][c]) for s in range(k)]) for c in range(m)] for r in range(n)]


def _abs(x):
    return [[dag.fn("abs", v) if isinstance(v, dag.Node) and v.op != "const" else abs(v) for v in row] for row in x]


def _madd(x, y):
    return [[dag.add(a, b) for a, b in zip(r1, r2)] for r1, r2 in zip(x, y)]


def run(chk):
    src = load()
    pe = PE(src)
    chk.rule_text = "join([e1,e2,e3]) == e3.e2.e1 with first-order error rule; one recipe per path block in order; routing by header class"
    fj = src.func(f"{OPS}.join")
    opcls = src.cls("eko.io.items.Operator")

    def mkop(name, with_err=True):
        o = Obj(opcls)
        t = Arr.from_nested([[[[dag.sym(f"{name}_{a}{i}{b}{j}") for j in range(2)] for b in range(2)] for i in range(2)] for a in range(2)])
        e = Arr.from_nested([[[[dag.sym(f"d{name}_{a}{i}{b}{j}") for j in range(2)] for b in range(2)] for i in range(2)] for a in range(2)])
        o.attrs.update(operator=t, error=e if with_err else None)
        return o

    e1, e2, e3 = mkop("E1"), mkop("E2"), mkop("E3")
    res = pe.call(fj.qname, [[e1, e2, e3]])
    m1, m2, m3 = (_mat(o.attrs["operator"]) for o in (e1, e2, e3))
    d1, d2, d3 = (_mat(o.attrs["error"]) for o in (e1, e2, e3))
    want = _mm(_mm(m3, m2), m1)
    got = _mat(pe.getattr(res, "operator"))
    ok, info = dag.is_zero_fp([dag.sub(g, w) for gr, wr in zip(got, want) for g, w in zip(gr, wr)], chk.seed, 2)
    chk.decide(ok, "join-is-ordered-product", fj.qname, "join([e1, e2, e3]) is not e3.e2.e1 on the combined (pid, x) index "
               "(later steps must multiply from the left)", where=fj.where, data={"witness": info}, how="PE + PIT F_p")
    # error: ((e3 e2) e1): err32 = |e3||d2| + |d3||e2| ; err = |e3 e2||d1| + |err32||e1|
    m32 = _mm(m3, m2)
    err32 = _madd(_mm(_abs(m3), _abs(d2)), _mm(_abs(d3), _abs(m2)))
    werr = _madd(_mm(_abs(m32), _abs(d1)), _mm(_abs(err32), _abs(m1)))
    gerr = pe.getattr(res, "error")
    chk.need(isinstance(gerr, Arr), "join of operators with errors returns no error")
    gerr = _mat(gerr)
    ok, info = dag.is_zero_fp([dag.sub(g, w) for gr, wr in zip(gerr, werr) for g, w in zip(gr, wr)], chk.seed, 2)
    chk.decide(ok, "join-error-propagation", fj.qname, "the error of the joined operator is not |L||dR| + |dL||R| accumulated along the path",
               where=fj.where, data={"witness": info}, how="PE + PIT F_p")
    res2 = pe.call(fj.qname, [[e1, mkop("F2", with_err=False), e3]])
    chk.decide(pe.getattr(res2, "error") is None, "join-error-propagation", fj.qname, "an element without error does not drop the error of the product",
               where=fj.where, instance="missing error")
    res1 = pe.call(fj.qname, [[e1]])
    ok, _ = dag.is_zero_fp([dag.sub(a, b) for a, b in zip(pe.getattr(res1, "operator").flat(), e1.attrs["operator"].flat())], chk.seed, 2)
    chk.decide(ok, "join-is-ordered-product", fj.qname, "join of a single element is not that element", where=fj.where, instance="single")

    # ---- (2) one recipe per block, in order ------------------------------------------------------------------------
    fel = src.func("eko.runner.recipes._elements")
    atlas_cls = src.cls("eko.matchings.Atlas")
    pts = [Fraction(x) for x in (5, 10, 15, 20, 25, 30, 35)]
    n_cases = bad = 0
    for mu0, nf0, muf, nff in itertools.product(pts, (3, 4, 5, 6), pts, (3, 4, 5, 6, None)):
        atlas = pe.instantiate(atlas_cls.qname, [[10, 20, 30], (mu0, nf0)])
        blocks = pe.apply(pe.getattr(atlas, "matched_path"), [(muf, nff)], {})
        recs = pe.call(fel.qname, [(muf, nff), atlas])
        n_cases += 1
        ok = len(recs) == len(blocks)
        for b, r in zip(blocks, recs):
            if b.cls.node.name == "Segment":
                ok = ok and r.cls.node.name == "Evolution" and all(pe.getattr(r, k) == pe.getattr(b, k) for k in ("origin", "target", "nf"))
                back = pe.getattr(r, "as_atlas")
                ok = ok and back.cls.node.name == "Segment" and all(pe.getattr(back, k) == pe.getattr(b, k) for k in ("origin", "target", "nf"))
            else:
                ok = ok and r.cls.node.name == "Matching" and all(pe.getattr(r, k) == pe.getattr(b, k) for k in ("scale", "hq", "inverse"))
                back = pe.getattr(r, "as_atlas")
                ok = ok and all(pe.getattr(back, k) == pe.getattr(b, k) for k in ("scale", "hq", "inverse"))
        # ... and against the reference path of the statement (independent of Atlas.matched_path)
        want, want_nff = _expected([10, 20, 30], (mu0, nf0), nff, muf)
        evs = [r for r in recs if r.cls.node.name == "Evolution"]
        mts = [r for r in recs if r.cls.node.name == "Matching"]
        ok = ok and len(recs) == 2 * len(want) - 1 and len(evs) == len(want) and len(mts) == len(want) - 1
        if ok:
            for i, w in enumerate(want):
                r = recs[2 * i]
                ok = ok and r in evs and (pe.getattr(r, "origin"), pe.getattr(r, "target"), pe.getattr(r, "nf")) == w
                if i < len(want) - 1:
                    m = recs[2 * i + 1]
                    ok = ok and m in mts and pe.getattr(m, "scale") == w[1] and pe.getattr(m, "hq") == max(w[2], want[i + 1][2]) \
                        and pe.getattr(m, "inverse") is (want_nff < nf0)
        if not ok:
            bad += 1
            if bad <= 3:
                chk.fail("recipes-follow-matched-path", fel.qname, f"origin=({mu0},{nf0}), target=({muf},{nff}): recipes {[(r.cls.node.name, {k: str(v) for k, v in r.attrs.items()}) for r in recs]} "
                         f"are not, one by one and in order, the steps of the flavour-number path {want} with one Matching(scale=wall, "
                         f"hq=heavier quark, inverse={want_nff < nf0}) between consecutive segments", where=fel.where, instance=f"{mu0},{nf0},{muf},{nff}")
    if not bad:
        chk.ok("recipes-follow-matched-path", fel.qname, f"{n_cases} orderings", how="exhaustive PE")
    chk.floor("orderings", n_cases, 900)

    # ---- (3)+(4) routing, once-only computation and the stored product: decided on the whole of managed.solve (_whole_solve) ------
    # load_recipes / _retrieve route by the same class test
    fre = src.func(f"{OPS}._retrieve")
    evo = src.cls("eko.io.items.Evolution")
    mat = src.cls("eko.io.items.Matching")
    ev = pe.instantiate(evo.qname, [Fraction(1), Fraction(2), 4, False])
    ma = pe.instantiate(mat.qname, [Fraction(2), 5, False])
    try:
        out = pe.call(fre.qname, [[ev, ma, ev], {ev: "P_ev"}, {ma: "P_ma"}])
    except PERaise as e:
        out = f"raises {e}"
    chk.decide(out == ["P_ev", "P_ma", "P_ev"], "retrieval-routed-by-recipe-kind-in-order", fre.qname,
               f"_retrieve([Evolution, Matching, Evolution]) returns {out}", where=fre.where, how="PE")
    _whole_solve(chk, src)
    matching_wiring(chk, src)
    chk.note(orderings=n_cases, files=["src/eko/runner/managed.py", "src/eko/runner/operators.py", "src/eko/runner/recipes.py",
                                       "src/eko/runner/parts.py", "src/eko/io/items.py"])
    chk.explanation = "Product formula and order of join, recipe/path correspondence (exhaustive), routing and once-only computation."


def matching_wiring(chk, src, rule="matching-part-wiring", crashes_only=False):
    """parts.match for every heavy quark, direction and mass scheme, with a recording OperatorMatrixElement (shared with C04)"""
    mat = src.cls("eko.io.items.Matching")
    n_cases = None
    # ---- (5) matching part wiring ------------------------------------------------------------------------------------------
    fm = src.func("eko.runner.parts.match")
    from ..pe import Opaque, named_arguments

    OME = "eko.evolution_operator.operator_matrix_element.OperatorMatrixElement"
    n_wire = 0
    for hq, inverse, scheme in itertools.product((4, 5, 6), (True, False), ("MSBAR", "POLE")):
        pm = PE(src)
        schemes = pm.enum_members(src.cls("eko.quantities.heavy_quarks.QuarkMassScheme"))
        built, split = [], []

        class Elem(Opaque):
            op_members = "MEMBERS"

            def compute(self):
                return None

        class Map(Opaque):
            def to_flavor_basis_tensor(self, qed=False):
                return ("RES", "ERR")

        def mk_ome(p_, a, k):
            built.append(named_arguments(k))
            e = Elem()
            e.nf = built[-1].get("nf")
            return e

        pm.overrides[OME] = mk_ome
        pm.overrides["eko.runner.parts._matching_configs"] = lambda p_, a, k: "CONFIGS"
        pm.overrides["eko.runner.parts._managers"] = lambda p_, a, k: "MANAGERS"
        pm.overrides["eko.evolution_operator.matching_condition.MatchingCondition.split_ad_to_evol_map"] = \
            lambda p_, a, k: split.append(named_arguments(k)) or Map()
        ks = [dag.sym("kc2"), dag.sym("kb2"), dag.sym("kt2")]
        eko_ = Opaque()
        eko_.theory_card = Opaque()
        eko_.theory_card.heavy = Opaque()
        eko_.theory_card.heavy.squared_ratios = list(ks)
        eko_.theory_card.heavy.masses_scheme = schemes[scheme]
        eko_.theory_card.order = (3, 0)
        rec = Obj(mat)
        rec.attrs.update(scale=dag.sym("mu2"), hq=hq, inverse=inverse)
        try:
            pm.call(fm.qname, [eko_, rec])
        except PERaise as e:
            built.append({"raises": str(e)})
        b = built[0] if len(built) == 1 else {}
        sp = split[0] if len(split) == 1 else {}
        n_wire += 1
        if crashes_only:
            # C04: whatever the heavy quark and the direction, the matching part is computed or refused cleanly - never an IndexError /
            # TypeError / AttributeError out of the bookkeeping
            why = b.get("raises")
            chk.decide(why is None or why.startswith(("NotImplementedError", "ValueError")), rule, fm.qname,
                       f"matching at the threshold of quark {hq}, inverse={inverse}, scheme {scheme}: computing the part raises {why} - a crash with an "
                       f"unrelated exception in a supported configuration", where=fm.where, instance=f"{hq},{inverse},{scheme}",
                       how="PE with recording OperatorMatrixElement")
            continue
        ok = b.get("nf") == hq - 1 and b.get("q2") is dag.sym("mu2") and b.get("is_backward") is inverse \
            and b.get("L") is not None and dag.tonode(b.get("L")) is dag.fn("log", ks[hq - 4]) and b.get("is_msbar") is (scheme == "MSBAR") \
            and sp.get("nf") == hq - 1 and sp.get("q2_thr") is dag.sym("mu2")
        show = {k_: (dag.short(v) if isinstance(v, dag.Node) else v) for k_, v in b.items() if k_ not in ("config", "managers")}
        chk.decide(ok, rule, fm.qname,
                   f"matching at the threshold of quark {hq}, inverse={inverse}, scheme {scheme}: the matrix element is built with {show} and "
                   f"blown up with {({k_: (dag.short(v) if isinstance(v, dag.Node) else v) for k_, v in sp.items() if k_ != 'ome_members'})}; required "
                   f"{hq - 1} light flavours, the recipe's scale and direction, L = log of matching ratio {hq - 4}, is_msbar={scheme == 'MSBAR'}",
                   where=fm.where, instance=f"{hq},{inverse},{scheme}", how="PE with recording OperatorMatrixElement")
    chk.floor("matching wiring cases", n_wire, 12)


def _whole_solve(chk, src):
    """managed.solve, evaluated as a whole on a model file system with the real recipe construction, the real inventories and the
    real retrieve/join; only the two part computations are recording mocks that return symbolic operators.  Decided for several
    target lists (targets that share segments, a target exactly on a matching scale listed before and after a target that crosses
    it, backward targets): every distinct step of the reference paths is computed exactly once, by the computation of its kind,
    and the operator stored for each target is the join, in path order, of the parts of ITS reference path - with the `cliff`
    flag the reference path requires (intermediate segments only)."""
    from .. import fsmodel
    from ..pe import ClassRef, Opaque

    fs_ = src.func("eko.runner.managed.solve")
    ekoc = src.cls("eko.io.struct.EKO")
    acls = src.cls("eko.io.access.AccessConfigs")
    ocls = src.cls("eko.io.items.Operator")
    walls = [10, 20, 30]
    scenarios = [
        ((Fraction(5), 3), [(Fraction(15), 4), (Fraction(25), 5), (Fraction(10), 3), (Fraction(35), 6)]),
        ((Fraction(5), 3), [(Fraction(10), 3), (Fraction(15), 4), (Fraction(10), 4), (Fraction(7), 3)]),
        ((Fraction(25), 5), [(Fraction(5), 3), (Fraction(20), 5), (Fraction(15), 4), (Fraction(35), 5), (Fraction(35), 6)]),
        ((Fraction(15), 4), [(Fraction(15), 4), (Fraction(20), 4), (Fraction(25), 5)]),
        # same matching scales and initial scale as the first runs, another initial flavour number: runs of one process must not
        # influence each other (all scenarios are evaluated by ONE evaluator instance, so module-level state persists between them)
        ((Fraction(5), 4), [(Fraction(15), 4), (Fraction(25), 5), (Fraction(7), 4)]),
    ]
    n_t = 0
    pe = PE(src)
    pe.overrides["eko.io.runcards.masses"] = lambda p_, a, k: [Fraction(w) for w in walls]
    for si, (origin, evolgrid) in enumerate(scenarios):
        inst0 = f"run {si + 1} of one process: origin={tuple(map(str, origin))},targets={[tuple(map(str, e)) for e in evolgrid]}"
        fs = fsmodel.FS()
        fsmodel.install(pe, fs)
        work = fs.path("/work")
        work.mkdir()
        acc = Obj(acls)
        acc.attrs.update(path=fs.path("/out.tar"), readonly=False, open=True)
        invs = pe.call("eko.io.struct.inventories", [work, acc])
        for inv in invs.values():
            inv.attrs["path"].mkdir(parents=True, exist_ok=True)
        md = Obj(src.cls("eko.io.metadata.Metadata"))
        md.attrs.update(origin=origin, xgrid="XG", _path=work, version="0", data_version=3)
        eko = pe.new_object(ekoc, [], dict(invs, metadata=md, access=acc))
        opc = Opaque()
        opc._real = "eko.io.runcards.OperatorCard"
        opc.evolgrid = list(evolgrid)
        opc.mu20 = origin[0]
        opc.init = (dag.sym("mu0"), origin[1])
        opc.configs = Opaque()
        opc.configs.evolution_method = "EVMETH"
        thc = Opaque()
        thc.heavy = Opaque()
        thc.heavy.matching_ratios = [Fraction(1), Fraction(1), Fraction(1)]
        eko.attrs["theory_card"] = thc
        eko.attrs["operator_card"] = opc

        class Builder(Opaque):
            def load_cards(self, th, op):
                return self

            def build(self):
                return eko

            def __enter__(self):
                return self

            def __exit__(self, *a):
                return False

        pe.overrides["eko.io.struct.EKO.create"] = lambda p_, a, k: Builder()
        computed = []

        def part(kind):
            def f(p_, a, k):
                rec = a[1]
                tag = f"s{si}p{len(computed)}"
                o = Obj(ocls)
                o.attrs.update(operator=Arr.from_nested([[[[dag.sym(f"{tag}_{x}{i}{y}{j}") for j in range(2)] for y in range(2)] for i in range(2)] for x in range(2)]),
                               error=None)
                computed.append((kind, rec, o))
                return o
            return f

        pe.overrides["eko.runner.parts.evolve"] = part("evolve")
        pe.overrides["eko.runner.parts.match"] = part("match")
        try:
            pe.call(fs_.qname, [thc, opc, fs.path("/out.tar")])
        except PERaise as e:
            chk.fail("stored-operator-is-the-join-along-its-path", fs_.qname, f"{inst0}: solve raises {e}", where=fs_.where, instance=f"scenario{si}")
            continue

        def key(rec):
            n = rec.cls.node.name
            if n == "Evolution":
                return ("E", rec.attrs["origin"], rec.attrs["target"], rec.attrs["nf"], bool(rec.attrs.get("cliff")))
            return ("M", rec.attrs["scale"], rec.attrs["hq"], bool(rec.attrs["inverse"]))

        by_key = {}
        for kind, rec, o in computed:
            by_key.setdefault(key(rec), []).append((kind, o))
        # reference: the steps of every target's path
        want_keys = {}
        per_target = {}
        for ep in evolgrid:
            segs, nff = _expected(walls, origin, ep[1], ep[0])
            inverse = nff < origin[1]
            steps = []
            for i, (o_, t_, nf_) in enumerate(segs):
                last = i == len(segs) - 1
                steps.append(("E", o_, t_, nf_, (not last) and t_ in walls))
                if not last:
                    steps.append(("M", t_, max(nf_, segs[i + 1][2]), inverse))
            per_target[ep] = steps
            for st in steps:
                want_keys[st] = "evolve" if st[0] == "E" else "match"
        once = all(len(v) == 1 for v in by_key.values())
        kinds = all(by_key.get(k_, [(None, None)])[0][0] == kd for k_, kd in want_keys.items())
        chk.decide(set(by_key) == set(want_keys) and once and kinds, "every-step-computed-once-by-its-kind", fs_.qname,
                   f"{inst0}: computed {sorted((k_[0],) + tuple(map(str, k_[1:])) + (len(v),) for k_, v in by_key.items())}; required each of "
                   f"{sorted((k_[0],) + tuple(map(str, k_[1:])) for k_ in want_keys)} exactly once (segments by parts.evolve, matchings by "
                   f"parts.match)", where=fs_.where, instance=f"scenario{si}", how="PE of solve on a model file system")
        # what a fresh object finds on disk for every target
        fresh = pe.new_object(ekoc, [], dict(pe.call("eko.io.struct.inventories", [work, acc]), metadata=md, access=acc))
        for ep in evolgrid:
            n_t += 1
            inst = f"{inst0},target={tuple(map(str, ep))}"
            try:
                got = pe.apply(pe.getattr(fresh, "__getitem__"), [ep], {})
                parts_ = [by_key[st][0][1] for st in per_target[ep]]
                want = pe.call(f"{OPS}.join", [parts_])
                ok = isinstance(got, Obj) and all(a is b for a, b in zip(got.attrs["operator"].flat(), want.attrs["operator"].flat()))
                msg = ""
            except (PERaise, KeyError) as e:
                ok, msg = False, f" ({type(e).__name__}: {e})"
            chk.decide(ok, "stored-operator-is-the-join-along-its-path", fs_.qname,
                       f"{inst}: the operator stored for this target is not the join, in path order, of the parts of its own path "
                       f"{[(s[0],) + tuple(map(str, s[1:])) for s in per_target[ep]]}{msg}", where=fs_.where, instance=inst,
                       how="PE of solve on a model file system")
    chk.floor("targets of whole-solve evaluations", n_t, 12)
