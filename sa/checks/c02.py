"""C02 - each final EKO is the ordered product of the parts along its matched path; parts computed once."""
from __future__ import annotations

import ast
import itertools
from fractions import Fraction

from .. import dag
from ..arr import Arr
from ..pe import PE, Obj, PERaise, Env
from ..src import load, stmt_text
from .c19 import _expected

LEVEL = "proof"
META = {
    "text": "(1) operators.join is partially evaluated on three symbolic operators with errors (rank-4 tensors over (pid, x)): the "
            "result is proved to be e3.e2.e1 - later steps to the left - as matrices on the combined (pid, x) index, and its error "
            "to be the first-order rule |L||dR| + |dL||R| accumulated in the same order; without errors on an element the error is "
            "dropped. (2) recipes._elements is partially evaluated for every ordering of origin/target against the matching scales: "
            "it yields exactly one recipe per block of Atlas.matched_path, in path order, Evolution for segments and Matching for "
            "matchings, with the block's fields (from_atlas/as_atlas are mutually inverse). (3) routing: the runner stores "
            "Evolution parts in `parts` and Matching parts in `parts_matching`, and retrieval selects the inventory by the same "
            "header class and keeps the order of the path. (4) every recipe is computed under exactly one assignment, outside the "
            "per-target loop, from a duplicate-free recipe collection. (5) the matching part is built with the number of light "
            "flavours hq-1, the scale of the recipe and the matching ratio of the quark hq.",
    "note": "Numeric equality of the stored product with an independently computed one is a runtime statement; the product "
            "formula, order and routing are decided for all operator values.",
    "technique": "partial evaluation with symbolic tensors + polynomial identity testing; exhaustive PE over orderings; routing/once-only rules on the AST",
    "engine": "sa",
}

OPS = "eko.runner.operators"


def _mat(t: Arr):
    """(a,i,b,j) -> matrix on the combined index (a,i) x (b,j)"""
    A, I, B, J = t.shape
    return [[t[a, i, b, j] for b in range(B) for j in range(J)] for a in range(A) for i in range(I)]


def _mm(x, y):
    n, k, m = len(x), len(y), len(y[0])
    return [[dag.addn([dag.mul(x[r][s], y[s][c]) for s in range(k)]) for c in range(m)] for r in range(n)]


def _abs(x):
    return [[dag.fn("abs", v) if isinstance(v, dag.Node) and v.op != "const" else abs(v) for v in row] for row in x]


def _madd(x, y):
    return [[dag.add(a, b) for a, b in zip(r1, r2)] for r1, r2 in zip(x, y)]


def run(chk):
    src = load()
    pe = PE(src)
    chk.rule_text = "join([e1,e2,e3]) == e3.e2.e1 with first-order error rule; one recipe per path block in order; routing by header class"
    fj = src.func(f"{OPS}.join")
    opcls = src.cls("eko.io.items.Operator")

    def mkop(name, with_err=True):
        o = Obj(opcls)
        t = Arr.from_nested([[[[dag.sym(f"{name}_{a}{i}{b}{j}") for j in range(2)] for b in range(2)] for i in range(2)] for a in range(2)])
        e = Arr.from_nested([[[[dag.sym(f"d{name}_{a}{i}{b}{j}") for j in range(2)] for b in range(2)] for i in range(2)] for a in range(2)])
        o.attrs.update(operator=t, error=e if with_err else None)
        return o

    e1, e2, e3 = mkop("E1"), mkop("E2"), mkop("E3")
    res = pe.call(fj.qname, [[e1, e2, e3]])
    m1, m2, m3 = (_mat(o.attrs["operator"]) for o in (e1, e2, e3))
    d1, d2, d3 = (_mat(o.attrs["error"]) for o in (e1, e2, e3))
    want = _mm(_mm(m3, m2), m1)
    got = _mat(pe.getattr(res, "operator"))
    ok, info = dag.is_zero_fp([dag.sub(g, w) for gr, wr in zip(got, want) for g, w in zip(gr, wr)], chk.seed, 2)
    chk.decide(ok, "join-is-ordered-product", fj.qname, "join([e1, e2, e3]) is not e3.e2.e1 on the combined (pid, x) index "
               "(later steps must multiply from the left)", where=fj.where, data={"witness": info}, how="PE + PIT F_p")
    # error: ((e3 e2) e1): err32 = |e3||d2| + |d3||e2| ; err = |e3 e2||d1| + |err32||e1|
    m32 = _mm(m3, m2)
    err32 = _madd(_mm(_abs(m3), _abs(d2)), _mm(_abs(d3), _abs(m2)))
    werr = _madd(_mm(_abs(m32), _abs(d1)), _mm(_abs(err32), _abs(m1)))
    gerr = pe.getattr(res, "error")
    chk.need(isinstance(gerr, Arr), "join of operators with errors returns no error")
    gerr = _mat(gerr)
    ok, info = dag.is_zero_fp([dag.sub(g, w) for gr, wr in zip(gerr, werr) for g, w in zip(gr, wr)], chk.seed, 2)
    chk.decide(ok, "join-error-propagation", fj.qname, "the error of the joined operator is not |L||dR| + |dL||R| accumulated along the path",
               where=fj.where, data={"witness": info}, how="PE + PIT F_p")
    res2 = pe.call(fj.qname, [[e1, mkop("F2", with_err=False), e3]])
    chk.decide(pe.getattr(res2, "error") is None, "join-error-propagation", fj.qname, "an element without error does not drop the error of the product",
               where=fj.where, instance="missing error")
    res1 = pe.call(fj.qname, [[e1]])
    ok, _ = dag.is_zero_fp([dag.sub(a, b) for a, b in zip(pe.getattr(res1, "operator").flat(), e1.attrs["operator"].flat())], chk.seed, 2)
    chk.decide(ok, "join-is-ordered-product", fj.qname, "join of a single element is not that element", where=fj.where, instance="single")

    # ---- (2) one recipe per block, in order ------------------------------------------------------------------------
    fel = src.func("eko.runner.recipes._elements")
    atlas_cls = src.cls("eko.matchings.Atlas")
    pts = [Fraction(x) for x in (5, 10, 15, 20, 25, 30, 35)]
    n_cases = bad = 0
    for mu0, nf0, muf, nff in itertools.product(pts, (3, 4, 5, 6), pts, (3, 4, 5, 6, None)):
        atlas = pe.instantiate(atlas_cls.qname, [[10, 20, 30], (mu0, nf0)])
        blocks = pe.apply(pe.getattr(atlas, "matched_path"), [(muf, nff)], {})
        recs = pe.call(fel.qname, [(muf, nff), atlas])
        n_cases += 1
        ok = len(recs) == len(blocks)
        for b, r in zip(blocks, recs):
            if b.cls.node.name == "Segment":
                ok = ok and r.cls.node.name == "Evolution" and all(pe.getattr(r, k) == pe.getattr(b, k) for k in ("origin", "target", "nf"))
                back = pe.getattr(r, "as_atlas")
                ok = ok and back.cls.node.name == "Segment" and all(pe.getattr(back, k) == pe.getattr(b, k) for k in ("origin", "target", "nf"))
            else:
                ok = ok and r.cls.node.name == "Matching" and all(pe.getattr(r, k) == pe.getattr(b, k) for k in ("scale", "hq", "inverse"))
                back = pe.getattr(r, "as_atlas")
                ok = ok and all(pe.getattr(back, k) == pe.getattr(b, k) for k in ("scale", "hq", "inverse"))
        # ... and against the reference path of the statement (independent of Atlas.matched_path)
        want, want_nff = _expected([10, 20, 30], (mu0, nf0), nff, muf)
        evs = [r for r in recs if r.cls.node.name == "Evolution"]
        mts = [r for r in recs if r.cls.node.name == "Matching"]
        ok = ok and len(recs) == 2 * len(want) - 1 and len(evs) == len(want) and len(mts) == len(want) - 1
        if ok:
            for i, w in enumerate(want):
                r = recs[2 * i]
                ok = ok and r in evs and (pe.getattr(r, "origin"), pe.getattr(r, "target"), pe.getattr(r, "nf")) == w
                if i < len(want) - 1:
                    m = recs[2 * i + 1]
                    ok = ok and m in mts and pe.getattr(m, "scale") == w[1] and pe.getattr(m, "hq") == max(w[2], want[i + 1][2]) \
                        and pe.getattr(m, "inverse") is (want_nff < nf0)
        if not ok:
            bad += 1
            if bad <= 3:
                chk.fail("recipes-follow-matched-path", fel.qname, f"origin=({mu0},{nf0}), target=({muf},{nff}): recipes {[(r.cls.node.name, {k: str(v) for k, v in r.attrs.items()}) for r in recs]} "
                         f"are not, one by one and in order, the steps of the flavour-number path {want} with one Matching(scale=wall, "
                         f"hq=heavier quark, inverse={want_nff < nf0}) between consecutive segments", where=fel.where, instance=f"{mu0},{nf0},{muf},{nff}")
    if not bad:
        chk.ok("recipes-follow-matched-path", fel.qname, f"{n_cases} orderings", how="exhaustive PE")
    chk.floor("orderings", n_cases, 900)

    # ---- (3)+(4) routing and once-only computation in managed.solve ----------------------------------------------------
    fs = src.func("eko.runner.managed.solve")
    loops = [n for n in ast.walk(fs.node) if isinstance(n, ast.For)]
    found = {}
    per_target = None
    for lp in loops:
        it = ast.unparse(lp.iter)
        if "evolgrid" in it:
            per_target = lp
        for st in lp.body:
            if isinstance(st, ast.Assign) and isinstance(st.targets[0], ast.Subscript) and isinstance(st.value, ast.Call):
                inv = ast.unparse(st.targets[0].value)
                fnc = ast.unparse(st.value.func)
                found[(it, inv, fnc)] = lp
    want_routes = {("eko.recipes", "eko.parts", "parts.evolve"), ("eko.recipes_matching", "eko.parts_matching", "parts.match")}
    got_routes = {k for k in found if k[2] in ("parts.evolve", "parts.match")}
    chk.decide(got_routes == want_routes, "parts-routed-by-recipe-kind", fs.qname,
               f"solve computes/stores parts as {sorted(got_routes)}; required {sorted(want_routes)}", where=fs.where,
               detail="recipes -> parts (evolve); recipes_matching -> parts_matching (match)")
    nested = per_target is not None and any(lp is not per_target and any(m is lp for m in ast.walk(per_target)) for lp in found.values())
    n_assign = sum(1 for n in ast.walk(fs.node) if isinstance(n, ast.Call) and ast.unparse(n.func) in ("parts.evolve", "parts.match"))
    chk.decide(not nested and n_assign == 2 and per_target is not None, "each-part-computed-once", fs.qname,
               "a part computation is nested in the per-target loop or appears more than once: parts shared by several targets would be "
               "recomputed", where=fs.where, detail="two part computations, both outside the per-target loop")
    # final operator = join(retrieve(ep))
    ok = False
    if per_target is not None:
        txt = " ".join(stmt_text(s) for s in per_target.body)
        ok = "operators.retrieve(ep, eko)" in txt and "operators.join(components)" in txt and "eko.operators[target]" in txt
    chk.decide(ok, "final-operator-is-join-of-retrieved-parts", fs.qname, "the per-target loop no longer stores operators.join(operators.retrieve(ep, eko))",
               where=fs.where)
    fc = src.func("eko.runner.recipes._create")
    rets = [n for n in ast.walk(fc.node) if isinstance(n, ast.Return)]
    ok = bool(rets) and all("set(" in ast.unparse(r.value) or "dict.fromkeys" in ast.unparse(r.value) for r in rets)
    chk.decide(ok, "recipe-collection-is-duplicate-free", fc.qname, "_create no longer removes duplicate recipes", where=fc.where)
    # load_recipes / _retrieve route by the same class test
    flr = src.func("eko.io.struct.EKO.load_recipes")
    fre = src.func(f"{OPS}._retrieve")
    evo = src.cls("eko.io.items.Evolution")
    mat = src.cls("eko.io.items.Matching")
    ev = pe.instantiate(evo.qname, [Fraction(1), Fraction(2), 4, False])
    ma = pe.instantiate(mat.qname, [Fraction(2), 5, False])
    try:
        out = pe.call(fre.qname, [[ev, ma, ev], {ev: "P_ev"}, {ma: "P_ma"}])
    except PERaise as e:
        out = f"raises {e}"
    chk.decide(out == ["P_ev", "P_ma", "P_ev"], "retrieval-routed-by-recipe-kind-in-order", fre.qname,
               f"_retrieve([Evolution, Matching, Evolution]) returns {out}", where=fre.where, how="PE")
    txt = ast.unparse(flr.node)
    chk.decide("isinstance(recipe, Evolution)" in txt and "self.recipes[recipe]" in txt and "self.recipes_matching[recipe]" in txt,
               "parts-routed-by-recipe-kind", flr.qname, "load_recipes no longer routes Evolution/Matching recipes to recipes/recipes_matching",
               where=flr.where, instance="load_recipes")
    # ---- (5) matching part wiring ------------------------------------------------------------------------------------------
    fm = src.func("eko.runner.parts.match")
    env = Env(fm.module)
    hq = 5
    rec = Obj(mat)
    rec.attrs.update(scale=dag.sym("mu2"), hq=hq, inverse=True)
    env.vars["recipe"] = rec
    idx = nfarg = None
    for n in ast.walk(fm.node):
        if isinstance(n, ast.Subscript) and "squared_ratios" in ast.unparse(n.value):
            idx = pe.eval(n.slice, env)
        if isinstance(n, ast.Call) and ast.unparse(n.func).endswith("OperatorMatrixElement"):
            nfarg = pe.eval(n.args[2], env)
            inv_ok = ast.unparse(n.args[4]) == "recipe.inverse" and ast.unparse(n.args[3]) == "recipe.scale"
    chk.decide(idx == hq - 4 and nfarg == hq - 1 and inv_ok, "matching-part-wiring", fm.qname,
               f"for hq={hq}: matching ratio index {idx} (required {hq - 4}), light flavours {nfarg} (required {hq - 1}), scale/inverse taken "
               f"from the recipe: {inv_ok}", where=fm.where)
    chk.note(orderings=n_cases, files=["src/eko/runner/managed.py", "src/eko/runner/operators.py", "src/eko/runner/recipes.py",
                                       "src/eko/runner/parts.py", "src/eko/io/items.py"])
    chk.explanation = "Product formula and order of join, recipe/path correspondence (exhaustive), routing and once-only computation."
