"""C30 - QED-extended anomalous dimensions embed the QCD ones with correct charges (proof, sibling agreement)."""
from __future__ import annotations

from fractions import Fraction

from .. import dag, ekore_model as em
from ..arr import Arr
from ..core import pmap
from ..pe import PE, PERaise
from ..src import load

LEVEL = "other"  # two (quick) / four (thorough) obligations are a recorded known finding (Sdelta N3LO variation), so the run is not a complete proof
META = {
    "text": "gamma_singlet_qed, gamma_valence_qed and gamma_ns_qed are partially evaluated (harmonic sums as atoms, symbolic Mellin "
            "moment N) for every QCD order 1-4 x QED order 1-2 and nf 3-6 and compared entry by entry, as formulas in N, with the "
            "pure-QCD dispatchers of the same module: the a_em^0 slice of the 4x4 singlet grid contains the QCD singlet block in the "
            "(g, Sigma) rows/columns, the non-singlet plus function in the S_delta diagonal entry and zeros in the photon row/column and "
            "the remaining S_delta entries; the valence grid is diag(ns_V, ns_-); the non-singlet grids carry ns_+/ns_- by mode; "
            "the pure-QED entries [0,1], [1,1], [0,2] of the up/down non-singlet grids are e_u^2 / e_d^2 times ONE common function "
            "per sector; choose_ns_ad_* are total over the four modes and refuse others. At N3LO the comparison is repeated for the older family of parametrisations (use_fhmruvv=False, the only one for nf = 6), with the switch omitted in every call (the siblings' defaults must select the same family) and with unequal N3LO uncertainty settings n3lo_ad_variation = (1,2,1,1,2,1,2): there the Sdelta entry takes the qq setting instead of the ns+ one (known finding).",
    "note": "Identity in N for each configuration (PIT in F_p over the harmonic atoms). The N3LO comparison uses the FHMRUVV "
            "parametrisation (the only one implemented for all nf). Values of the special functions are not involved.",
    "technique": "partial evaluation of sibling dispatchers + polynomial identity testing",
    "engine": "sa",
}

US = "ekore.anomalous_dimensions.unpolarized.space_like"
VAR = (0, 0, 0, 0, 0, 0, 0)
EU2, ED2 = Fraction(4, 9), Fraction(1, 9)


def _case(chk, case):
    src = load()
    pe = PE(src, assume=em.assume_generic_moment)
    em.install_cache_atoms(pe)
    em.install_special_function_atoms(pe)
    (n, m), nf = case[0], case[1]
    fh = case[2] if len(case) > 2 else True     # the family of N3LO parametrisations (use_fhmruvv); the older one also serves nf = 6
    var_ = case[3] if len(case) > 3 else VAR     # N3LO variation (gg, gq, qg, qq, ns+, ns-, nsv)
    N = dag.sym("N")
    # "omitted": every function is called without the switch - the siblings' DEFAULTS must select the same family
    FH = [] if fh == "omitted" else [fh]
    inst = f"order=({n},{m}),nf={nf}" + (f",n3lo_ad_variation={var_}" if var_ != VAR else "") + ("" if fh is True else ",use_fhmruvv omitted (defaults)" if fh == "omitted" else ",use_fhmruvv=False")
    fs = src.func(f"{US}.gamma_singlet_qed")
    fv = src.func(f"{US}.gamma_valence_qed")
    fn_ = src.func(f"{US}.gamma_ns_qed")
    k = 2
    # an ingredient documented as unavailable (N3LO at nf=6) must be refused by the QCD and the QED dispatchers alike
    # (the N3LO singlet parametrisation does not exist for nf=6: the QED singlet grid must then refuse exactly like the QCD one)
    def refusal(q, args):
        try:
            pe.call(q, args)
            return None
        except PERaise as e:
            return e.etype

    r_qed, r_qcd = refusal(fs.qname, [(n, m), N, nf, var_] + FH), refusal(f"{US}.gamma_singlet", [(n, 0), N, nf, var_] + FH)
    if r_qed or r_qcd:
        chk.decide(r_qed == r_qcd == "NotImplementedError", "qed-and-qcd-refuse-alike", fs.qname,
                   f"{inst}: singlet sector: QED grid {'raises ' + r_qed if r_qed else 'is computed'} but the QCD one "
                   f"{'raises ' + r_qcd if r_qcd else 'is computed'}", where=fs.where, instance=inst,
                   detail="both singlet dispatchers raise NotImplementedError")
        # compare the remaining (non-singlet, valence) sectors at the highest order that is available for the singlet
        n = n - 1
        if n < 1:
            return
        inst = inst + f" (singlet refused; compared through a_s^{n})"
    S = pe.call(fs.qname, [(n, m), N, nf, var_] + FH)
    V = pe.call(fv.qname, [(n, m), N, nf, var_] + FH)
    Q = pe.call(f"{US}.gamma_singlet", [(n, 0), N, nf, var_] + FH)
    nsp = pe.call(f"{US}.gamma_ns", [(n, 0), 10101, N, nf, var_] + FH)
    nsm = pe.call(f"{US}.gamma_ns", [(n, 0), 10201, N, nf, var_] + FH)
    nsv = pe.call(f"{US}.gamma_ns", [(n, 0), 10200, N, nf, var_] + FH)
    chk.need(isinstance(S, Arr) and S.shape == (n + 1, m + 1, 4, 4), f"gamma_singlet_qed shape changed ({inst})")
    diffs, names = [], []
    for i in range(1, n + 1):
        blk = S[i, 0]
        q = Q[i - 1]
        want = {(0, 0): q[1, 1], (0, 2): q[1, 0], (2, 0): q[0, 1], (2, 2): q[0, 0], (3, 3): nsp[i - 1]}
        for r in range(4):
            for c in range(4):
                diffs.append(dag.sub(blk[r, c], want.get((r, c), 0)))
                names.append(f"singlet grid a_s^{i} entry [{r},{c}] (basis g, ph, S, Sdelta)")
        vb = V[i, 0]
        wantv = {(0, 0): nsv[i - 1], (1, 1): nsm[i - 1]}
        for r in range(2):
            for c in range(2):
                diffs.append(dag.sub(vb[r, c], wantv.get((r, c), 0)))
                names.append(f"valence grid a_s^{i} entry [{r},{c}] (basis V, Vdelta)")
    # a_s^0 a_em^0 slot must stay empty
    for x in list(S[0, 0].flat()) + list(V[0, 0].flat()):
        diffs.append(dag.tonode(x))
        names.append("order (0,0) slot")
    ok, info = dag.is_zero_fp(diffs, chk.seed, k)
    chk.decide(ok, "qed-grid-embeds-qcd-singlet-and-valence", fs.qname if not ok and "singlet" in names[info["index"]] else fv.qname,
               f"{inst}: {names[info['index']] if not ok else ''} differs from the pure-QCD anomalous dimension of the corresponding sector",
               where=(fs if not ok and "singlet" in names[info["index"]] else fv).where, instance=inst, data={"witness": info},
               detail=f"{len(diffs)} entries", how="PE + PIT F_p")
    # non-singlet grids
    diffs, names = [], []
    grids = {}
    for mode in (10102, 10103, 10202, 10203):
        g = pe.call(fn_.qname, [(n, m), mode, N, nf, var_] + FH)
        grids[mode] = g
        ref = nsp if mode in (10102, 10103) else nsm
        for i in range(1, n + 1):
            diffs.append(dag.sub(g[i, 0], ref[i - 1]))
            names.append(f"mode {mode}: entry [{i},0] vs QCD ns{'+' if mode in (10102, 10103) else '-'}")
        diffs.append(dag.tonode(g[0, 0]))
        names.append(f"mode {mode}: entry [0,0]")
    # charges: up entries / e_u^2 == down entries / e_d^2 for the pure-QED and mixed slots that are flavour-universal
    for up, dn, tag in ((10102, 10103, "ns+"), (10202, 10203, "ns-")):
        for (i, j) in ((0, 1), (1, 1)):
            if j <= m:
                diffs.append(dag.sub(dag.div(grids[up][i, j], EU2), dag.div(grids[dn][i, j], ED2)))
                names.append(f"{tag}: entry [{i},{j}] up/e_u^2 vs down/e_d^2")
    ok, info = dag.is_zero_fp(diffs, chk.seed, k)
    chk.decide(ok, "qed-ns-grid-embeds-qcd-and-charges", fn_.qname,
               f"{inst}: {names[info['index']] if not ok else ''} disagree", where=fn_.where, instance=inst, data={"witness": info},
               detail=f"{len(diffs)} entries", how="PE + PIT F_p")


def run(chk):
    src = load()
    chk.rule_text = "QED grid entries at a_em^0 == QCD sector functions; photon decoupled; e_q^2 multiples of one function"
    orders = [(n, m) for n in (1, 2, 3, 4) for m in (1, 2)] if chk.tier == "thorough" else [(1, 1), (2, 1), (3, 2), (4, 2)]
    nfs = (3, 4, 5, 6)
    cases = [(o, nf) for o in orders for nf in nfs]
    cases += [(o, nf, False) for o in orders if o[0] == 4 for nf in nfs]      # N3LO with the older parametrisations (the only ones for nf = 6)
    cases += [(o, nf, "omitted") for o in orders if o[0] == 4 for nf in (3, 5)]
    # N3LO uncertainty variations: one setting per entry; Sdelta and the up / down non-singlets follow the ns+ setting, Vdelta the ns- one
    cases += [(o, nf, True, (1, 2, 1, 1, 2, 1, 2)) for o in orders if o[0] == 4 for nf in (3, 4)]
    pmap(chk, _case, cases, jobs=8)
    # choose_* are total over the four modes and refuse anything else
    pe = PE(src)
    em.install_cache_atoms(pe)
    em.install_special_function_atoms(pe)
    N = dag.sym("N")
    for fname, extra in (("choose_ns_ad_aem1", []), ("choose_ns_ad_as1aem1", []), ("choose_ns_ad_aem2", [4])):
        f = src.func(f"{US}.{fname}")
        for mode in (10102, 10103, 10202, 10203):
            try:
                args = [mode, N] + extra + ["<harmonic cache>"]
                v = pe.call(f.qname, args)
                chk.decide(isinstance(v, dag.Node), "ns-mode-table-total", f.qname, f"{fname}({mode}) returns {v!r}", where=f.where,
                           instance=str(mode))
            except PERaise as e:
                chk.fail("ns-mode-table-total", f.qname, f"{fname}({mode}) raises {e}", where=f.where, instance=str(mode))
        for mode in (10101, 10201, 10200, 0):
            try:
                v = pe.call(f.qname, [mode, N] + extra + ["<harmonic cache>"])
                chk.fail("ns-mode-table-total", f.qname, f"{fname}({mode}) returns a value for a mode outside the unified basis",
                         where=f.where, instance=str(mode))
            except PERaise as e:
                chk.decide(e.etype == "NotImplementedError", "ns-mode-table-total", f.qname, f"{fname}({mode}) raises {e.etype}",
                           where=f.where, instance=str(mode))
    chk.floor("configurations", len(cases), 16)
    chk.note(instances=len(cases), files=["src/ekore/anomalous_dimensions/unpolarized/space_like/__init__.py"])
    chk.explanation = "Entry-by-entry agreement of the QED grids with the QCD dispatchers as identities in N."
