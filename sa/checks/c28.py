"""C28 - Python and Rust ekore produce the same anomalous dimensions and OMEs (formula-level sibling comparison)."""
from __future__ import annotations

import random

import mpmath as mp

from .. import dag, ekore_model as em, numeval, rsexpr
from ..arr import Arr
from ..core import AnalysisError, pmap
from ..pe import PE, PERaise
from ..rs import Crates
from ..src import load

LEVEL = "other"
META = {
    "text": "Every function of crates/ekore that has a twin in src/ekore (same module path and name; the Rust N3LO kernels taking a "
            "`variation` pair with the FHMRUVV modules; aliases listed in the check) is extracted on both sides to a formula over "
            "the same atoms - the Rust side by a lark grammar for the subset of Rust the kernels use, evaluated symbolically with "
            "Rust's typing of literals (integer division on integer operands, `as` casts), the Python side by the partial "
            "evaluator - with the harmonic-sum cache look-ups as atoms (Rust's even/odd keys mapped to the Python parity flag). "
            "The two formulas are then compared by high-precision numerical identity testing (mpmath, 40 digits) at random "
            "complex N, random L and several nf / variation indices, with the harmonic-sum atoms given their TRUE values "
            "(polygamma functions, the Mellin integral defining g3) so that recurrences used on one side only are honoured, and "
            "all other atoms given equal pseudo-random values on both sides; agreement is required to 1e-10 relative - which "
            "absorbs decimal literals written with 16 digits on one side and as fractions on the other, and nothing else. The "
            "documented exception (g3 at a shifted argument: parametrised on the Python side, recurrence on the Rust side) "
            "disappears at this level because both are interpreted as the same true function. Sector dispatchers are compared "
            "for every order and sector they implement.",
    "note": "Level 'other': formulas are compared, not compiled floating-point results; the numerical kernels behind the atoms "
            "(polygamma, g-functions) are compared only where both are written as formulas.",
    "technique": "Rust front-end (lark) + partial evaluation of both siblings to formulas over common atoms + high-precision numerical identity testing with a true-value oracle for the atoms",
    "engine": "sa",
}

PFX = "crates/ekore/src/"
THOROUGH = False
ALT = {"Sm1", "Sm2", "Sm3", "Sm21"}
TOL = 1e-10
ALIASES = {  # Rust (file, name) -> Python qualified name, where the names differ
    ("anomalous_dimensions/unpolarized/spacelike.rs", "gamma_ns_qcd"): "ekore.anomalous_dimensions.unpolarized.space_like.gamma_ns",
    ("anomalous_dimensions/unpolarized/spacelike.rs", "gamma_singlet_qcd"): "ekore.anomalous_dimensions.unpolarized.space_like.gamma_singlet",
    ("anomalous_dimensions/polarized/spacelike.rs", "gamma_ns_qcd"): "ekore.anomalous_dimensions.polarized.space_like.gamma_ns",
    ("anomalous_dimensions/polarized/spacelike.rs", "gamma_singlet_qcd"): "ekore.anomalous_dimensions.polarized.space_like.gamma_singlet",
}
INTERNAL = {"g3_shift", "gamma_nsq", "gamma_phq", "gamma_nss"}  # helpers without a same-named twin: covered through their callers


def cache_atom(key, n):
    if key[:-1] in ALT and key[-1] in "eo":
        return dag.fn("H_" + key[:-1], n, dag.const(1 if key[-1] == "e" else 0))
    if key == "G3":
        return dag.fn("H_g3", n)
    return dag.fn("H_" + key, n)


def pymod(rel):
    return "ekore." + rel[len(PFX):-3].replace("spacelike", "space_like").replace("timelike", "time_like").replace("/", ".")


def nested(x):
    if isinstance(x, Arr):
        return nested(x.tolist())
    if isinstance(x, (list, tuple)):
        return [nested(v) for v in x]
    return dag.tonode(x)


def align(r, p, path=""):
    """pair the entries of the Rust result (fixed-size arrays padded with zeros) with the Python result (sized by the order):
    returns (pairs, problems)"""
    if isinstance(p, list) != isinstance(r, list):
        return [], [f"{path}: one side is an array, the other a scalar"]
    if not isinstance(p, list):
        return [(r, p)], []
    if len(r) < len(p):
        return [], [f"{path}: Rust has {len(r)} entries, Python {len(p)}"]
    pairs, probs = [], []
    for i, (a, b) in enumerate(zip(r, p)):
        ps, pr = align(a, b, f"{path}[{i}]")
        pairs += ps
        probs += pr
    for i in range(len(p), len(r)):
        for leaf in _leaves(r[i]):
            pairs.append((leaf, dag.const(0)))
    return pairs, probs


def _leaves(x):
    if isinstance(x, list):
        for v in x:
            yield from _leaves(v)
    else:
        yield x


def configs(fn, pf):
    """argument configurations (rust args, python args, label) for a twin pair; None if a parameter is not understood"""
    rs_names = [p for p, _ in fn.params]
    dispatcher = any(p in ("order_qcd", "matching_order_qcd") for p in rs_names)
    nfs = ((3, 5) if not dispatcher else (4,)) if not THOROUGH else ((3, 4, 5, 6) if not dispatcher else (3, 5))
    variations = (0, 1, 2) if "variation" in rs_names else (0,)
    orders = [None]
    if "order_qcd" in rs_names:
        maxq = 2 if "/polarized/" in fn.file.rel else 4   # orders implemented in BOTH languages (Rust polarised: as1, as2)
        orders = [(q, e) for q in range(1, maxq + 1) for e in ((0, 1, 2) if "order_qed" in rs_names else (0,)) if not ("order_qed" in rs_names and e == 0)]
        if "order_qed" not in rs_names:
            orders = [(q, 0) for q in range(1, maxq + 1)]
    if "matching_order_qcd" in rs_names:
        orders = [(1, 0), (2, 0)]
    modes = [None]
    if "mode" in rs_names:
        modes = [10101, 10201, 10200] if "order_qed" not in rs_names else [10102, 10103, 10202, 10203]
    out = []
    for nf in nfs:
        for var in variations:
            for order in orders:
                for mode in modes:
                    ra, pa = [], []
                    ok = True
                    for p, t in fn.params:
                        if "Cache" in t:
                            ra.append(rsexpr.CacheObj(dag.sym("N")))
                        elif p in ("nf", "_nf"):
                            ra.append(nf)
                        elif p == "variation":
                            ra.append([var] * 8 if "[" in t else var)
                        elif p in ("n3lo_variation", "_n3lo_variation"):
                            ra.append([var] * 8)
                        elif p in ("L", "_L"):
                            ra.append(dag.sym("L"))
                        elif p in ("is_msbar", "is_msbar_mass"):
                            ra.append(False)
                        elif p in ("order_qcd", "matching_order_qcd"):
                            ra.append(order[0])
                        elif p == "order_qed":
                            ra.append(order[1])
                        elif p == "mode":
                            ra.append(mode)
                        else:
                            ok = False
                    for p in pf.params:
                        if p in ("N", "n"):
                            pa.append(dag.sym("N"))
                        elif p == "nf":
                            pa.append(nf)
                        elif p in ("cache", "sx", "sx_cache"):
                            pa.append("<harmonic cache>")
                        elif p == "variation":
                            pa.append((var,) * 7 if any(rp == "variation" and "[" in rt for rp, rt in fn.params) else var)
                        elif p == "n3lo_ad_variation":
                            pa.append((var,) * 7)
                        elif p == "L":
                            pa.append(dag.sym("L"))
                        elif p == "is_msbar":
                            pa.append(False)
                        elif p in ("order", "matching_order"):
                            pa.append(order)
                        elif p == "mode":
                            pa.append(mode)
                        elif p == "use_fhmruvv":
                            pa.append(True)
                        else:
                            ok = False
                    if not ok:
                        return None
                    out.append((ra, pa, f"nf={nf}" + (f",variation={var}" if len(variations) > 1 else "") + (f",order={order}" if order else "")
                                + (f",mode={mode}" if mode else "")))
    return out


_STATE = {}


def _setup():
    if "ev" not in _STATE:
        src = load()
        cr = Crates()
        ev = rsexpr.Evaluator(cr)
        ev.cache_atom = cache_atom
        pe = PE(src, assume=em.assume_generic_moment)
        em.install_cache_atoms(pe)
        em.install_special_function_atoms(pe)
        _STATE.update(src=src, ev=ev, pe=pe)
    return _STATE["src"], _STATE["ev"], _STATE["pe"]


def compare_pair(chk, key):
    src, ev, pe = _setup()
    rel, name, pq = key
    fn = ev.fns[(PFX + rel, name)]
    pf = src.funcs[pq]
    cfgs = configs(fn, pf)
    construct = f"{rel}::{name}"
    if cfgs is None:
        chk.fail("twin-parameters-understood", construct, f"parameters of the twins are not mapped: Rust {[p for p, _ in fn.params]}, Python {pf.params}",
                 where=fn.where, instance=name)
        return
    rng = random.Random(hash(key) & 0xFFFF)
    worst = (0.0, "")
    n_cmp = 0
    for ra, pa, label in cfgs:
        try:
            rv = nested(ev.call(fn, ra))
        except rsexpr.RsUndecided as e:
            if "panic" in str(e) or "unimplemented" in str(e):
                # the Rust side refuses this configuration: the Python side must refuse it too
                try:
                    pe.call(pf.qname, pa)
                    chk.fail("twins-refuse-alike", construct, f"{label}: Rust refuses ({e}) but Python computes a value", where=fn.where, instance=label)
                except PERaise:
                    pass
                continue
            raise AnalysisError(f"Rust side of {construct} not decidable: {e}")
        try:
            pv = nested(pe.call(pf.qname, pa))
        except PERaise as e:
            chk.fail("twins-refuse-alike", construct, f"{label}: Python refuses ({e}) but Rust computes a value", where=pf.where, instance=label)
            continue
        pairs_, probs = align(rv, pv)
        if probs:
            chk.fail("twins-agree", construct, f"{label}: result shapes differ: {probs[:2]}", where=fn.where, instance=label + ",shape")
            continue
        for k in range(5 if THOROUGH else 2):
            sv = {"N": mp.mpc(rng.uniform(1.5, 6), rng.uniform(0.5, 3)), "L": mp.mpf(rng.uniform(-2, 2))}
            for i, (a, b) in enumerate(pairs_):
                x = numeval.evaluate(a, sv, salt=k)
                y = numeval.evaluate(b, sv, salt=k)
                d = float(abs(x - y) / max(1, abs(x), abs(y)))
                n_cmp += 1
                if d > worst[0]:
                    worst = (d, f"{label}, entry {i}, N={mp.nstr(sv['N'], 6)}: Rust {mp.nstr(x, 12)} vs Python {mp.nstr(y, 12)}")
    chk.decide(worst[0] < TOL and n_cmp > 0, "twins-agree", construct,
               f"Rust {rel}::{name} and Python {pq} differ as formulas: relative deviation {worst[0]:.2e} ({worst[1]})", where=fn.where,
               instance=name, detail=f"{n_cmp} numerical comparisons over {len(cfgs)} configurations, max deviation {worst[0]:.1e}",
               how="Rust front-end + PE + high-precision numerical identity testing")


def run(chk):
    global THOROUGH
    THOROUGH = chk.tier == "thorough"
    src, ev, pe = _setup()
    chk.rule_text = "formula(Rust twin) == formula(Python twin) over common atoms, to 1e-10 at 40 digits"
    chk.trusted += ["mpmath special functions (true values of the harmonic-sum atoms)", "lark"]
    pairs, nopair = [], []
    for (rel, name), fn in sorted(ev.fns.items()):
        r = rel[len(PFX):]
        if "/harmonics/" in rel or r in ("util.rs", "pid.rs", "constants.rs", "bib.rs", "lib.rs", "qcd_constants.rs"):
            continue
        if name in INTERNAL:
            continue
        q = ALIASES.get((r, name)) or f"{pymod(rel)}.{name}"
        q = src.canonical(q)
        if q not in src.funcs:
            nopair.append(f"{r}::{name}")
            continue
        pf = src.funcs[q]
        # the Rust N3LO kernels implement the FHMRUVV parametrisation (they take the FHMRUVV variation index)
        if any(p == "variation" for p, _ in fn.params) and ".as4." in q + ".":
            q2 = src.canonical(q.replace(".as4.", ".as4.fhmruvv."))
            if q2 in src.funcs:
                q = q2
        pairs.append((r, name, q))
    chk.floor("twin pairs", len(pairs), 80)
    chk.decide(not nopair, "every-rust-kernel-has-a-python-twin", "crates/ekore", f"Rust functions without a Python twin: {nopair}", instance="pairing")
    pmap(chk, compare_pair, pairs, jobs=12)
    chk.note(pairs=len(pairs), assumed=sorted(set(ev.assumed))[:10], files=["crates/ekore/src/**", "src/ekore/**"])
    chk.explanation = "Sibling comparison of all twin functions at formula level."
