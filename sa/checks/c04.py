"""C04 - every supported configuration yields a finite EKO; others fail cleanly (structural + domain rules)."""
from __future__ import annotations

import ast
from fractions import Fraction

from .. import dag, ekore_model as em, kern
from ..arr import Arr
from ..cfg import all_paths_return_value
from ..pe import PE, PERaise, Top
from ..src import load, stmt_text

LEVEL = "other"
META = {
    "text": "Necessary conditions visible in the source, decided on every path / every configuration of the finite setting "
            "space: (1) SLOT FILLING: every perturbative-ingredient dispatcher of ekore (anomalous dimensions and matching "
            "elements; unpolarised, polarised, time-like; QCD and QED) is partially evaluated for every order 1..5: either it "
            "refuses with NotImplementedError/ValueError carrying a message, or every order slot k < order of the zero-"
            "initialised result is filled with a non-zero formula - a documented-unavailable ingredient must not be silently zero "
            "(frozen allowlist: the time-like matching beyond NLO, and orders whose coefficient is physically zero). (2) REAL-"
            "DOMAIN OPERATIONS: while extracting every solution kernel for nf 3-6 and orders 1-4, each np.sqrt / np.log / "
            "fractional power whose argument is a constant of the configuration is evaluated exactly; a negative argument must be "
            "explicitly complex-typed (complex(...)), otherwise the kernel is NaN for that nf. (3) CLEAN REFUSALS: the kernel "
            "dispatchers refuse unknown orders/methods with NotImplementedError/ValueError and a non-empty message; raise "
            "statements in configuration-dispatch functions use those two classes. (4) every function of the kernel, scale-"
            "variation and dispatcher modules returns a value on all paths (no implicit None)."
            " (2c) COUPLING LOGARITHMS: couplings_expanded_alphaem_running / _fixed_alphaem are evaluated with exact rationals on corners of the perturbative range (alpha_s(mu_ref) 0.11-0.35 matched to reference scales 1-173 GeV, alpha_em 0.001-0.01, targets inside the patch, orders up to (4,2)); the argument of every logarithm they take must be positive."
            " (2d) parts.match is evaluated for every heavy quark, direction and mass scheme (recording stand-ins): it never ends in an IndexError / TypeError / AttributeError."
            " (2b) DIVISORS: in a second extraction with real parts taken literally every divisor that is a constant of the configuration is evaluated (mpmath) for nf 3-6; an exactly vanishing one (the real part of a purely imaginary square root) is a violation.",
    "note": "Finiteness of the numbers themselves needs execution and is not decided. The domain rule decides constants of the "
            "configuration only (arguments depending on couplings or N are skipped and counted).",
    "technique": "partial evaluation over the finite configuration space with call-site hooks (sign of real-domain arguments), slot-fill / refusal rules, CFG all-paths-return",
    "engine": "sa",
}

AD = "ekore.anomalous_dimensions"
OME = "ekore.operator_matrix_elements"
VAR0 = (0,) * 7

# (dispatcher, argument builder(order), highest order offered, allowlist of slots that may be zero with reason)
ALLOW_ZERO = {
    (f"{OME}.unpolarized.time_like.A_singlet", "k>=1"): "the time-like matching beyond NLO is unknown - the documented exception",
    (f"{OME}.unpolarized.time_like.A_non_singlet", "k>=0"): "time-like non-singlet matching vanishes at NLO and is unknown beyond (documented exception)",
    (f"{OME}.polarized.space_like.A_non_singlet", "k=0"): "the polarised non-singlet matching starts at O(a_s^2)",
    (f"{OME}.polarized.space_like.A_singlet", "k=0 when order 2"): "",
}


def _is_zero_slot(x):
    vals = x.flat() if isinstance(x, Arr) else [x]
    return all((not isinstance(v, (dag.Node, Top))) and v == 0 for v in vals) or \
        all(isinstance(v, dag.Node) and v.op == "const" and v.payload == 0 for v in vals)


def _cplx_typed(arg_ast):
    s = ast.unparse(arg_ast)
    return "complex(" in s or "1j" in s or "complex128(" in s


def _coupling_logs(chk, src):
    """(2c) the expanded coupling formulas on corners of the perturbative range: every logarithm they take has a positive argument.

    The corners follow the property's range: alpha_s(mu_ref) between 0.08 and 0.35, alpha_em between 0.001 and 0.01, reference scales
    between 2 and 200 GeV, the target in the same flavour patch.  Each instance is (alpha_s at the reference, nf, mu_ref, mu)
    with a strong coupling that is realistic for that reference scale; evolution towards higher scales, and one long step down."""
    from .. import numeval

    mp = numeval.mp
    CP = "eko.couplings"
    fr = src.func(f"{CP}.couplings_expanded_alphaem_running")
    ff = src.func(f"{CP}.couplings_expanded_fixed_alphaem")
    found = []
    ctx = [None]
    n_logs = [0]

    def hook(kind, node, env, args):
        if kind not in ("numpy.log", "math.log"):
            return
        arg = args[0]
        if isinstance(arg, (Arr, Top)):
            return
        nd = dag.tonode(arg)
        if dag.symbols(nd) - {"pi"}:
            return
        unint = set()
        v = numeval.evaluate(nd, {}, uninterpreted=unint)
        if unint:
            return
        n_logs[0] += 1
        if mp.im(v) == 0 and mp.re(v) <= 0:
            found.append((env.func_name, stmt_text(node)[:110], env.module.relpath, node.lineno, ctx[0], mp.nstr(mp.re(v), 5)))

    pe = PE(src)
    pe.site_hook = hook
    pi4 = 4 * Fraction(355, 113)
    corners = [(Fraction(35, 100), 3, 1, Fraction(3, 2)), (Fraction(35, 100), 4, 2, Fraction(9, 2)), (Fraction(22, 100), 5, Fraction(9, 2), 173),
               (Fraction(118, 1000), 5, Fraction(912, 10), 173), (Fraction(11, 100), 6, 173, 10 ** 4), (Fraction(118, 1000), 5, Fraction(912, 10), Fraction(9, 2))]
    for alphas, nf, mu0, mu1 in corners:
        for alphaem in (Fraction(1, 1000), Fraction(1, 100)):
            for order in ((1, 1), (2, 1), (3, 2), (4, 2), (3, 0)):
                for nl in (2, 3):
                    ctx[0] = f"order={order},nf={nf},nl={nl},alpha_s({float(mu0)} GeV)={float(alphas)},alpha_em={float(alphaem)},mu={float(mu1)} GeV"
                    aref = Arr.from_nested([alphas / pi4, alphaem / pi4])
                    try:
                        if order[1] > 0:
                            pe.call(fr.qname, [order, aref, nf, nl, Fraction(mu0) ** 2, Fraction(mu1) ** 2, False])
                            pe.call(fr.qname, [order, aref, nf, nl, Fraction(mu0) ** 2, Fraction(mu1) ** 2, True])
                        pe.call(ff.qname, [order, aref, nf, Fraction(mu0) ** 2, Fraction(mu1) ** 2])
                    except PERaise as e:
                        found.append((fr.qname, f"raises {e}", fr.module.relpath, fr.lineno, ctx[0], "-"))
    seen = set()
    for fname, text, mod, line, inst, val in found:
        if (fname, text) in seen:
            continue
        seen.add((fname, text))
        chk.fail("logarithm-argument-positive-in-the-perturbative-range", fname,
                 f"`{text}` takes the logarithm of {val} for {inst}: the expanded coupling is NaN there (and every operator computed with it), "
                 f"although couplings and scales are in the perturbative range", where=f"{mod}:{line}", instance=text)
    if not found:
        chk.ok("logarithm-argument-positive-in-the-perturbative-range", CP, f"{n_logs[0]} logarithms evaluated on {len(corners)} corners x orders x couplings",
               how="PE with exact rationals + 50-digit evaluation of the arguments")
    chk.floor("coupling logarithms evaluated", n_logs[0], 200)


def run(chk):
    src = load()
    chk.rule_text = "dispatchers fill or refuse; real sqrt/log/power of negative configuration constants; refusals are NotImplementedError/ValueError with message"
    pe = PE(src, assume=em.assume_generic_moment)
    em.install_cache_atoms(pe)
    em.install_special_function_atoms(pe)
    N, L = dag.sym("N"), dag.sym("L")

    # ---- (1) slot filling ------------------------------------------------------------------------------
    disp = [
        (f"{AD}.unpolarized.space_like.gamma_ns", lambda o, nf: [(o, 0), 10101, N, nf, VAR0, True], 4, False),
        (f"{AD}.unpolarized.space_like.gamma_singlet", lambda o, nf: [(o, 0), N, nf, VAR0, True], 4, False),
        (f"{AD}.unpolarized.space_like.gamma_ns_qed", lambda o, nf: [(o, 2), 10102, N, nf, VAR0, True], 4, True),
        (f"{AD}.unpolarized.space_like.gamma_singlet_qed", lambda o, nf: [(o, 2), N, nf, VAR0, True], 4, True),
        (f"{AD}.unpolarized.space_like.gamma_valence_qed", lambda o, nf: [(o, 2), N, nf, VAR0, True], 4, True),
        (f"{AD}.polarized.space_like.gamma_ns", lambda o, nf: [(o, 0), 10101, N, nf], 3, False),
        (f"{AD}.polarized.space_like.gamma_singlet", lambda o, nf: [(o, 0), N, nf], 3, False),
        (f"{AD}.unpolarized.time_like.gamma_ns", lambda o, nf: [(o, 0), 10101, N, nf], 3, False),
        (f"{AD}.unpolarized.time_like.gamma_singlet", lambda o, nf: [(o, 0), N, nf], 3, False),
        (f"{OME}.unpolarized.space_like.A_singlet", lambda o, nf: [(o, 0), N, nf, L, False], 3, False),
        (f"{OME}.unpolarized.space_like.A_non_singlet", lambda o, nf: [(o, 0), N, nf, L], 3, False),
        (f"{OME}.polarized.space_like.A_singlet", lambda o, nf: [(o, 0), N, nf, L], 2, False),
        (f"{OME}.polarized.space_like.A_non_singlet", lambda o, nf: [(o, 0), N, L], 2, False),
        (f"{OME}.unpolarized.time_like.A_singlet", lambda o, nf: [(o, 0), N, L], 1, False),
        (f"{OME}.unpolarized.time_like.A_non_singlet", lambda o, nf: [(o, 0), N, L], 1, False),
    ]
    n_disp = 0
    for q, mk, top, qed in disp:
        f = src.func(q)
        # the solver admits order[0] in 1..4 (Couplings.__init__ refuses anything else, checked below), hence matching
        # orders 0..3: only these can reach the ingredient dispatchers
        for o in (range(1, 5) if ".anomalous_dimensions." in q else range(1, 4)):
            nf = 4
            inst = f"order={o}"
            n_disp += 1
            try:
                res = pe.call(q, mk(o, nf))
            except PERaise as e:
                okr = e.etype in ("NotImplementedError", "ValueError") and bool(str(e.message).strip())
                chk.decide(okr and o > top - 0 or okr, "dispatcher-fills-or-refuses", q,
                           f"{inst}: raises {e.etype} {'without message' if not str(e.message).strip() else ''}", where=f.where,
                           instance=inst, detail=f"refuses: {e.etype}: {e.message}")
                if o <= top:
                    chk.fail("dispatcher-fills-or-refuses", q, f"{inst}: a documented-available order is refused ({e})", where=f.where,
                             instance=inst + ",refused")
                continue
            if not isinstance(res, Arr):
                chk.fail("dispatcher-fills-or-refuses", q, f"{inst}: returns {type(res).__name__}", where=f.where, instance=inst)
                continue
            slots = range(1, res.shape[0]) if qed else range(res.shape[0])
            empty = []
            for k in slots:
                slot = res[k, 0] if qed else res[k]
                if _is_zero_slot(slot):
                    empty.append(k)
            allowed = []
            if "time_like.A_" in q:
                allowed = [k for k in empty if k >= (1 if "A_singlet" in q else 0)]
            if q.endswith("polarized.space_like.A_non_singlet"):
                allowed = [k for k in empty if k == 0]
            if q.endswith("polarized.space_like.A_singlet") or q.endswith("polarized.space_like.A_non_singlet"):
                pass
            bad = [k for k in empty if k not in allowed]
            chk.decide(not bad, "dispatcher-fills-or-refuses", q,
                       f"{inst}: the result is returned with the a_s^{[k + (0 if qed else 1) for k in bad]} slot(s) still zero-initialised and "
                       f"no refusal: an unavailable perturbative ingredient is silently replaced by zero", where=f.where,
                       instance=inst, detail=f"{len(list(slots))} slots filled" + (f" (allowed zero: {allowed})" if allowed else ""))
    chk.floor("dispatcher x order instances", n_disp, 50)
    # the admissible order range is enforced where the solver starts (Couplings.__init__)
    fci = src.func("eko.couplings.Couplings.__init__")
    guards = {}
    for st in ast.walk(fci.node):
        if isinstance(st, ast.If) and isinstance(st.test, ast.Compare) and isinstance(st.test.ops[0], ast.NotIn) \
                and any(isinstance(x, ast.Raise) for x in st.body):
            try:
                guards[ast.unparse(st.test.left)] = sorted(ast.literal_eval(st.test.comparators[0]))
            except Exception:
                pass
    chk.decide(guards.get("order[0]") == [1, 2, 3, 4] and guards.get("order[1]") == [0, 1, 2], "admissible-orders-enforced", fci.qname,
               f"Couplings.__init__ admits orders {guards}: the ingredient dispatchers are only shown to fill-or-refuse for "
               f"order[0] in 1..4 and order[1] in 0..2", where=fci.where, detail="order[0] in 1..4, order[1] in 0..2 else raise")

    # ---- (2) real-domain operations on configuration constants --------------------------------------------
    sites = {}
    skipped = [0]

    def hook(kind, node, env, args):
        if kind == "div":
            return
        if kind == "pow":
            base, ex = args
            exc = dag.as_const(ex) if not isinstance(ex, (Arr, Top)) else None
            if exc is None or exc.denominator == 1:
                return
            arg, arg_ast = base, node.left
        elif kind in ("numpy.power",):
            base, ex = args[0], args[1]
            exc = dag.as_const(ex) if not isinstance(ex, (Arr, Top)) else None
            if exc is None or exc.denominator == 1:
                return
            arg, arg_ast = base, node.args[0]
        else:
            arg, arg_ast = args[0], node.args[0]
        if isinstance(arg, (Arr, Top)):
            return
        c = dag.as_const(arg)
        key = (env.func_name, stmt_text(node)[:100])
        if c is None:
            # try: constant up to zeta atoms
            nd = dag.tonode(arg) if not isinstance(arg, dag.Node) else arg
            if dag.symbols(nd) or (dag.atoms(nd) - {"zeta"}):
                skipped[0] += 1
                return
            import sympy as sp

            c = float(sp.N(dag.to_sympy(nd, fntab={"zeta": lambda k: sp.zeta(k)})))
        rec = sites.setdefault(key, {"neg": [], "n": 0, "cplx": _cplx_typed(arg_ast), "line": node.lineno, "mod": env.module.relpath,
                                     "kind": kind})
        rec["n"] += 1
        if c < 0:
            rec["neg"].append(float(c))

    pe2 = PE(src, assume=kern.assume_distinct_couplings, real_is_identity=True)
    pe2.site_hook = hook
    M = pe2.enum_members(pe2.get_global("eko.kernels", "EvoMethods").cls)
    a1, a0 = dag.sym("a1"), dag.sym("a0")
    n_runs = 0
    for nfc in (3, 4, 5, 6):
        for n in (1, 2, 3, 4):
            g = kern.ns_gamma(n)
            G = kern.sg_gamma(n)
            for mname, mem in M.items():
                n_runs += 1
                pe2.call(f"{kern.NS}.dispatcher", [(n, 0), mem, g, a1, a0, nfc])
                pe2.call(f"{kern.SG}.dispatcher", [(n, 0), mem, G, a1, a0, nfc, 2, (n + 1, 0)])
            for m in (1, 2):
                Gq = Arr.from_nested([[dag.sym(f"G{i}_{j}") for j in range(m + 1)] for i in range(n + 1)])
                pe2.call(f"{kern.QNS}.fixed_alphaem_exact", [(n, m), Gq, a1, a0, dag.sym("aem"), nfc, dag.sym("m0"), dag.sym("m1")])
    for (fname, text), rec in sorted(sites.items()):
        bad = rec["neg"] and not rec["cplx"]
        chk.decide(not bad, "real-domain-operation-on-negative-constant", fname,
                   f"`{text}` is evaluated with a negative real argument ({rec['neg'][:2]}) for some nf in 3..6 and the argument is not "
                   f"complex-typed: the result is NaN ({'numpy' if rec['kind'] != 'pow' else 'numba types float**float as float'})",
                   where=f"{rec['mod']}:{rec['line']}", instance=text,
                   detail=f"{rec['n']} evaluations, {len(rec['neg'])} negative, complex-typed={rec['cplx']}")
    chk.floor("kernel extractions with domain hook", n_runs, 128)
    # ---- (2b) divisions by a constant of the configuration that vanishes for some nf (real parts taken literally) ---------------
    from .. import numeval

    zero_div = {}
    n_div = [0]

    def div_hook(kind, node, env, args, cur=[None]):
        if kind != "div":
            return
        b = args[1]
        if isinstance(b, (Arr, Top)) or isinstance(b, bool):
            return
        nd = dag.tonode(b)
        if dag.as_const(nd) is not None or (dag.symbols(nd) - {"I", "pi"}):
            return            # plain rationals are decided by the evaluator itself; couplings / moments are not constants
        unk = set()
        try:
            v = numeval.evaluate(nd, {}, uninterpreted=unk)
        except Exception:
            return
        if unk:
            return
        n_div[0] += 1
        if abs(v) < 1e-40:
            zero_div.setdefault((env.func_name, stmt_text(node)[:100], env.module.relpath, node.lineno), set()).add(div_ctx[0])

    div_ctx = [None]
    pe3 = PE(src, assume=kern.assume_distinct_couplings, real_is_identity=False)
    pe3.ext["builtins.complex"] = kern._complex
    pe3.site_hook = div_hook
    M3 = pe3.enum_members(pe3.get_global("eko.kernels", "EvoMethods").cls)
    for nfc in (3, 4, 5, 6):
        div_ctx[0] = f"nf={nfc}"
        for n in (1, 2, 3, 4):
            g = kern.ns_gamma(n)
            G = kern.sg_gamma(n)
            for mname, mem in M3.items():
                try:
                    pe3.call(f"{kern.NS}.dispatcher", [(n, 0), mem, g, a1, a0, nfc])
                    pe3.call(f"{kern.SG}.dispatcher", [(n, 0), mem, G, a1, a0, nfc, 2, (n + 1, 0)])
                except PERaise as e:
                    if e.etype == "ZeroDivisionError":
                        zero_div.setdefault((f"{kern.NS}/{kern.SG}.dispatcher", f"order {n}, {mname}: {e.message}", "src/eko/kernels", 0), set()).add(div_ctx[0])
            for m in (1, 2):
                Gq = Arr.from_nested([[dag.sym(f"G{i}_{j}") for j in range(m + 1)] for i in range(n + 1)])
                pe3.call(f"{kern.QNS}.fixed_alphaem_exact", [(n, m), Gq, a1, a0, dag.sym("aem"), nfc, dag.sym("m0"), dag.sym("m1")])
    for (fname, text, mod, line), nfs in sorted(zero_div.items()):
        chk.fail("division-by-a-vanishing-configuration-constant", fname,
                 f"`{text}` divides by a constant of the configuration that is exactly zero for {sorted(nfs)} (e.g. the real part of a purely "
                 f"imaginary square root): the kernel is NaN under the interpreter and raises ZeroDivisionError when compiled", where=f"{mod}:{line}",
                 instance=text)
    if not zero_div:
        chk.ok("division-by-a-vanishing-configuration-constant", "eko.kernels", f"{n_div[0]} divisions by configuration constants evaluated for nf 3..6")
    chk.floor("divisions by configuration constants", n_div[0], 20)
    chk.floor("real-domain call sites with constant argument", len(sites), 3)

    _coupling_logs(chk, src)
    # the matching part of every heavy quark, in both directions, is computed or refused cleanly (parts.match with recording stand-ins,
    # shared with C02): an index into the per-quark tables that is off by one crashes for the top quark only
    from .c02 import matching_wiring

    matching_wiring(chk, src, rule="matching-part-is-computed-or-refused-cleanly", crashes_only=True)

    # ---- (3) clean refusals in kernel dispatchers ---------------------------------------------------------------
    for q, args in ((f"{kern.NS}.dispatcher", [(5, 0), M["ITERATE_EXACT"], kern.ns_gamma(4), a1, a0, 4]),
                    (f"{kern.QSG}.dispatcher", [(2, 1), M["TRUNCATED"], None, None, None, 4, 1, (2, 0)]),
                    (f"{kern.QVL}.dispatcher", [(2, 1), M["DECOMPOSE_EXACT"], None, None, None, 4, 1, (2, 0)]),
                    (f"{kern.QNS}.fixed_alphaem_exact", [(5, 1), Arr.full((6, 2), 1), a1, a0, dag.sym("aem"), 4, 1, 2])):
        f = src.func(q)
        try:
            r = pe2.call(q, args)
            chk.fail("kernel-dispatcher-refuses-cleanly", q, f"unsupported configuration {args[0]}/{getattr(args[1], 'attrs', {}).get('_name_', '')} "
                     f"returns {type(r).__name__} instead of raising", where=f.where, instance=str(args[0]))
        except PERaise as e:
            chk.decide(e.etype in ("NotImplementedError", "ValueError") and bool(str(e.message).strip()),
                       "kernel-dispatcher-refuses-cleanly", q, f"raises {e.etype}('{e.message}')", where=f.where, instance=str(args[0]),
                       detail=f"{e.etype}: {e.message}")
    # raise statements in configuration-dispatch functions
    n_raise = 0
    for modname in [m for m in src.modules if m.startswith(("eko.kernels", "ekore.anomalous_dimensions", "ekore.operator_matrix_elements",
                                                             "eko.scale_variations"))] + ["eko.beta", "eko.gamma"]:
        mod = src.modules[modname]
        for f in mod.funcs.values():
            for n in ast.walk(f.node):
                if isinstance(n, ast.Raise) and n.exc is not None:
                    n_raise += 1
                    name = ast.unparse(n.exc.func if isinstance(n.exc, ast.Call) else n.exc).split(".")[-1]
                    has_msg = isinstance(n.exc, ast.Call) and bool(n.exc.args)
                    chk.decide(name in ("NotImplementedError", "ValueError") and has_msg, "refusal-class-and-message", f.qname,
                               f"`{stmt_text(n)[:80]}`: refusals of unsupported configurations must be NotImplementedError/ValueError "
                               f"naming the feature", where=f"{mod.relpath}:{n.lineno}", instance=stmt_text(n)[:80])
    chk.floor("raise statements in dispatch modules", n_raise, 20)

    # ---- (4) all paths return ------------------------------------------------------------------------------------
    n_f = 0
    for modname, mod in src.modules.items():
        if modname.startswith(("eko.kernels", "eko.scale_variations", "eko.evolution_operator.quad_ker", "ekore.anomalous_dimensions",
                               "ekore.operator_matrix_elements", "ekore.harmonics", "eko.beta", "eko.gamma")):
            for f in mod.funcs.values():
                n_f += 1
                ok, why = all_paths_return_value(f.node)
                if not ok:
                    chk.fail("all-paths-return", f.qname, f"{f.qname} can end without returning a value ({why}): the caller receives None "
                             f"(a TypeError later, or a numba typing failure)", where=f.where)
    chk.ok("all-paths-return", "kernels, scale variations, quad_ker, ekore", f"{n_f} functions")
    chk.floor("functions checked for all-paths-return", n_f, 300)
    chk.note(dispatcher_instances=n_disp, kernel_runs=n_runs, domain_sites={f"{k[0]}: {k[1]}": v["n"] for k, v in sites.items()},
             symbolic_arguments_skipped=skipped[0], files=["src/ekore/", "src/eko/kernels/", "src/eko/scale_variations/"])
    chk.explanation = ("Slot-fill/refusal behaviour of all ingredient dispatchers for orders 1-5, sign analysis of real-domain "
                       "operations on configuration constants for nf 3-6, refusal classes, and all-paths-return.")
