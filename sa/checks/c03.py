"""C03 - EKOs do not depend on parallel schedule, target order or co-computed targets (structure that guarantees it)."""
from __future__ import annotations

import ast

from .. import dag, effects as E
from ..arr import Arr
from ..pe import PE, Obj, ExtRef, Top
from ..src import load, stmt_text

LEVEL = "proof"
META = {
    "text": "Bitwise independence from the schedule follows from, and is decided through, these structural facts, each a necessary "
            "condition whose breach changes results for some schedule: (1) ORDERED COLLECTION: Operator.integrate is partially "
            "evaluated with a symbolic worker, once sequentially and once through a (modelled, order-preserving) pool: both fill "
            "value[grid point][basis function] with exactly the worker's result for that pair, the two branches apply the same "
            "callable to the same arguments, and the pool API used is an order-preserving one (map/starmap/imap - never "
            "imap_unordered/apply_async/as_completed). (2) WORKER PURITY: no function reachable from the worker "
            "(run_op_integration -> quad_ker -> all kernels; call graph extended with properties, overrides and function "
            "references) writes module-level state, writes attributes of the shared operator object, or mutates in place an "
            "argument that is shared between grid points (as_list, a_half, areas, ...) - state that persists in a worker would make "
            "the result depend on which points that worker handled before. (3) The core count only selects the branch and sizes "
            "the pool: it is read nowhere else. (4) RECIPE IDENTITY: every field of the recipe headers takes part in equality and "
            "hash (frozen dataclasses, no compare=False, no custom __eq__/__hash__), so two targets share a part only if the parts "
            "are computed from identical inputs; the part computation reads nothing of the recipe but those fields and nothing of "
            "the cards that depends on the target list (mugrid/evolgrid). (5) The per-target loop of the runner carries no state "
            "between targets (no variable defined in one iteration is read in a later one) and indexes results by the target; "
            "recipes of a target depend on that target and the atlas only."
            " The value stored into any inventory in the loops of managed.solve (parts, matching parts, operators) derives from the recipe / the parts only: its def-use closure reads nothing back from the stores.",
    "note": "That the numbers are bitwise equal is a consequence of (1)-(5) for a deterministic floating-point worker; scipy's "
            "quadrature and numba kernels are taken to be deterministic functions of their arguments.",
    "technique": "partial evaluation of the collector with a symbolic worker + effect analysis (who-writes) over the call graph + dataclass identity rule + loop-carried-state dataflow rule",
    "engine": "sa",
}

OPC = "eko.evolution_operator.Operator"
ORDERED_POOL_API = {"map", "starmap", "imap"}
UNORDERED_API = {"imap_unordered", "apply_async", "map_async", "starmap_async", "as_completed", "submit"}
TARGET_LIST_ATTRS = {"mugrid", "evolgrid", "mu2grid"}


def _integrate_pe(chk, src, n_cores, grid=3):
    pe = PE(src)
    cls = src.cls(OPC)
    labels = [(100, 100), (100, 21), (10200, 0)]
    calls = []

    def worker(pe_, args, kwargs):
        k, logx = args[-1]
        calls.append((k, logx))
        col = []
        for j in range(grid):
            if k == j and j == grid - 1:
                continue
            col.append({lab: (dag.sym(f"v_{k}_{j}_{lab[0]}_{lab[1]}"), dag.sym(f"e_{k}_{j}_{lab[0]}_{lab[1]}")) for lab in labels})
        return col

    pe.overrides[f"{OPC}.run_op_integration"] = worker
    pools = []

    def pool_new(pe_, args, kwargs):
        pools.append(args[0] if args else None)
        return ExtRef("verif.pool")

    def pool_map(pe_, args, kwargs):
        fn, it = args[0], args[1]
        return [pe_.apply(fn, [x], {}) for x in list(it)]

    pe.ext["multiprocessing.Pool"] = pool_new
    pe.ext["multiprocessing.pool.Pool"] = pool_new
    for api in ORDERED_POOL_API:
        pe.ext[f"verif.pool.{api}"] = pool_map
    pe.ext["time.perf_counter"] = lambda pe_, a, k: dag.sym("t")
    pe.ext["os.cpu_count"] = lambda pe_, a, k: 4
    o = Obj(cls)
    xg = Obj(src.cls("eko.interpolation.XGrid"))
    xg.attrs.update(raw=Arr.from_nested([dag.sym(f"x{i}") for i in range(grid)]), size=grid)
    disp = Obj(src.cls("eko.interpolation.InterpolatorDispatcher"))
    disp.attrs.update(xgrid=xg)
    mg = Obj(src.cls("eko.evolution_operator.Managers"))
    mg.attrs.update(interpolator=disp)
    om = src.cls("eko.member.OpMember")
    members = {}
    for lab in labels:
        m = Obj(om)
        m.attrs.update(value=Arr.from_nested([[dag.sym(f"init_{r}_{c}") for c in range(grid)] for r in range(grid)]),
                       error=Arr.from_nested([[dag.const(0) for c in range(grid)] for r in range(grid)]))
        members[lab] = m
    o.attrs.update(config={"n_integration_cores": n_cores}, managers=mg, op_members=members, log_label="Evolution")
    pe.apply(pe.getattr(o, "integrate"), [], {})
    return members, labels, calls, pools


def _memo_store(f, attr, lineno):
    """the statement at `lineno` is `self.<attr>[K] = <value>.copy()` and the function answers `return self.<attr>[K].copy()` for
    the same key expression K (whatever the key and the value are called)"""
    def slot(t):
        return isinstance(t, ast.Subscript) and isinstance(t.value, ast.Attribute) and t.value.attr == attr \
            and isinstance(t.value.value, ast.Name) and t.value.value.id == "self"

    def copied(v):
        return isinstance(v, ast.Call) and isinstance(v.func, ast.Attribute) and v.func.attr == "copy" and not v.args

    keys = [ast.unparse(n.targets[0].slice) for n in ast.walk(f.node)
            if isinstance(n, ast.Assign) and n.lineno == lineno and len(n.targets) == 1 and slot(n.targets[0]) and copied(n.value)]
    if not keys:
        return False
    answered = [ast.unparse(v.func.value.slice) for v in E.return_exprs(f.node) if copied(v) and slot(v.func.value)]
    return keys[0] in answered


def run(chk):
    src = load()
    chk.rule_text = "ordered, position-indexed collection; pure workers; recipe identity covers all fields; no target-list reads in parts; no loop-carried state"
    fint = src.func(f"{OPC}.integrate")
    grid = 3
    # ---- (1) ordered collection ----------------------------------------------------------------------------------------
    results = {}
    unordered = [c.func.attr for c in src.calls_in(fint) if isinstance(c.func, ast.Attribute) and c.func.attr in UNORDERED_API]
    for n in (1, 3, -2) if not unordered else (1,):
        members, labels, calls, pools = _integrate_pe(chk, src, n, grid)
        results[n] = (members, calls, pools)
        bad = []
        for lab in labels:
            v, e = members[lab].attrs["value"], members[lab].attrs["error"]
            for g in range(grid):
                for b in range(grid):
                    if g == b == grid - 1:
                        want_v = dag.sym(f"init_{g}_{b}")
                        want_e = dag.const(0)
                    else:
                        want_v, want_e = dag.sym(f"v_{g}_{b}_{lab[0]}_{lab[1]}"), dag.sym(f"e_{g}_{b}_{lab[0]}_{lab[1]}")
                    if dag.tonode(v[g, b]) is not want_v or dag.tonode(e[g, b]) is not want_e:
                        bad.append((lab, g, b, dag.short(dag.tonode(v[g, b]))))
        chk.decide(not bad, "results-collected-by-position", fint.qname,
                   f"n_integration_cores={n}: entry (grid point, basis function) of the operator is not the worker's result for that pair: "
                   f"{bad[:3]}", where=fint.where, instance=f"cores={n}", how="PE with symbolic worker")
        want_calls = [(k, dag.fn("log", dag.sym(f"x{k}"))) for k in range(grid)]
        okc = len(calls) == grid and all(c[0] == w[0] and dag.tonode(c[1]) is w[1] for c, w in zip(sorted(calls, key=lambda c: c[0]), want_calls))
        chk.decide(okc, "same-work-in-both-branches", fint.qname,
                   f"n_integration_cores={n}: the worker is not called exactly once per grid point with (index, log x)", where=fint.where,
                   instance=f"cores={n}", how="PE with symbolic worker")
        chk.decide((pools == []) if n == 1 else (pools == [n if n > 0 else max(4 + n, 1)]), "core-count-only-sizes-the-pool", fint.qname,
                   f"n_integration_cores={n}: pools created with sizes {pools}", where=fint.where, instance=f"cores={n}", how="PE")
    # API rule
    api_calls = []
    for c in src.calls_in(fint):
        if isinstance(c.func, ast.Attribute) and (c.func.attr in ORDERED_POOL_API | UNORDERED_API):
            api_calls.append(c.func.attr)
    for cls in (src.cls(OPC), *E.subclasses(src, src.cls(OPC))):
        for m in cls.methods.values():
            for c in src.calls_in(m):
                if isinstance(c.func, ast.Attribute) and c.func.attr in UNORDERED_API:
                    chk.fail("order-preserving-pool-api", m.qname, f"results are gathered through `{c.func.attr}`, which does not preserve the order "
                             f"of the grid points", where=f"{m.module.relpath}:{c.lineno}", instance=c.func.attr)
    chk.decide(bool(api_calls) and all(a in ORDERED_POOL_API for a in api_calls), "order-preserving-pool-api", fint.qname,
               f"pool calls {api_calls}: the parallel branch must use an order-preserving API (map/starmap/imap)", where=fint.where)
    # ---- (2) worker purity ----------------------------------------------------------------------------------------------------
    roots = [f"{OPC}.run_op_integration"]
    R = E.reach(src, roots)
    chk.floor("functions reachable from the worker", len(R), 300)
    need = {"eko.evolution_operator.quad_ker.quad_ker_ad", "eko.evolution_operator.quad_ker.quad_ker_ome", "eko.kernels.singlet.dispatcher",
            "eko.evolution_operator.operator_matrix_element.OperatorMatrixElement.quad_ker"}
    chk.need(need <= R, f"worker reachability lost anchors: {sorted(need - R)}")
    n_pure = 0
    ctor_ok = lambda f: f.node.name in ("__init__", "__post_init__")
    for q in sorted(R):
        f = src.funcs[q]
        gw = E.global_writes(src, f)
        for tgt, text, ln in gw:
            chk.fail("worker-writes-no-shared-state", q, f"reachable from the integration worker and writes module state {tgt}: `{text}`",
                     where=f"{f.module.relpath}:{ln}", instance=tgt)
        sw = [] if ctor_ok(f) else E.self_writes(f)
        # memoisation idiom: `self.X[key] = value.copy()` in a function that also answers `return self.X[key].copy()` for the same key:
        # the stored value is a function of the key (completeness of the key and copy-on-read/write are decided under C17), so the
        # cache content cannot change a result whatever the schedule
        sw = [(attr, text, ln) for attr, text, ln in sw if not _memo_store(f, attr, ln)]
        for attr, text, ln in sw:
            chk.fail("worker-writes-no-shared-state", q, f"reachable from the integration worker and writes object state self.{attr}: `{text}` - "
                     f"state kept in a worker process differs from the sequential run", where=f"{f.module.relpath}:{ln}", instance=f"self.{attr}")
        if not gw and not sw:
            n_pure += 1
    if n_pure == len(R):
        chk.ok("worker-writes-no-shared-state", roots[0], f"{len(R)} reachable functions write neither module nor object state", how="effect analysis")
    pm = E.param_mutations(src, [src.funcs[q] for q in R])
    for entry in ("eko.evolution_operator.quad_ker.quad_ker_ad", "eko.evolution_operator.quad_ker.quad_ker_ome",
                  "eko.evolution_operator.quad_ker.quad_ker_qcd", "eko.evolution_operator.quad_ker.quad_ker_qed"):
        f = src.func(entry)
        mut = sorted(p for k, p in pm.get(entry, ()) if p != "ker_base")
        chk.decide(not mut, "worker-mutates-no-shared-argument", entry,
                   f"the integrand mutates its argument(s) {mut} in place: these arrays are shared by all integrand calls of a worker, so the "
                   f"value depends on the points handled before", where=f.where, how="argument-mutation summaries (fixpoint over the call graph)")
    # ---- (3) the core count is read only to size the pool ---------------------------------------------------------------------------
    readers = []
    compute = E.reach(src, ["eko.runner.parts.evolve", "eko.runner.parts.match"]) | R
    chk.floor("functions of the part computation", len(compute), 350)
    for q in sorted(compute):
        f = src.funcs[q]
        par = {id(ch): p for p in ast.walk(f.node) for ch in ast.iter_child_nodes(p)}
        for n in E.own_nodes(f.node):
            if isinstance(n, ast.Constant) and n.value == "n_integration_cores" or isinstance(n, ast.Attribute) and n.attr == "n_integration_cores":
                p = par.get(id(n))
                if isinstance(p, ast.keyword) or (isinstance(p, ast.Dict) and n in p.values):
                    continue  # handed on unchanged inside a configuration mapping
                readers.append(q)
            if isinstance(n, ast.Attribute) and n.attr == "n_pools" and isinstance(n.ctx, ast.Load):
                readers.append(q)
    allowed = {f"{OPC}.n_pools", f"{OPC}.integrate"}
    extra = sorted(set(readers) - allowed)
    chk.decide(not extra and f"{OPC}.n_pools" in readers, "core-count-only-sizes-the-pool", "n_integration_cores",
               f"the core count is read in {extra}: it may only be passed through configuration, resolved in Operator.n_pools and used in "
               f"Operator.integrate", where=src.func(f"{OPC}.n_pools").where, instance="readers")
    # in integrate: only `== 1` test and Pool(...)
    uses = [n for n in E.own_nodes(fint.node) if isinstance(n, ast.Attribute) and n.attr == "n_pools"]
    parents = {id(ch): p for p in ast.walk(fint.node) for ch in ast.iter_child_nodes(p)}
    ok = True
    for u in uses:
        p = parents.get(id(u))
        ok = ok and (isinstance(p, ast.Compare) or (isinstance(p, ast.Call) and ast.unparse(p.func).endswith("Pool")))
    chk.decide(ok and len(uses) >= 2, "core-count-only-sizes-the-pool", fint.qname, "n_pools is used for something else than the branch test and "
               "the pool size", where=fint.where, instance="uses")
    # ---- (4) recipe identity ---------------------------------------------------------------------------------------------------
    hdr = src.cls("eko.io.items.Header")
    n_fields = 0
    for c in [hdr] + E.subclasses(src, hdr):
        decs = [ast.unparse(d) for d in c.node.decorator_list]
        frozen = any("dataclass" in d and "frozen=True" in d for d in decs)
        bad_dec = [d for d in decs if "eq=False" in d or "unsafe_hash" in d]
        chk.decide(frozen and not bad_dec, "recipe-identity-covers-every-field", c.qname, f"header class decorated {decs}: must be a frozen "
                   f"dataclass with generated eq/hash", where=c.where, instance="decorator")
        for nm in ("__eq__", "__hash__", "__lt__"):
            chk.decide(nm not in c.methods, "recipe-identity-covers-every-field", c.qname, f"header class defines its own {nm}", where=c.where,
                       instance=nm)
        for name, (ann, default) in c.fields().items():
            n_fields += 1
            txt = ast.unparse(default) if default is not None else ""
            excluded = isinstance(default, ast.Call) and any(k.arg in ("compare", "hash") and isinstance(k.value, ast.Constant) and k.value.value is False
                                                             for k in default.keywords)
            chk.decide(not excluded and not ann.startswith("ClassVar"), "recipe-identity-covers-every-field", f"{c.qname}.{name}",
                       f"field `{name}: {ann} = {txt}` is excluded from equality/hash: two recipes that differ in it collapse into one part, "
                       f"computed with the flag of whichever target comes first", where=c.where, instance=name)
    chk.floor("header fields", n_fields, 9)
    # the part computation reads only those fields of the recipe, and nothing target-list dependent of the cards
    for root, kind in (("eko.runner.parts.evolve", "Evolution"), ("eko.runner.parts.match", "Matching")):
        f = src.func(root)
        fields = set(src.cls(f"eko.io.items.{kind}").fields()) | {"as_atlas"}
        used = {n.attr for n in E.own_nodes(f.node) if isinstance(n, ast.Attribute) and isinstance(n.value, ast.Name) and n.value.id == "recipe"}
        chk.decide(used <= fields and used, "part-depends-on-recipe-fields-only", root, f"reads recipe attributes {sorted(used - fields)} that "
                   f"are not identity fields", where=f.where)
    RP = E.reach(src, ["eko.runner.parts.evolve", "eko.runner.parts.match", "eko.runner.recipes._elements", "eko.runner.commons.atlas"])
    RP = {q for q in RP if q.startswith("eko.runner.") or q.startswith("eko.evolution_operator.") and not q.startswith("eko.evolution_operator.quad_ker")}
    chk.floor("runner-side functions of the part computation", len(RP), 15)
    bad = []
    for q in sorted(RP):
        f = src.funcs[q]
        for n in E.own_nodes(f.node):
            if isinstance(n, ast.Attribute) and n.attr in TARGET_LIST_ATTRS | {"operators", "parts", "parts_matching", "recipes"} \
                    and q.startswith("eko.runner.parts"):
                bad.append((q, n.attr, n.lineno))
            elif isinstance(n, ast.Attribute) and n.attr in TARGET_LIST_ATTRS:
                bad.append((q, n.attr, n.lineno))
    chk.decide(not bad, "part-independent-of-target-list", "eko.runner.parts", f"the part computation reads {bad}: the value of a part then depends "
               f"on which other targets are requested", where=src.func("eko.runner.parts.evolve").where, how="who-may-read over the call graph")
    # ---- (5) no loop-carried state in the runner --------------------------------------------------------------------------------------
    fs = src.func("eko.runner.managed.solve")
    n_loops = 0
    n_op_stores = [0]
    STORES = ("operators", "parts", "parts_matching")

    def loads_then_stores(node, assigned, tnames, body_assigned, carried):
        """definite-assignment walk in statement order: a name assigned somewhere in the loop body and read on a path where this
        iteration has not assigned it yet carries a value from the previous iteration"""
        def expr(e, assigned):
            for x in ast.walk(e):
                if isinstance(x, ast.Name) and isinstance(x.ctx, ast.Load) and x.id in body_assigned and x.id not in assigned and x.id not in tnames:
                    carried.append(x.id)

        def stores(e, assigned):
            for x in ast.walk(e):
                if isinstance(x, ast.Name) and isinstance(x.ctx, (ast.Store, ast.Del)):
                    assigned.add(x.id)

        def block(stmts, assigned):
            for st in stmts:
                assigned = stmt(st, assigned)
            return assigned

        def stmt(st, assigned):
            if isinstance(st, ast.If):
                expr(st.test, assigned)
                a1 = block(st.body, set(assigned))
                a2 = block(st.orelse, set(assigned))
                return a1 & a2
            if isinstance(st, (ast.With, ast.AsyncWith)):
                for it in st.items:
                    expr(it.context_expr, assigned)
                    if it.optional_vars is not None:
                        stores(it.optional_vars, assigned)
                return block(st.body, assigned)
            if isinstance(st, (ast.For, ast.AsyncFor)):
                expr(st.iter, assigned)
                inner = set(assigned)
                stores(st.target, inner)
                block(st.body, inner)
                block(st.orelse, set(assigned))
                return assigned
            if isinstance(st, ast.While):
                expr(st.test, assigned)
                block(st.body, set(assigned))
                return assigned
            if isinstance(st, ast.Try):
                a1 = block(st.body, set(assigned))
                for h in st.handlers:
                    block(h.body, set(assigned))
                a1 = block(st.orelse, a1)
                return block(st.finalbody, a1 & assigned | assigned)
            if isinstance(st, ast.AugAssign):
                carried.append(ast.unparse(st.target))
                expr(st.value, assigned)
                return assigned
            # simple statement: loads are evaluated before the stores of the same statement take effect
            for x in ast.walk(st):
                if isinstance(x, ast.Name) and isinstance(x.ctx, ast.Load) and x.id in body_assigned and x.id not in assigned and x.id not in tnames:
                    carried.append(x.id)
            stores(st, assigned)
            return assigned

        block(node.body, assigned)

    for lp in [n for n in ast.walk(fs.node) if isinstance(n, ast.For)]:
        n_loops += 1
        carried = []
        tnames = {x.id for x in ast.walk(lp.target) if isinstance(x, ast.Name)}
        body_assigned = {x.id for st in lp.body for x in ast.walk(st) if isinstance(x, ast.Name) and isinstance(x.ctx, ast.Store)}
        loads_then_stores(lp, set(), tnames, body_assigned, carried)
        chk.decide(not carried, "no-state-carried-between-targets", fs.qname, f"loop `for {ast.unparse(lp.target)} in {ast.unparse(lp.iter)}` carries "
                   f"{sorted(set(carried))} from one iteration to the next", where=f"{fs.module.relpath}:{lp.lineno}",
                   instance=ast.unparse(lp.iter), how="def-use on the loop body")
        # what is stored as the operator of a target derives from the parts only - never from the operators already in the store
        # (those belong to the other targets of the run)
        defs = {}
        for x in ast.walk(lp):
            if isinstance(x, ast.Assign):
                for t in x.targets:
                    for nm in ast.walk(t):
                        if isinstance(nm, ast.Name):
                            defs.setdefault(nm.id, []).append(x.value)
            elif isinstance(x, (ast.With, ast.AsyncWith)):
                for it in x.items:
                    if it.optional_vars is not None:
                        for nm in ast.walk(it.optional_vars):
                            if isinstance(nm, ast.Name):
                                defs.setdefault(nm.id, []).append(it.context_expr)
            elif isinstance(x, ast.NamedExpr):
                defs.setdefault(x.target.id, []).append(x.value)

        def store_reads(e):
            out = []
            for x in ast.walk(e):
                if isinstance(x, ast.Call) and isinstance(x.func, ast.Attribute) and x.func.attr in ("approx", "operator", "items", "__getitem__", "get"):
                    out.append(ast.unparse(x))
                elif isinstance(x, ast.Subscript) and isinstance(x.ctx, ast.Load) and (
                        (isinstance(x.value, ast.Attribute) and x.value.attr in STORES) or (isinstance(x.value, ast.Name) and x.value.id == "eko")):
                    out.append(ast.unparse(x))
            return out

        for x in ast.walk(lp):
            if isinstance(x, ast.Assign) and any(isinstance(t, ast.Subscript) and isinstance(t.value, ast.Attribute) and t.value.attr in STORES
                                                 for t in x.targets):
                n_op_stores[0] += 1
                seen, todo, reads = set(), [x.value], []
                while todo:
                    e = todo.pop()
                    reads += store_reads(e)
                    for nm in ast.walk(e):
                        if isinstance(nm, ast.Name) and isinstance(nm.ctx, ast.Load) and nm.id in defs and nm.id not in seen:
                            seen.add(nm.id)
                            todo += defs[nm.id]
                chk.decide(not reads, "stored-operator-derives-from-the-parts-only", fs.qname,
                           f"`{stmt_text(x)}`: what is stored (a part, or the operator of a target) is built from {sorted(set(reads))}, i.e. from "
                           f"what is already in the store - things computed for the other segments / targets of the run: the result then depends "
                           f"on which targets are computed together and in which order (a part is computed from its own recipe, an operator from its own parts)", where=f"{fs.module.relpath}:{x.lineno}", instance=stmt_text(x),
                           how="def-use closure of the stored value in the target loop")
    chk.floor("stores into the inventories in the loops of solve", n_op_stores[0], 3)
    chk.floor("runner loops", n_loops, 3)
    fel = src.func("eko.runner.recipes._elements")
    free = {n.id for n in E.own_nodes(fel.node) if isinstance(n, ast.Name) and isinstance(n.ctx, ast.Load)} - E.local_names(fel)
    mod_state = {x for x in free if x in fel.module.consts}
    chk.decide(not mod_state and fel.params == ["ep", "atlas"], "recipes-depend-on-target-and-atlas-only", fel.qname,
               f"_elements reads module state {sorted(mod_state)} / takes {fel.params}", where=fel.where)
    chk.note(reachable=len(R), header_fields=n_fields, files=["src/eko/evolution_operator/__init__.py", "src/eko/runner/", "src/eko/io/items.py"])
    chk.explanation = "Collector decided by PE with a symbolic worker; purity by effect analysis over the worker's call graph; identity and dataflow rules."
