"""C38 - failed or interrupted runs never leave a corrupt or partial archive (typestate / ordering rules)."""
from __future__ import annotations

import ast

from ..src import load, stmt_text

LEVEL = "other"
META = {
    "text": "Decides the ordering/typestate obligations that make the archive path crash-safe, on every path of the code: "
            "(1) in EKO.__exit__ and Builder.__exit__ no path reaches close()/dump() unless the exception type is None (path-"
            "condition analysis: the guard must be a pure None test, so KeyboardInterrupt/SystemExit are covered); (2) the "
            "permanent path is published atomically: the function that materialises the archive writes a temporary sibling and "
            "moves it over the target with os.replace/Path.replace/rename (shutil.move only from a sibling of the target: across file systems it copies) - after the writer has been closed, i.e. outside every "
            "`with` block that opens a file for writing - (accepted alternatives: move-aside-and-restore, or, for "
            "a new archive, in-place writing under a handler that removes the partial file and re-raises); (3) the permanent "
            "path is never unlinked/truncated ahead of a completed dump; (4) who-may-write: no other function in eko/, ekobox/ "
            "opens, removes or replaces `access.path`; (5) close() is a typestate transition: every file-system effect in it is "
            "dominated by an open-state guard, so a second close() cannot touch the archive; (6) Builder refuses an existing "
            "target before anything is written.",
    "note": "Necessary and (together with the OS guarantee that rename is atomic) sufficient structural conditions; OS-level "
            "durability (fsync) is not decided. Nothing is executed.",
    "technique": "typestate / must-pass-through / who-may-write rules on the AST (path conditions, alias of the permanent path)",
    "engine": "sa",
}

ST = "eko.io.struct"
WRITE_MODES = ("w", "wb", "w:", "x", "a", "w|")


def _calls(node):
    for n in ast.walk(node):
        if isinstance(n, ast.Call):
            yield n


def _callee(c):
    return ast.unparse(c.func)


def _implies_none(test, exc, branch):
    """does taking `branch` (True/False) of `test` imply `exc is None`?"""
    if isinstance(test, ast.Compare) and len(test.ops) == 1 and isinstance(test.left, ast.Name) and test.left.id == exc \
            and isinstance(test.comparators[0], ast.Constant) and test.comparators[0].value is None:
        if isinstance(test.ops[0], ast.IsNot) or isinstance(test.ops[0], ast.NotEq):
            return branch is False
        if isinstance(test.ops[0], ast.Is) or isinstance(test.ops[0], ast.Eq):
            return branch is True
    if isinstance(test, ast.Name) and test.id == exc:
        return branch is False
    if isinstance(test, ast.UnaryOp) and isinstance(test.op, ast.Not):
        return _implies_none(test.operand, exc, not branch)
    if isinstance(test, ast.BoolOp):
        if isinstance(test.op, ast.And) and branch is True:
            return any(_implies_none(v, exc, True) for v in test.values)
        if isinstance(test.op, ast.Or) and branch is False:
            return any(_implies_none(v, exc, False) for v in test.values)
    return False


def _terminates(stmts):
    return bool(stmts) and isinstance(stmts[-1], (ast.Return, ast.Raise))


def _exit_guard(fn, sinks):
    """-> list of offending call statements reachable while exc may be non-None"""
    exc = fn.args.args[1].arg if len(fn.args.args) > 1 else None
    bad = []

    def walk(stmts, known):
        for st in stmts:
            if isinstance(st, ast.If):
                kt = known or _implies_none(st.test, exc, True)
                kf = known or _implies_none(st.test, exc, False)
                walk(st.body, kt)
                walk(st.orelse, kf)
                tb, fb = _terminates(st.body), _terminates(st.orelse) if st.orelse else False
                if tb and not fb:
                    known = kf
                elif fb and not tb:
                    known = kt
                elif not tb and not fb:
                    known = kt and kf
                continue
            if isinstance(st, (ast.With, ast.For, ast.While, ast.Try)):
                for blk in ("body", "orelse", "finalbody"):
                    walk(getattr(st, blk, []) or [], known)
                for h in getattr(st, "handlers", []):
                    walk(h.body, known)
                continue
            for c in _calls(st):
                name = _callee(c).split(".")[-1]
                if name in sinks and not known:
                    bad.append(st)
        return known

    walk(fn.body, False)
    return bad


def _perm_aliases(fn):
    """local names that may hold the permanent path: assigned from *.access.path, or parameters named like an archive"""
    al = set()
    for n in ast.walk(fn):
        if isinstance(n, ast.Assign) and isinstance(n.value, ast.Attribute) and ast.unparse(n.value).endswith("access.path"):
            for t in n.targets:
                if isinstance(t, ast.Name):
                    al.add(t.id)
    # aliases of aliases: x = Path(archive) / x = archive
    changed = True
    while changed:
        changed = False
        for n in ast.walk(fn):
            if isinstance(n, ast.Assign) and len(n.targets) == 1 and isinstance(n.targets[0], ast.Name):
                v = n.value
                if isinstance(v, ast.Call) and _callee(v) in ("Path", "pathlib.Path", "os.fspath", "str") and v.args:
                    v = v.args[0]
                if isinstance(v, ast.Name) and v.id in al and n.targets[0].id not in al:
                    al.add(n.targets[0].id)
                    changed = True
    return al


def _is_perm(expr, aliases):
    s = ast.unparse(expr)
    return s.endswith("access.path") or (isinstance(expr, ast.Name) and expr.id in aliases)


def _is_sibling(expr, fn, aliases):
    """is `expr` a path in the directory of the permanent path (perm.with_name(..), perm.with_suffix(..), perm.parent / ..)?"""
    def derived(e):
        if isinstance(e, ast.Call) and isinstance(e.func, ast.Attribute) and e.func.attr in ("with_name", "with_suffix", "with_stem") \
                and _is_perm(e.func.value, aliases):
            return True
        if isinstance(e, ast.BinOp) and isinstance(e.op, ast.Div) and isinstance(e.left, ast.Attribute) and e.left.attr == "parent" \
                and _is_perm(e.left.value, aliases) and not any(isinstance(x, ast.Constant) and isinstance(x.value, str) and ("/" in x.value or ".." in x.value)
                                                               for x in ast.walk(e.right)):
            return True
        if isinstance(e, ast.Call) and _callee(e) in ("Path", "pathlib.Path") and e.args:
            return derived(e.args[0])
        return False

    if derived(expr):
        return True
    if isinstance(expr, ast.Name):
        defs = [n.value for n in ast.walk(fn) if isinstance(n, ast.Assign) and any(isinstance(t, ast.Name) and t.id == expr.id for t in n.targets)]
        return bool(defs) and all(derived(d) for d in defs)
    return False


def _write_sites(fn, aliases):
    """(call, target expr, kind) for operations that create/truncate/remove/replace a file"""
    out = []
    for c in _calls(fn):
        name = _callee(c)
        last = name.split(".")[-1]
        if name in ("tarfile.open", "open", "io.open") or last == "open":
            mode = None
            if len(c.args) > 1 and isinstance(c.args[1], ast.Constant):
                mode = c.args[1].value
            for kw in c.keywords:
                if kw.arg == "mode" and isinstance(kw.value, ast.Constant):
                    mode = kw.value.value
            if isinstance(mode, str) and mode.startswith(("w", "x", "a")) and c.args:
                tgt = c.args[0] if name != "open" or True else c.args[0]
                if isinstance(c.func, ast.Attribute) and last == "open" and name not in ("tarfile.open", "io.open"):
                    tgt = c.func.value  # path.open("w")
                out.append((c, tgt, "write"))
        elif last in ("write_text", "write_bytes", "touch") and isinstance(c.func, ast.Attribute):
            out.append((c, c.func.value, "write"))
        elif last in ("unlink", "rmdir") and isinstance(c.func, ast.Attribute):
            out.append((c, c.func.value, "unlink"))
        elif name in ("os.remove", "os.unlink", "shutil.rmtree") and c.args:
            out.append((c, c.args[0], "unlink"))
        elif name in ("os.replace", "os.rename", "shutil.move") and len(c.args) == 2:
            out.append((c, c.args[1], "replace"))
        elif last in ("replace", "rename") and isinstance(c.func, ast.Attribute) and len(c.args) == 1 \
                and not isinstance(c.func.value, ast.Constant) and "str" not in ast.unparse(c.func.value):
            out.append((c, c.args[0], "replace"))
        elif name in ("shutil.copy", "shutil.copyfile", "shutil.copy2", "shutil.copytree") and len(c.args) >= 2:
            out.append((c, c.args[1], "write"))
    return out


def _enclosing_handler(fn, node):
    """is `node` inside an except handler of fn?"""
    for n in ast.walk(fn):
        if isinstance(n, ast.ExceptHandler):
            for m in ast.walk(n):
                if m is node:
                    return n
    return None


def _protected_inplace(fn, call, aliases):
    """idioms (b)/(c): the in-place write sits in a try whose catch-all handler removes/restores the target and re-raises"""
    for t in ast.walk(fn):
        if isinstance(t, ast.Try) and any(m is call for b in t.body for m in ast.walk(b)):
            for h in t.handlers:
                catch_all = h.type is None or ast.unparse(h.type) in ("BaseException", "Exception")
                reraises = any(isinstance(x, ast.Raise) for x in ast.walk(h))
                cleans = any(k in ("unlink", "replace") and _is_perm(tg, aliases) for _, tg, k in _write_sites(h, aliases))
                if catch_all and reraises and cleans and (h.type is None or ast.unparse(h.type) == "BaseException"):
                    return True
    return False


def run(chk):
    src = load()
    chk.rule_text = "exit guard is a pure None test; archive published by rename; no unlink before dump; close guarded by open state"
    eko = src.cls(f"{ST}.EKO")
    bld = src.cls(f"{ST}.Builder")
    for need in ("__exit__", "close", "dump"):
        chk.need(need in eko.methods, f"EKO.{need} vanished")
    chk.need("__exit__" in bld.methods and "__post_init__" in bld.methods, "Builder.__exit__/__post_init__ vanished")

    # ---- (1) exit guards ------------------------------------------------------------------------
    for f in (eko.methods["__exit__"], bld.methods["__exit__"]):
        bad = _exit_guard(f.node, {"close", "dump"})
        n_sinks = sum(1 for c in _calls(f.node) if _callee(c).split(".")[-1] in ("close", "dump"))
        chk.need(n_sinks >= 1, f"{f.qname} no longer calls close()/dump(): anchor changed")
        chk.decide(not bad, "no-publish-on-exception", f.qname,
                   f"`{stmt_text(bad[0]) if bad else ''}` is reachable while an exception is propagating: the guard is not a pure "
                   f"`exc_type is None` test (e.g. KeyboardInterrupt/SystemExit inside the context would dump a half-finished "
                   f"archive over the target)", where=f"{f.module.relpath}:{bad[0].lineno if bad else f.lineno}",
                   instance=stmt_text(bad[0]) if bad else "", detail=f"{n_sinks} close/dump call(s) only under exc_type is None")

    # ---- (2)+(3) atomic publish in dump/close ------------------------------------------------------
    fdump, fclose = eko.methods["dump"], eko.methods["close"]
    n_sites = 0
    for f in (fdump, fclose):
        al = _perm_aliases(f.node)
        if f is fdump:
            al |= {p for p in f.params if p != "self"}  # callers pass the permanent path explicitly
            al = set(al) | _perm_aliases(f.node)
            # re-close aliases over parameters
            for n in ast.walk(f.node):
                if isinstance(n, ast.Assign) and len(n.targets) == 1 and isinstance(n.targets[0], ast.Name):
                    v = n.value
                    if isinstance(v, ast.Call) and _callee(v) in ("Path", "pathlib.Path") and v.args:
                        v = v.args[0]
                    if isinstance(v, ast.Name) and v.id in al:
                        al.add(n.targets[0].id)
        sites = _write_sites(f.node, al)
        replaces = [(c, t) for c, t, k in sites if k == "replace" and _is_perm(t, al)]
        for c, tgt, kind in sites:
            if not _is_perm(tgt, al):
                continue
            n_sites += 1
            where = f"{f.module.relpath}:{c.lineno}"
            if kind == "write":
                ok = _protected_inplace(f.node, c, al)
                chk.decide(ok, "atomic-publish", f.qname,
                           f"`{ast.unparse(c)[:80]}` writes the permanent archive path in place: a failure while the tar is being "
                           f"written leaves a partial archive (new EKO) or destroys the previous content (edited EKO); write a "
                           f"temporary sibling and os.replace() it", where=where, instance="in-place write of the permanent path")
            elif kind == "unlink":
                in_handler = _enclosing_handler(f.node, c) is not None
                chk.decide(in_handler, "no-unlink-before-dump", f.qname,
                           f"`{ast.unparse(c)[:80]}` removes the permanent archive before the new one is complete: if the dump "
                           f"then fails (or close() is called twice) the previous content is lost", where=where,
                           instance="unlink of the permanent path")
            elif kind == "replace":
                # the rename publishes the file: the writer must have been closed (its `with` block left) before, otherwise the
                # end-of-archive blocks / buffered data are still to be written and a failure there leaves an unfinished archive
                # under the permanent name (and nothing to clean up)
                open_writers = [w for w in ast.walk(f.node) if isinstance(w, ast.With)
                                and any(m is c for st_ in w.body for m in ast.walk(st_))
                                and any(k2 == "write" for it in w.items for _c2, _t2, k2 in _write_sites(it.context_expr, al))]
                if _callee(c) == "shutil.move":
                    # shutil.move is a rename only inside one file system; otherwise it COPIES onto the target path and removes the
                    # source, so a failure during the copy leaves a partial file under the permanent name.  Accepted only when the
                    # source is a sibling of the permanent path (same directory, hence same file system)
                    chk.decide(_is_sibling(c.args[0], f.node, al), "atomic-publish", f.qname,
                               f"`{ast.unparse(c)[:80]}` publishes the archive with shutil.move from a file that is not a sibling of the "
                               f"permanent path: across file systems this is a copy onto the target (not atomic) - a failure or an "
                               f"interrupt during the copy leaves a partial archive, or destroys the previous one", where=where,
                               instance="publish by copy across file systems")
                chk.decide(not open_writers, "atomic-publish", f.qname,
                           f"`{ast.unparse(c)[:80]}` renames the temporary file onto the permanent path while the writer opened by "
                           f"`{ast.unparse(open_writers[0].items[0].context_expr)[:60] if open_writers else ''}` is still open: the archive is "
                           f"published before it is complete", where=where, instance="rename before close",
                           detail="rename onto the permanent path after the writer's with-block")
        if f is fdump:
            tar_writes = [c for c, t, k in sites if k == "write" and "tarfile" in _callee(c)]
            chk.need(tar_writes, "EKO.dump no longer writes a tar archive: anchor changed")
            if all(not _is_perm(c.args[0], al) for c in tar_writes):
                # temp-file idiom: a rename onto the permanent path must follow
                chk.decide(bool(replaces), "atomic-publish", f.qname,
                           "dump() writes a temporary file but never renames it onto the permanent path", where=f.where,
                           instance="temporary never published")
    chk.floor("operations on the permanent path in dump/close", n_sites, 1)

    # ---- (4) who may write the permanent path -------------------------------------------------------
    n_scanned = 0
    for q, f in src.funcs.items():
        if f.qname in (fdump.qname,) or f.parent is not None:
            continue
        n_scanned += 1
        al = _perm_aliases(f.node)
        for c, tgt, kind in _write_sites(f.node, al):
            if _is_perm(tgt, al) and f.qname != fclose.qname:
                chk.fail("who-may-write-the-archive", f.qname,
                         f"`{ast.unparse(c)[:80]}` {kind}s the permanent archive path outside EKO.dump", where=f"{f.module.relpath}:{c.lineno}",
                         instance=stmt_text(c)[:80])
    chk.ok("who-may-write-the-archive", "eko, ekore, ekobox", f"{n_scanned} functions scanned; only EKO.dump materialises access.path")

    # ---- (5) close(): effects dominated by an open-state guard -----------------------------------------
    guard_seen = False
    offending = None
    for st in fclose.node.body:
        if isinstance(st, ast.Expr) and isinstance(st.value, ast.Constant):
            continue
        txt = stmt_text(st)
        if isinstance(st, ast.If) and "access.open" in ast.unparse(st.test) and _terminates(st.body):
            guard_seen = True
            continue
        if isinstance(st, ast.Expr) and isinstance(st.value, ast.Call) and _callee(st.value).split(".")[-1] in (
                "assert_open", "assert_writeable", "assert_permissions"):
            guard_seen = True
            continue
        has_effect = any(_callee(c).split(".")[-1] in ("dump", "unlink", "rmtree", "replace", "remove") for c in _calls(st))
        if has_effect and not guard_seen:
            offending = st
            break
    chk.decide(offending is None, "close-is-guarded-by-open-state", fclose.qname,
               f"`{stmt_text(offending)[:90] if offending is not None else ''}` runs without a preceding check that the EKO is still "
               f"open: a second close() (e.g. an explicit close() inside `with EKO.edit(...)`) touches the archive again",
               where=f"{fclose.module.relpath}:{offending.lineno if offending is not None else fclose.lineno}",
               instance="effects before open-state guard", detail="first statement guards on access.open")

    # ---- (6) Builder refuses existing targets -----------------------------------------------------------
    fp = bld.methods["__post_init__"]
    ok = any(isinstance(st, ast.If) and "exists()" in ast.unparse(st.test) and "access.path" in ast.unparse(st.test)
             and any(isinstance(x, ast.Raise) for x in st.body) for st in ast.walk(fp.node))
    chk.decide(ok, "builder-refuses-existing-target", fp.qname, "Builder.__post_init__ no longer raises when the target archive exists",
               where=fp.where, detail="if access.path.exists(): raise")
    chk.note(functions_scanned=n_scanned, files=["src/eko/io/struct.py"], accepted_idioms=[
        "temporary sibling + os.replace/Path.replace/rename", "move aside + restore in re-raising handler",
        "in-place write under a bare/BaseException handler that unlinks the partial file and re-raises"])
    chk.explanation = ("Ordering and typestate rules on EKO.__exit__/Builder.__exit__/dump/close and a who-may-write scan of all "
                       f"{n_scanned} functions: the archive path changes only by an atomic rename of a completed temporary file, "
                       "never while an exception propagates, and never after the EKO has been closed.")
