"""C40 - runcards and dict-like structures round-trip through their raw form; declared interpolation settings are used."""
from __future__ import annotations

import ast
import itertools
from fractions import Fraction

from .. import dag, effects as E
from ..core import AnalysisError
from ..pe import PE, Obj, PERaise
from ..src import load, stmt_text

LEVEL = "other"
META = {
    "text": "The repository's own serialiser and loader are partially evaluated on run-time types (sa/typemodel.py: host types and "
            "typing constructs, repository classes, annotations evaluated the way dataclasses presents them). (1) NORMALISER: "
            "raw_field is evaluated on a representative of every value kind - ndarray, NumPy float64 and integer scalars, built-in "
            "scalars, None, an XGrid, an enum member, a card section, and tuples / lists / dicts / plain dataclasses nested up to "
            "depth two (thorough: three) over all of them; the result must consist of built-in numbers, strings, booleans, None, "
            "lists and dicts only (what a safe YAML dumper accepts). (2) READER: load_field(T, raw_field(v)) == v for every kind "
            "the cards declare - scalars, Optional of each with None AND with the falsy value of the type (0, 0.0, False, '', []), "
            "List, Tuple alias, NDArray, NewType, Union, enum by value and by name (unknown names refused), Optional[enum]; a real "
            "section of the operator card (Configs) goes from_dict -> raw unchanged for variants that differ in falsy and optional "
            "fields and with a defaulted field omitted; every annotation used by the cards and the metadata is of a kind the loader "
            "handles; two serialisations of one value share no list / dict with each other nor with the value (rule raw-forms-are-fresh-data). (3) XGRID: XGrid.load(x.dump()) returns grid and flag for logarithmic and linear grids; the raw form used by "
            "the cards is followed through load_field: the grid survives, the logarithmic flag does not (known finding). (4) "
            "DECLARED = USED: commons.interpolator is partially evaluated with a symbolic card: the dispatcher is built from the "
            "card's grid, interpolation_is_log and polynomial degree; every field of the cards is read somewhere in the runner's "
            "call-graph closure (a declared setting nobody reads cannot be the one used)."
            " parts._managers evaluated for several cards in ONE evaluator: the interpolator carries the grid, flag and degree of the card of that call.",
    "note": "Decided on representatives of each kind and on one real card section; complete theory / operator cards are not "
            "evaluated (list-subclass references and NumPy grid construction are outside the evaluator's model).",
    "technique": "partial evaluation of raw_field / load_field / from_dict on run-time types (host types, typing constructs, repository classes, evaluated annotations) over representatives of every value kind; PE of the interpolator construction; configuration liveness over the call graph",
    "engine": "sa",
}

DL = "eko.io.dictlike"
LEAVES = ["ndarray", "npfloat64", "npother", "float", "int", "str", "bool", "none", "xgrid", "enum", "dictlike"]
PLAIN_LEAF = {"float", "int", "str", "bool", "none"}


def kinds(depth):
    out = list(LEAVES)
    level = list(LEAVES)
    for _ in range(depth):
        level = [(c, k) for c in ("tuple", "list", "dict", "dataclass") for k in level]
        out.extend(level)
    return out


def fmt(k):
    return k if isinstance(k, str) else f"{k[0]}[{fmt(k[1])}]"


def run(chk):
    src = load()
    chk.rule_text = "raw_field(kind) is plain for every kind; reader keeps a branch per declared kind; interpolator built from the card's settings"
    frf = src.func(f"{DL}.raw_field")
    ks = kinds(2 if chk.tier == "quick" else 3)
    bad = {}
    judge = _plainness_by_evaluation(src)
    for k in ks:
        ok, why = judge(k)
        if not ok:
            bad.setdefault(why, []).append(k)
    for why, lst in bad.items():
        lst.sort(key=lambda k: len(fmt(k)))
        chk.fail("normaliser-yields-plain-data", frf.qname, f"raw_field({fmt(lst[0])}) is not plain data: {why} ({len(lst)} kinds, e.g. "
                 f"{[fmt(x) for x in lst[:4]]}); a safe YAML dumper refuses it", where=frf.where, instance=fmt(lst[0]))
    if not bad:
        chk.ok("normaliser-yields-plain-data", frf.qname, f"{len(ks)} value kinds", how="PE of raw_field on a representative of every kind")
    chk.floor("value kinds", len(ks), 200)
    stale = {}
    for k in ks:
        ok, why = judge.fresh(k)
        if not ok:
            stale.setdefault(why, []).append(k)
    for why, lst in stale.items():
        lst.sort(key=lambda k: len(fmt(k)))
        chk.fail("raw-forms-are-fresh-data", frf.qname, f"raw_field({fmt(lst[0])}): {why} ({len(lst)} kinds, e.g. {[fmt(x) for x in lst[:4]]}): after such an "
                 f"edit the raw form no longer loads back to the object", where=frf.where, instance=fmt(lst[0]))
    if not stale:
        chk.ok("raw-forms-are-fresh-data", frf.qname, f"{len(ks)} value kinds serialised twice", how="PE of raw_field, identity of the containers")
    # ---- (2) reader table -----------------------------------------------------------------------------------------------------
    flf = src.func(f"{DL}.load_field")
    flt = src.func(f"{DL}.load_typing")
    _reader_semantic(chk, src)
    fe = src.func(f"{DL}.load_enum")
    # falsy payloads (False, 0, 0.0, [], "") are data: no loader may branch on the truthiness of the value, and in the Union branch
    # nothing may return before the variants have been tried
    for f in (flf, flt, fe, src.func(f"{DL}.DictLike._from_dict")):
        for n in E.own_nodes(f.node):
            tests = []
            if isinstance(n, (ast.If, ast.IfExp, ast.While)):
                tests.append(n.test)
            elif isinstance(n, ast.BoolOp):
                tests.extend(n.values)
            elif isinstance(n, ast.UnaryOp) and isinstance(n.op, ast.Not):
                tests.append(n.operand)
            for t in tests:
                while isinstance(t, ast.UnaryOp) and isinstance(t.op, ast.Not):
                    t = t.operand
                parts = t.values if isinstance(t, ast.BoolOp) else [t]
                for p in parts:
                    while isinstance(p, ast.UnaryOp) and isinstance(p.op, ast.Not):
                        p = p.operand
                    if isinstance(p, ast.Name) and p.id in ("value", "dictionary", "x"):
                        chk.fail("falsy-values-are-data", f.qname, f"`{stmt_text(n)[:80]}` branches on the truthiness of the value being loaded: "
                                 f"False, 0, 0.0 or an empty list would be treated as absent", where=f"{f.module.relpath}:{n.lineno}",
                                 instance=stmt_text(t)[:40])
    # annotation kinds of the cards
    dl = src.cls(f"{DL}.DictLike")
    cards = E.subclasses(src, dl)
    chk.floor("dict-like classes", len(cards), 7)
    n_fields = 0
    handled_heads = {"Optional", "List", "Tuple", "Union", "Dict", "npt.NDArray"}
    for c in cards:
        for name, (ann, default) in c.fields().items():
            n_fields += 1
            node = ast.parse(ann, mode="eval").body
            kind = _ann_kind(src, c.module, node)
            chk.decide(kind is not None, "declared-kinds-are-readable", f"{c.qname}.{name}", f"annotation `{ann}` is of a kind load_field has no "
                       f"branch for", where=c.where, instance=name)
    chk.floor("card fields", n_fields, 35)
    # ---- (3) XGrid ----------------------------------------------------------------------------------------------------------------
    xg = src.cls("eko.interpolation.XGrid")
    # evaluated: XGrid.load(x.dump()) gives back grid and flag; the raw form that the cards use (raw_field) and its reading (load_field)
    # are followed for a logarithmic and for a linear grid
    from .. import fsmodel, typemodel as tm
    from ..arr import Arr
    from ..pe import ClassRef

    pex = PE(src)
    tm.install(pex)
    fsmodel.install(pex, fsmodel.FS())
    pts = [Fraction(1, 10), Fraction(1, 2), Fraction(1)]
    for log in (True, False):
        x0 = pex.instantiate(xg.qname, [list(pts), log])
        try:
            back = pex.apply(pex.getattr(ClassRef(xg), "load"), [pex.apply(pex.getattr(x0, "dump"), [], {})], {})
            okd = list(pex.getattr(back, "raw").flat()) == pts and pex.getattr(back, "log") is log
            msg = f"grid {[str(v) for v in pex.getattr(back, 'raw').flat()]}, log={pex.getattr(back, 'log')}"
        except PERaise as e:
            okd, msg = False, f"raises {e}"
        chk.decide(okd, "xgrid-writer-reader-keys-agree", xg.qname, f"XGrid(log={log}): load(dump()) gives {msg}", where=xg.where, instance=f"log={log}",
                   how="PE")
        try:
            raw = pex.call(frf.qname, [x0])
            back = pex.call(flf.qname, [ClassRef(xg), raw])
            grid_ok = isinstance(back, Obj) and list(pex.getattr(back, "raw").flat()) == pts
            flag = pex.getattr(back, "log") if isinstance(back, Obj) else None
        except PERaise as e:
            grid_ok, flag, raw = False, f"raises {e}", None
        if log:
            chk.decide(grid_ok and flag is True, "xgrid-writer-reader-keys-agree", frf.qname, f"a logarithmic grid has the raw form {raw!r} and is read back "
                       f"with log={flag}", where=frf.where, instance="raw_field")
        else:
            chk.decide(grid_ok and flag is False, "xgrid-flag-survives-raw", frf.qname, f"the raw form of XGrid(..., log=False) is {raw!r}; it is re-loaded with "
                       f"log={flag} (load_field builds XGrid(list) with the default flag)", where=frf.where, instance="XGrid.log")
    # ---- (4) declared = used ----------------------------------------------------------------------------------------------------------
    pe = PE(src)
    captured = {}

    def mk_x(pe_, args, kwargs):
        captured["xgrid_args"] = (args, kwargs)
        o = Obj(xg)
        o.attrs.update(tag="built")
        return o

    def mk_d(pe_, args, kwargs):
        captured["disp"] = (args, kwargs)
        return Obj(src.cls("eko.interpolation.InterpolatorDispatcher"))

    pe.overrides["eko.interpolation.XGrid"] = mk_x
    pe.overrides["eko.interpolation.InterpolatorDispatcher"] = mk_d
    card = Obj(src.cls("eko.io.runcards.OperatorCard"))
    cfg = Obj(src.cls("eko.io.runcards.Configs"))
    cfg.attrs.update(interpolation_polynomial_degree=dag.sym("deg"), interpolation_is_log=dag.sym("islog"))
    gx = Obj(xg)
    gx.attrs.update(raw=dag.sym("rawgrid"), grid=dag.sym("innergrid"), log=dag.sym("objlog"), _raw=dag.sym("rawgrid"))
    card.attrs.update(xgrid=gx, configs=cfg)
    fi = src.func("eko.runner.commons.interpolator")
    try:
        pe.call(fi.qname, [card])
    except PERaise as e:
        chk.fail("declared-interpolation-settings-are-used", fi.qname, f"raises {e}", where=fi.where)
    da, dk = captured.get("disp", ((), {}))
    dk = dict(dk)
    if da:
        dk.setdefault("xgrid", da[0])
        if len(da) > 1:
            dk.setdefault("polynomial_degree", da[1])
    xa = captured.get("xgrid_args")
    ok_deg = dk.get("polynomial_degree") is dag.sym("deg")
    gx_used = dk.get("xgrid")
    if isinstance(gx_used, Obj) and gx_used.attrs.get("tag") == "built" and xa:
        a, k = xa
        flag = k.get("log", a[1] if len(a) > 1 else None)
        grid = a[0] if a else k.get("xgrid")
        ok_grid = grid is dag.sym("rawgrid") and flag is dag.sym("islog")
        why = f"XGrid({grid}, log={flag})"
    else:
        ok_grid = False
        why = "the card's XGrid object is passed on as it is: its flag is the constructor default after loading, not configs.interpolation_is_log"
    chk.decide(ok_deg and ok_grid, "declared-interpolation-settings-are-used", fi.qname,
               f"the dispatcher is built with degree {dk.get('polynomial_degree')} and grid {why}; required: the card's raw grid, "
               f"configs.interpolation_is_log and configs.interpolation_polynomial_degree", where=fi.where, how="PE with symbolic card")
    _managers_follow_the_card(chk, src)
    # liveness
    R = E.reach(src, ["eko.runner.managed.solve", "eko.runner.parts.evolve", "eko.runner.parts.match", "eko.runner.recipes.create"])
    chk.floor("functions in the runner closure", len(R), 400)
    loaded = set()
    for q in R:
        for n in E.own_nodes(src.funcs[q].node):
            if isinstance(n, ast.Attribute) and isinstance(n.ctx, ast.Load):
                loaded.add(n.attr)
    allow = {"eko_version": "bookkeeping only"}
    n_live = 0
    card_classes = ("eko.io.runcards.TheoryCard", "eko.io.runcards.OperatorCard", "eko.io.runcards.Configs", "eko.io.runcards.Debug",
                    "eko.quantities.couplings.CouplingsInfo", "eko.quantities.heavy_quarks.HeavyInfo")
    # fields read through the cards' own properties (operator.evolgrid reads self.mugrid)
    changed = True
    while changed:
        changed = False
        for cname in card_classes:
            for mname, m in src.cls(cname).methods.items():
                if mname in loaded:
                    for n in E.own_nodes(m.node):
                        if isinstance(n, ast.Attribute) and isinstance(n.ctx, ast.Load) and n.attr not in loaded:
                            loaded.add(n.attr)
                            changed = True
    for cname in card_classes:
        c = src.cls(cname)
        for name in c.fields():
            if name in allow:
                continue
            n_live += 1
            chk.decide(name in loaded, "declared-settings-are-read", f"{cname}.{name}", f"no function in the runner's call-graph closure reads "
                       f"`.{name}`: the declared setting cannot influence the computation", where=c.where, instance=name)
    chk.floor("settings checked for liveness", n_live, 30)
    chk.note(kinds=len(ks), card_fields=n_fields, files=["src/eko/io/dictlike.py", "src/eko/io/runcards.py", "src/eko/interpolation.py",
                                                         "src/eko/runner/commons.py"])
    chk.explanation = "Abstract interpretation of raw_field over value kinds; reader branch table; interpolator wiring by PE; liveness."


SCALARS = {"float", "int", "bool", "str"}


def _ann_kind(src, module, node, depth=0):
    """classify an annotation into a kind load_field handles; None if unknown"""
    if depth > 8:
        return None
    if isinstance(node, ast.Constant) and node.value is None:
        return "none"
    if isinstance(node, ast.Subscript):
        head = ast.unparse(node.value).split(".")[-1]
        args = node.slice.elts if isinstance(node.slice, ast.Tuple) else [node.slice]
        if head in ("Optional", "Union", "List", "Tuple", "Sequence"):
            sub = [_ann_kind(src, module, a, depth + 1) for a in args if not (isinstance(a, ast.Constant) and a.value is Ellipsis)]
            return head if all(s is not None for s in sub) else None
        if head in ("Dict", "NDArray"):
            return head
        # user generic: HeavyQuarks[T], ReferenceRunning[T]
        base = _ann_kind(src, module, node.value, depth + 1)
        return "generic" if base in ("listclass",) and all(_ann_kind(src, module, a, depth + 1) for a in args) else None
    d = src.dotted(node)
    if d is None:
        return None
    if d in SCALARS:
        return "scalar"
    if d in ("dict", "typing.Dict", "Dict"):
        return "Dict"
    if d in ("T",):
        return "typevar"
    if d.split(".")[-1] == "NDArray":
        return "NDArray"
    head = d.split(".")[0]
    m = module
    name = d
    if head in m.imports:
        q = src.canonical(m.imports[head] + d[len(head):])
        if q in src.classes:
            return _class_kind(src, src.classes[q])
        mod, _, name = q.rpartition(".")
        if mod not in src.modules:
            # a class of another library (pathlib.Path, ...): loaded through its constructor
            return "external-constructor" if q.split(".")[0] not in ("eko", "ekore", "ekobox") else None
        m = src.modules[mod]
    if name in m.classes:
        return _class_kind(src, m.classes[name])
    if name in m.consts:
        return _ann_kind(src, m, m.consts[name], depth + 1)
    return None


def _class_kind(src, c):
    bases = [ast.unparse(b) for b in c.node.bases]
    if any(b.endswith("Enum") for b in bases):
        return "enum"
    if any(b.split(".")[-1] == "DictLike" for b in bases):
        return "dictlike"
    if "list" in bases:
        return "listclass"
    if c.qname == "eko.interpolation.XGrid":
        return "scalar-constructor"
    if c.is_dataclass:
        return "mapping"
    return None


def _reader_semantic(chk, src):
    """raw_field and load_field / load_typing / load_enum / DictLike.from_dict, partially evaluated on run-time types (sa/typemodel.py:
    host types and typing constructs, repository classes, annotations evaluated as dataclasses does): load(T, raw(v)) == v for every
    kind of value the cards hold - with the falsy representatives of each kind - and a real card section (Configs) goes
    raw -> from_dict -> raw unchanged for variants that differ in falsy fields."""
    import typing

    import numpy.typing as npt

    from .. import dag, typemodel as tm
    from ..arr import Arr
    from ..pe import ClassRef

    pe = PE(src)
    tm.install(pe)
    flf = src.func(f"{DL}.load_field")
    frf = src.func(f"{DL}.raw_field")
    NT = typing.NewType("Scale", float)
    EVc = src.cls("eko.io.types.EvolutionMethod")
    EV = pe.enum_members(EVc)
    F = Fraction
    arr = Arr.from_nested([F(1, 10), F(1, 2), F(1)])
    kinds = [
        ("int", int, 3), ("int zero", int, 0), ("float", float, F(1, 2)), ("float zero", float, F(0)), ("bool true", bool, True), ("bool false", bool, False),
        ("str", str, "a"), ("empty str", str, ""),
        ("Optional[int] None", typing.Optional[int], None), ("Optional[int] 0", typing.Optional[int], 0), ("Optional[int] 5", typing.Optional[int], 5),
        ("Optional[bool] None", typing.Optional[bool], None), ("Optional[bool] False", typing.Optional[bool], False), ("Optional[bool] True", typing.Optional[bool], True),
        ("Optional[float] 0", typing.Optional[float], F(0)), ("Optional[str] empty", typing.Optional[str], ""), ("Optional[str] None", typing.Optional[str], None),
        ("Optional[float] None", typing.Optional[float], None),
        ("List[float]", typing.List[float], [F(1), F(2)]), ("List[float] empty", typing.List[float], []),
        ("Optional[List[int]] empty", typing.Optional[typing.List[int]], []), ("Optional[List[int]] None", typing.Optional[typing.List[int]], None),
        ("Tuple[float, int]", typing.Tuple[float, int], (F(3), 4)), ("NDArray", npt.NDArray, arr), ("NewType(float)", NT, F(5, 2)),
        ("Union[int, str] str", typing.Union[int, str], "a"), ("Union[int, str] int", typing.Union[int, str], 7),
        ("enum member", ClassRef(EVc), EV["ITERATE_EXACT"]), ("Optional[enum] member", typing.Optional[tm.placeholder(ClassRef(EVc))], EV["TRUNCATED"]),
        ("Optional[enum] None", typing.Optional[tm.placeholder(ClassRef(EVc))], None),
    ]
    n = 0

    def same(a, b):
        if a is None or b is None:
            return a is None and b is None
        if isinstance(a, bool) or isinstance(b, bool):
            return isinstance(a, bool) and isinstance(b, bool) and a == b
        if isinstance(a, Arr) or isinstance(b, Arr):
            return isinstance(a, Arr) and isinstance(b, Arr) and a.shape == b.shape and all(same(x, y) for x, y in zip(a.flat(), b.flat()))
        if isinstance(a, (list, tuple)) or isinstance(b, (list, tuple)):
            return type(a) is type(b) and len(a) == len(b) and all(same(x, y) for x, y in zip(a, b))
        if isinstance(a, str) or isinstance(b, str):
            return isinstance(a, str) and isinstance(b, str) and a == b
        try:
            return bool(pe.truth(pe.compare(ast.Eq(), a, b)))
        except Exception:
            return False

    for label, t, v in kinds:
        T = t if isinstance(t, ClassRef) else tm.TV(t)
        try:
            raw = pe.call(frf.qname, [v])
            back = pe.call(flf.qname, [T, raw])
            ok, msg = same(back, v), f"raw form {raw!r}, loaded back as {back!r}"
        except PERaise as e:
            ok, msg = False, f"raises {e}"
        n += 1
        chk.decide(ok, "loading-inverts-the-serialised-form", flf.qname, f"{label}: value {v!r}: {msg}; required: the value itself (False, 0, 0.0, '' and [] "
                   f"are data, not absence)", where=flf.where, instance=label, how="PE of raw_field and load_field on run-time types")
    # name of an enum variant is accepted as well as its value
    for given in ("ITERATE_EXACT", "iterate-exact"):
        try:
            back = pe.call(flf.qname, [ClassRef(EVc), given])
            ok = back is EV["ITERATE_EXACT"] or same(back, EV["ITERATE_EXACT"])
        except PERaise as e:
            ok = False
        n += 1
        chk.decide(ok, "loading-inverts-the-serialised-form", f"{DL}.load_enum", f"enum given as {given!r} is not loaded as the variant ITERATE_EXACT",
                   where=src.func(f"{DL}.load_enum").where, instance=f"enum:{given}")
    try:
        pe.call(flf.qname, [ClassRef(EVc), "no-such-method"])
        okr = False
    except PERaise as e:
        okr = e.etype == "ValueError"
    chk.decide(okr, "loading-inverts-the-serialised-form", f"{DL}.load_enum", "an unknown enum name/value is not refused with ValueError", instance="enum:unknown")
    # a real section of the operator card, through DictLike.raw and DictLike.from_dict
    cfg = src.cls("eko.io.runcards.Configs")
    SV = pe.enum_members(src.cls("eko.io.types.ScaleVariationsMethod"))
    base = {"evolution_method": "iterate-exact", "ev_op_max_order": [10, 0], "ev_op_iterations": 10, "scvar_method": None, "inversion_method": None,
            "interpolation_polynomial_degree": 4, "interpolation_is_log": True, "polarized": False, "time_like": False, "n_integration_cores": 1}
    variants = [("as given", {}), ("zero iterations", {"ev_op_iterations": 0}), ("linear interpolation", {"interpolation_is_log": False}),
                ("scale variation set", {"scvar_method": "exponentiated"}), ("zero cores", {"n_integration_cores": 0}), ("polarised", {"polarized": True}),
                ("default cores omitted", {"n_integration_cores": None})]
    for label, delta in variants:
        raw = dict(base)
        raw.update(delta)
        if label == "default cores omitted":
            del raw["n_integration_cores"]
        try:
            o = pe.apply(pe.getattr(ClassRef(cfg), "from_dict"), [dict(raw)], {})
            r2 = pe.getattr(o, "raw")
            want = dict(raw)
            want.setdefault("n_integration_cores", 1)
            fields_ok = all(same(pe.getattr(o, k) if k not in ("evolution_method", "scvar_method", "inversion_method") else
                                 (pe.getattr(pe.getattr(o, k), "value") if pe.getattr(o, k) is not None else None),
                                 v if k != "ev_op_max_order" else tuple(v)) for k, v in want.items())
            ok = fields_ok and all(same(r2.get(k), v) for k, v in want.items()) and set(r2) == set(want)
            msg = f"object fields {dict((k, str(v)) for k, v in o.attrs.items() if k in delta or k == 'ev_op_max_order')}, serialised again as {dict((k, r2.get(k)) for k in delta)}"
        except PERaise as e:
            ok, msg = False, f"raises {e}"
        n += 1
        chk.decide(ok, "every-field-is-serialised-and-loaded", cfg.qname, f"Configs, {label}: {msg}; required: every field loaded by its declared type and "
                   f"serialised back to the same plain data", where=cfg.where, instance=label, how="PE of from_dict and raw on a card class")
    chk.floor("reader round trips", n, 35)


def _plainness_by_evaluation(src):
    """raw_field itself, partially evaluated on a representative value of every kind (arrays, NumPy scalars, built-ins, an XGrid, an
    enum member, a card section, containers and plain dataclasses nested): the result must be made of built-in numbers, strings,
    booleans, None, lists and string-keyed dicts only - what a safe YAML dumper accepts."""
    from .. import fsmodel, typemodel as tm
    from ..arr import Arr
    from ..pe import ClassRef

    pe = PE(src)
    tm.install(pe)
    fsmodel.install(pe, fsmodel.FS())          # isinstance / float() semantics of the NumPy scalar model
    F = Fraction
    ev = pe.enum_members(src.cls("eko.io.types.EvolutionMethod"))["TRUNCATED"]
    raw_cfg = {"evolution_method": "truncated", "ev_op_max_order": [10, 0], "ev_op_iterations": 2, "scvar_method": None, "inversion_method": None,
               "interpolation_polynomial_degree": 4, "interpolation_is_log": True, "polarized": False, "time_like": False}
    try:
        cfg = pe.apply(pe.getattr(ClassRef(src.cls("eko.io.runcards.Configs")), "from_dict"), [dict(raw_cfg)], {})
    except PERaise:
        # the loader refuses this section (decided and reported by the reader rule): a card section is still needed as a representative
        cfg = Obj(src.cls("eko.io.runcards.Configs"))
        cfg.attrs.update(dict(raw_cfg, evolution_method=ev, ev_op_max_order=(10, 0), n_integration_cores=1))
    xg = pe.instantiate("eko.interpolation.XGrid", [[F(1, 10), F(1, 2), F(1)], True])
    tcls = src.cls("eko.io.items.Target")

    def make(k):
        if isinstance(k, str):
            return {"ndarray": lambda: Arr.from_nested([F(1, 3), F(2)]), "npfloat64": lambda: fsmodel.NpScalar(F(1, 2), "float64"),
                    "npother": lambda: fsmodel.NpScalar(3, "int64"), "float": lambda: F(1, 2), "int": lambda: 3, "str": lambda: "s", "bool": lambda: True,
                    "none": lambda: None, "xgrid": lambda: xg, "enum": lambda: ev, "dictlike": lambda: cfg}[k]()
        c, inner = k
        if c == "list":
            return [make(inner), make(inner)]
        if c == "tuple":
            return (make(inner), make(inner))
        if c == "dict":
            return {"a": make(inner)}
        o = Obj(tcls)                      # a plain (non dict-like) dataclass holding the value
        o.attrs.update(scale=make(inner), nf=4)
        return o

    def describe(x):
        if isinstance(x, fsmodel.NpScalar):
            return f"NumPy {x.kind} scalar"
        if isinstance(x, Arr):
            return "ndarray"
        if isinstance(x, Obj):
            return f"{x.cls.node.name} object"
        return type(x).__name__

    def judge(k):
        try:
            r = pe.call(f"{DL}.raw_field", [make(k)])
        except PERaise as e:
            return False, f"raises {e.etype}"
        bad = []

        def walk(x):
            if x is None or isinstance(x, (bool, int, str, Fraction, dag.Node)):
                return
            if isinstance(x, (list, tuple)):
                for e in x:
                    walk(e)
                return
            if isinstance(x, dict):
                for kk, v in x.items():
                    if not isinstance(kk, (str, int)):
                        bad.append(f"dict key {describe(kk)}")
                    walk(v)
                return
            bad.append(describe(x))

        walk(r)
        return (not bad), (f"the result still contains a {bad[0]}" if bad else "plain")

    def containers(x, acc):
        if isinstance(x, (list, dict)):
            acc[id(x)] = x
            for e in (x.values() if isinstance(x, dict) else x):
                containers(e, acc)
        elif isinstance(x, tuple):
            for e in x:
                containers(e, acc)
        elif isinstance(x, Obj):
            for e in x.attrs.values():
                containers(e, acc)
        return acc

    def fresh(k):
        """two serialisations of ONE value share no list / dict with each other nor with the value: a raw form is handed out to be
        edited (derive a variant card, pop a key), and that must change neither the object nor what it serialises to later"""
        v = make(k)
        try:
            r1 = pe.call(f"{DL}.raw_field", [v])
            r2 = pe.call(f"{DL}.raw_field", [v])
        except PERaise:
            return True, ""
        c1, c2, cv = containers(r1, {}), containers(r2, {}), containers(v, {})
        if set(c1) & set(c2):
            return False, "two serialisations of the same object return the SAME list/dict object (an edit of the first raw form changes the second)"
        if (set(c1) | set(c2)) & set(cv):
            return False, "the serialised form contains a list/dict of the object itself, un-copied"
        return True, ""

    judge.fresh = fresh
    return judge


def _managers_follow_the_card(chk, src):
    """What the computation gets (parts._managers, used by parts.evolve and parts.match alike), for several cards handled one after
    the other in ONE process: the interpolator carries the grid, the log / linear flag and the degree of the card of THAT call."""
    from fractions import Fraction

    from ..pe import PE, Opaque, named_arguments

    fm = src.func("eko.runner.parts._managers")
    pe = PE(src)
    xgc = src.cls("eko.interpolation.XGrid")
    built = []

    def mk_d(p_, a, k):
        na = named_arguments(k)
        d = Obj(src.cls("eko.interpolation.InterpolatorDispatcher"))
        d.attrs.update(xgrid=na.get("xgrid"), polynomial_degree=na.get("polynomial_degree"))
        built.append(d)
        return d

    pe.overrides["eko.interpolation.InterpolatorDispatcher"] = mk_d
    pe.overrides["eko.runner.commons.atlas"] = lambda p_, a, k: "ATLAS"
    pe.overrides["eko.runner.commons.couplings"] = lambda p_, a, k: "COUPLINGS"
    g1 = [Fraction(1, 100), Fraction(1, 10), Fraction(1, 2), Fraction(1)]
    g2 = [Fraction(1, 1000), Fraction(1, 10), Fraction(1, 2), Fraction(1)]
    runs = [(g1, True, 2), (g1, False, 2), (g1, True, 2), (g1, True, 3), (g2, False, 3), (g1, False, 3)]
    n = 0
    for i, (grid, is_log, deg) in enumerate(runs):
        card = Obj(src.cls("eko.io.runcards.OperatorCard"))
        cfg = Obj(src.cls("eko.io.runcards.Configs"))
        cfg.attrs.update(interpolation_polynomial_degree=deg, interpolation_is_log=is_log)
        card.attrs.update(xgrid=pe.instantiate(xgc.qname, [list(grid)], {}), configs=cfg)       # as loaded: the object's own flag is the default
        eko_ = Opaque()
        eko_.theory_card = "THEORY"
        eko_.operator_card = card
        inst = f"call {i + 1} of one process: grid of {len(grid)} points from {grid[0]}, is_log={is_log}, degree {deg}"
        try:
            m = pe.call(fm.qname, [eko_])
            d = pe.getattr(m, "interpolator")
        except PERaise as e:
            chk.fail("declared-interpolation-settings-are-used", fm.qname, f"{inst}: raises {e}", where=fm.where, instance=inst)
            continue
        n += 1
        xg_ = d.attrs.get("xgrid") if isinstance(d, Obj) else None
        pts = [dag.as_const(dag.tonode(v)) for v in pe.getattr(xg_, "raw").flat()] if isinstance(xg_, Obj) else None
        flag = pe.getattr(xg_, "log") if isinstance(xg_, Obj) else None
        dg = d.attrs.get("polynomial_degree") if isinstance(d, Obj) else None
        chk.decide(pts == list(grid) and flag is is_log and dg == deg, "declared-interpolation-settings-are-used", fm.qname,
                   f"{inst}: the computation interpolates on {[str(v) for v in pts] if pts else pts} with log={flag}, degree {dg} - not what this "
                   f"call's card declares (settings of an earlier call of the same process are reused)", where=fm.where, instance=inst,
                   how="PE of parts._managers for a sequence of cards in one evaluator")
    chk.floor("manager constructions in one process", n, 6)
