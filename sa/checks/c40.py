"""C40 - runcards and dict-like structures round-trip through their raw form; declared interpolation settings are used."""
from __future__ import annotations

import ast
import itertools

from .. import dag, effects as E
from ..core import AnalysisError
from ..pe import PE, Obj, PERaise
from ..src import load, stmt_text

LEVEL = "other"
META = {
    "text": "(1) NORMALISER: raw_field is interpreted abstractly over value kinds - ndarray, NumPy float64, other NumPy scalars, "
            "builtin scalars, None, XGrid, enum members, dict-like objects, plain dataclasses, and tuples / lists / dicts / plain "
            "dataclasses nested up to depth three over all of them: for every kind the branch that fires is determined from the "
            "isinstance chain (with the real subtype relations, e.g. np.float64 is a float, np.int64 is not an int) and the "
            "returned expression is classified; the result must be plain data (what a safe YAML dumper accepts). This decides "
            "that every container branch recurses and that every NumPy scalar is cast, anywhere inside. (2) READER TABLE: "
            "load_field / load_typing keep a branch for every kind the cards declare (NewType, Union/Optional, List/Generic "
            "containers, tuple, ndarray, dict-like, enum by name or value, mapping -> keyword construction, scalar "
            "constructor), and every annotation used by TheoryCard, OperatorCard, Configs, Debug, CouplingsInfo, HeavyInfo "
            "and Metadata falls in one of these kinds; _raw serialises every dataclass field and _from_dict loads every field. "
            "(3) XGRID: dump() and load() agree on their keys and raw_field consumes a key that dump() provides; whether the "
            "logarithmic flag survives the raw form is decided (known finding). (4) DECLARED = USED: commons.interpolator is "
            "partially evaluated with a symbolic card: the dispatcher is built from the card's grid, the card's "
            "interpolation_is_log and the card's polynomial degree; every field of the cards is read somewhere in the runner's "
            "call-graph closure (a declared setting nobody reads cannot be the one used).",
    "note": "Equality of the re-loaded object relies on the typing machinery at run time; decided here are the normaliser (all "
            "kinds), the reader's branch table and the wiring of the declared settings.",
    "technique": "abstract interpretation of the normaliser over value kinds; writer/reader branch tables; PE of the interpolator construction; configuration liveness over the call graph",
    "engine": "sa",
}

DL = "eko.io.dictlike"
LEAVES = ["ndarray", "npfloat64", "npother", "float", "int", "str", "bool", "none", "xgrid", "enum", "dictlike"]
PLAIN_LEAF = {"float", "int", "str", "bool", "none"}
# which kinds an isinstance(value, T) test accepts (real subtype relations)
ISA = {
    "np.ndarray": {"ndarray"}, "numpy.ndarray": {"ndarray"},
    "np.generic": {"npfloat64", "npother"}, "numpy.generic": {"npfloat64", "npother"},
    "np.number": {"npfloat64", "npother"}, "np.floating": {"npfloat64"}, "np.float64": {"npfloat64"},
    "float": {"float", "npfloat64"}, "int": {"int", "bool"}, "bool": {"bool"}, "str": {"str"},
    "interpolation.XGrid": {"xgrid"}, "XGrid": {"xgrid"},
    "enum.Enum": {"enum"}, "Enum": {"enum"}, "DictLike": {"dictlike"},
    "tuple": {"tuple"}, "list": {"list"}, "dict": {"dict"},
}


def kind_head(k):
    return k if isinstance(k, str) else k[0]


def matches(test, k, fn):
    """does the branch test accept a value of kind k?  None = cannot decide"""
    if isinstance(test, ast.Call):
        d = ast.unparse(test.func)
        if d == "isinstance" and ast.unparse(test.args[0]) == "value":
            ts = test.args[1].elts if isinstance(test.args[1], ast.Tuple) else [test.args[1]]
            res = False
            for t in ts:
                name = ast.unparse(t)
                if name not in ISA:
                    return None
                res = res or kind_head(k) in ISA[name]
            return res
        if d in ("dataclasses.is_dataclass", "is_dataclass") and ast.unparse(test.args[0]) == "value":
            return kind_head(k) in ("dataclass", "dictlike")
        if d == "hasattr" and ast.unparse(test.args[0]) == "value" and isinstance(test.args[1], ast.Constant):
            a = test.args[1].value
            if a == "item":
                return kind_head(k) in ("ndarray", "npfloat64", "npother")
            if a == "tolist":
                return kind_head(k) in ("ndarray", "npfloat64", "npother")
        return None
    if isinstance(test, ast.BoolOp):
        vals = [matches(v, k, fn) for v in test.values]
        if any(v is None for v in vals):
            return None
        return any(vals) if isinstance(test.op, ast.Or) else all(vals)
    if isinstance(test, ast.Compare) and ast.unparse(test) == "value is None":
        return k == "none"
    return None


class Interp:
    def __init__(self, fn_node):
        self.fn = fn_node
        self.name = fn_node.name
        self.branches = []
        for st in fn_node.body:
            if isinstance(st, ast.Expr) and isinstance(st.value, ast.Constant):
                continue
            if isinstance(st, ast.If) and len(st.body) == 1 and isinstance(st.body[0], ast.Return) and not st.orelse:
                self.branches.append((st.test, st.body[0].value))
            elif isinstance(st, ast.Return):
                self.branches.append((None, st.value))
            else:
                raise AnalysisError(f"raw_field has a statement the abstract interpreter does not know: `{stmt_text(st)[:80]}`")

    def plain(self, k, depth=0):
        """(is the result plain?, reason)"""
        if depth > 6:
            return False, "recursion too deep"
        for test, ret in self.branches:
            if test is not None:
                m = matches(test, k, self.fn)
                if m is None:
                    raise AnalysisError(f"cannot decide the branch test `{ast.unparse(test)}` of {self.name}")
                if not m:
                    continue
            return self.result(ret, k, depth)
        return False, "falls off the end"

    def elem(self, k):
        return k[1] if not isinstance(k, str) else None

    def result(self, e, k, depth):
        txt = ast.unparse(e)
        head = kind_head(k)
        if txt == "value":
            if head in PLAIN_LEAF:
                return True, "builtin"
            if head in ("list", "dict", "tuple"):
                ok, why = self.passthrough(self.elem(k))
                return ok, f"container returned unchanged: {why}"
            return False, f"{head} returned unchanged"
        if isinstance(e, ast.Call) and isinstance(e.func, ast.Attribute) and ast.unparse(e.func.value) == "value" and e.func.attr in ("tolist", "item"):
            return head in ("ndarray", "npfloat64", "npother"), f".{e.func.attr}()"
        if isinstance(e, ast.Call) and isinstance(e.func, ast.Name) and e.func.id in ("float", "int", "bool", "str") and txt == f"{e.func.id}(value)":
            return True, "cast"
        if txt in ("value.dump()['grid']", "value.tolist()", "value.raw.tolist()") and head == "xgrid":
            return True, "grid list"
        if txt == "value.value" and head == "enum":
            return True, "enum value"
        if txt in ("value.raw", "value._raw()", "value.public_raw") and head == "dictlike":
            return True, "nested raw"
        # comprehension over the elements with a recursive call
        if isinstance(e, (ast.ListComp, ast.DictComp)) and len(e.generators) == 1:
            g = e.generators[0]
            it = ast.unparse(g.iter)
            val = e.elt if isinstance(e, ast.ListComp) else e.value
            if it in ("value", "value.items()") and isinstance(val, ast.Call) and ast.unparse(val.func) == self.name:
                return self.plain(self.elem(k), depth + 1)
            if it in ("value", "value.items()"):
                ok, why = self.passthrough(self.elem(k))
                return ok, f"elements copied without normalisation: {why}"
        if isinstance(e, ast.Call) and isinstance(e.func, ast.Name) and e.func.id in ("list", "tuple", "dict") and txt == f"{e.func.id}(value)":
            ok, why = self.passthrough(self.elem(k))
            return ok, f"{e.func.id}(value) keeps the elements as they are: {why}"
        if txt in ("dataclasses.asdict(value)", "asdict(value)"):
            ok, why = self.passthrough(self.elem(k))
            return ok, f"asdict keeps the leaves as they are: {why}"
        if isinstance(e, ast.Call) and ast.unparse(e.func) == self.name and len(e.args) == 1:
            inner = ast.unparse(e.args[0])
            if inner in ("dataclasses.asdict(value)", "asdict(value)"):
                return self.plain(("dict", self.elem(k)), depth + 1)
            if inner in ("list(value)", "tuple(value)"):
                return self.plain(("list", self.elem(k)), depth + 1)
        raise AnalysisError(f"{self.name}: unknown return expression `{txt}` for kind {k}")

    def passthrough(self, k):
        """is a value of kind k plain without any normalisation?"""
        if isinstance(k, str):
            return k in PLAIN_LEAF, k
        ok, why = self.passthrough(k[1])
        return ok, f"{k[0]} of {why}"


def kinds(depth):
    out = list(LEAVES)
    level = list(LEAVES)
    for _ in range(depth):
        level = [(c, k) for c in ("tuple", "list", "dict", "dataclass") for k in level]
        out.extend(level)
    return out


def fmt(k):
    return k if isinstance(k, str) else f"{k[0]}[{fmt(k[1])}]"


def run(chk):
    src = load()
    chk.rule_text = "raw_field(kind) is plain for every kind; reader keeps a branch per declared kind; interpolator built from the card's settings"
    frf = src.func(f"{DL}.raw_field")
    it = Interp(frf.node)
    ks = kinds(2 if chk.tier == "quick" else 3)
    bad = {}
    for k in ks:
        ok, why = it.plain(k)
        if not ok:
            bad.setdefault(why, []).append(k)
    for why, lst in bad.items():
        lst.sort(key=lambda k: len(fmt(k)))
        chk.fail("normaliser-yields-plain-data", frf.qname, f"raw_field({fmt(lst[0])}) is not plain data: {why} ({len(lst)} kinds, e.g. "
                 f"{[fmt(x) for x in lst[:4]]}); a safe YAML dumper refuses it", where=frf.where, instance=fmt(lst[0]))
    if not bad:
        chk.ok("normaliser-yields-plain-data", frf.qname, f"{len(ks)} value kinds", how="abstract interpretation over kinds")
    chk.floor("value kinds", len(ks), 200)
    # ---- (2) reader table -----------------------------------------------------------------------------------------------------
    flf = src.func(f"{DL}.load_field")
    flt = src.func(f"{DL}.load_typing")
    t1, t2 = stmt_text(flf.node), stmt_text(flt.node)
    table = {
        "NewType": "__supertype__" in t1,
        "typing generic -> load_typing": "typing.get_origin(type_) is not None" in t1 and "load_typing(type_, value)" in t1,
        "ndarray from list": "np.ndarray" in t1 and "np.array(value)" in t1,
        "dict-like": "issubclass(type_, DictLike)" in t1 and "type_.from_dict(value)" in t1,
        "enum": "issubclass(type_, enum.Enum)" in t1 and "load_enum(type_, value)" in t1,
        "mapping -> keywords": "isinstance(value, dict)" in t1 and "type_(**value)" in t1,
        "scalar constructor": "return type_(value)" in t1,
        "Union variants": "origin is typing.Union" in t2 and "load_field(variant, value)" in t2,
        "Optional": "type(None) in" in t2 and "return None" in t2,
        "List/Generic elements": "issubclass(origin, (list, typing.Generic))" in t2 and "origin([load_field(T, x) for x in value])" in t2,
        "other origin (tuple)": "return load_field(origin, value)" in t2,
    }
    for k, present in table.items():
        chk.decide(present, "reader-keeps-a-branch-per-kind", flf.qname if "load_typing" not in k else flt.qname,
                   f"the branch for `{k}` is gone from load_field/load_typing", where=flf.where, instance=k)
    fe = src.func(f"{DL}.load_enum")
    te = stmt_text(fe.node)
    chk.decide("return type_[value]" in te and "except KeyError" in te and "return type_(value)" in te, "reader-keeps-a-branch-per-kind", fe.qname,
               "load_enum no longer accepts both the name and the value of a variant", where=fe.where, instance="enum by name or value")
    # falsy payloads (False, 0, 0.0, [], "") are data: no loader may branch on the truthiness of the value, and in the Union branch
    # nothing may return before the variants have been tried
    for f in (flf, flt, fe, src.func(f"{DL}.DictLike._from_dict")):
        for n in E.own_nodes(f.node):
            tests = []
            if isinstance(n, (ast.If, ast.IfExp, ast.While)):
                tests.append(n.test)
            elif isinstance(n, ast.BoolOp):
                tests.extend(n.values)
            elif isinstance(n, ast.UnaryOp) and isinstance(n.op, ast.Not):
                tests.append(n.operand)
            for t in tests:
                while isinstance(t, ast.UnaryOp) and isinstance(t.op, ast.Not):
                    t = t.operand
                parts = t.values if isinstance(t, ast.BoolOp) else [t]
                for p in parts:
                    while isinstance(p, ast.UnaryOp) and isinstance(p.op, ast.Not):
                        p = p.operand
                    if isinstance(p, ast.Name) and p.id in ("value", "dictionary", "x"):
                        chk.fail("falsy-values-are-data", f.qname, f"`{stmt_text(n)[:80]}` branches on the truthiness of the value being loaded: "
                                 f"False, 0, 0.0 or an empty list would be treated as absent", where=f"{f.module.relpath}:{n.lineno}",
                                 instance=stmt_text(t)[:40])
    union = next((n for n in ast.walk(flt.node) if isinstance(n, ast.If) and "typing.Union" in ast.unparse(n.test)), None)
    chk.need(union is not None, "load_typing lost its Union branch")
    first = union.body[0]
    chk.decide(isinstance(first, ast.For) and "load_field" in ast.unparse(first) or
               (isinstance(first, ast.Assign) and isinstance(union.body[1], ast.For) and "load_field" in ast.unparse(union.body[1])),
               "falsy-values-are-data", flt.qname, f"the Union branch starts with `{stmt_text(first)[:60]}` instead of trying the variants",
               where=flt.where, instance="union-order")
    fraw = src.func(f"{DL}.DictLike._raw")
    ffd = src.func(f"{DL}.DictLike._from_dict")
    chk.decide("for field in dataclasses.fields(self)" in stmt_text(fraw.node) and "raw_field(getattr(self, field.name))" in stmt_text(fraw.node),
               "every-field-is-serialised-and-loaded", fraw.qname, "_raw no longer passes every dataclass field through raw_field", where=fraw.where)
    chk.decide("for field in dataclasses.fields(cls)" in stmt_text(ffd.node) and "load_field(field.type, dictionary[field.name])" in stmt_text(ffd.node)
               and "return cls(**dictionary)" in stmt_text(ffd.node), "every-field-is-serialised-and-loaded", ffd.qname,
               "_from_dict no longer loads every field by its declared type", where=ffd.where, instance="_from_dict")
    # annotation kinds of the cards
    dl = src.cls(f"{DL}.DictLike")
    cards = E.subclasses(src, dl)
    chk.floor("dict-like classes", len(cards), 7)
    n_fields = 0
    handled_heads = {"Optional", "List", "Tuple", "Union", "Dict", "npt.NDArray"}
    for c in cards:
        for name, (ann, default) in c.fields().items():
            n_fields += 1
            node = ast.parse(ann, mode="eval").body
            kind = _ann_kind(src, c.module, node)
            chk.decide(kind is not None, "declared-kinds-are-readable", f"{c.qname}.{name}", f"annotation `{ann}` is of a kind load_field has no "
                       f"branch for", where=c.where, instance=name)
    chk.floor("card fields", n_fields, 35)
    # ---- (3) XGrid ----------------------------------------------------------------------------------------------------------------
    xg = src.cls("eko.interpolation.XGrid")
    dump_keys = set()
    for n in ast.walk(xg.methods["dump"].node):
        if isinstance(n, ast.Return) and isinstance(n.value, ast.Call) and ast.unparse(n.value.func) == "dict":
            dump_keys = {k.arg for k in n.value.keywords}
        elif isinstance(n, ast.Return) and isinstance(n.value, ast.Dict):
            dump_keys = {k.value for k in n.value.keys}
    load_keys = {n.slice.value for n in ast.walk(xg.methods["load"].node) if isinstance(n, ast.Subscript) and isinstance(n.slice, ast.Constant)}
    chk.decide(dump_keys == load_keys and dump_keys, "xgrid-writer-reader-keys-agree", xg.qname, f"dump writes {sorted(dump_keys)}, load reads "
               f"{sorted(load_keys)}", where=xg.where)
    used = set()
    for test, ret in it.branches:
        if test is not None and matches(test, "xgrid", frf.node):
            used = {n.slice.value for n in ast.walk(ret) if isinstance(n, ast.Subscript) and isinstance(n.slice, ast.Constant)}
            whole = ast.unparse(ret) in ("value.dump()",)
            break
    chk.decide(used <= dump_keys and (used or whole), "xgrid-writer-reader-keys-agree", frf.qname, f"raw_field takes {sorted(used)} from XGrid.dump() "
               f"which provides {sorted(dump_keys)}", where=frf.where, instance="raw_field")
    lost = sorted(dump_keys - used) if not whole else []
    chk.decide(not lost, "xgrid-flag-survives-raw", frf.qname, f"the raw form of an XGrid keeps {sorted(used)} and drops {lost}: a card holding "
               f"XGrid(..., log=False) is re-loaded with log=True (load_field builds XGrid(list) with the default flag)", where=frf.where,
               instance="XGrid.log")
    # ---- (4) declared = used ----------------------------------------------------------------------------------------------------------
    pe = PE(src)
    captured = {}

    def mk_x(pe_, args, kwargs):
        captured["xgrid_args"] = (args, kwargs)
        o = Obj(xg)
        o.attrs.update(tag="built")
        return o

    def mk_d(pe_, args, kwargs):
        captured["disp"] = (args, kwargs)
        return Obj(src.cls("eko.interpolation.InterpolatorDispatcher"))

    pe.overrides["eko.interpolation.XGrid"] = mk_x
    pe.overrides["eko.interpolation.InterpolatorDispatcher"] = mk_d
    card = Obj(src.cls("eko.io.runcards.OperatorCard"))
    cfg = Obj(src.cls("eko.io.runcards.Configs"))
    cfg.attrs.update(interpolation_polynomial_degree=dag.sym("deg"), interpolation_is_log=dag.sym("islog"))
    gx = Obj(xg)
    gx.attrs.update(raw=dag.sym("rawgrid"), grid=dag.sym("innergrid"), log=dag.sym("objlog"), _raw=dag.sym("rawgrid"))
    card.attrs.update(xgrid=gx, configs=cfg)
    fi = src.func("eko.runner.commons.interpolator")
    try:
        pe.call(fi.qname, [card])
    except PERaise as e:
        chk.fail("declared-interpolation-settings-are-used", fi.qname, f"raises {e}", where=fi.where)
    da, dk = captured.get("disp", ((), {}))
    dk = dict(dk)
    if da:
        dk.setdefault("xgrid", da[0])
        if len(da) > 1:
            dk.setdefault("polynomial_degree", da[1])
    xa = captured.get("xgrid_args")
    ok_deg = dk.get("polynomial_degree") is dag.sym("deg")
    gx_used = dk.get("xgrid")
    if isinstance(gx_used, Obj) and gx_used.attrs.get("tag") == "built" and xa:
        a, k = xa
        flag = k.get("log", a[1] if len(a) > 1 else None)
        grid = a[0] if a else k.get("xgrid")
        ok_grid = grid is dag.sym("rawgrid") and flag is dag.sym("islog")
        why = f"XGrid({grid}, log={flag})"
    else:
        ok_grid = False
        why = "the card's XGrid object is passed on as it is: its flag is the constructor default after loading, not configs.interpolation_is_log"
    chk.decide(ok_deg and ok_grid, "declared-interpolation-settings-are-used", fi.qname,
               f"the dispatcher is built with degree {dk.get('polynomial_degree')} and grid {why}; required: the card's raw grid, "
               f"configs.interpolation_is_log and configs.interpolation_polynomial_degree", where=fi.where, how="PE with symbolic card")
    # liveness
    R = E.reach(src, ["eko.runner.managed.solve", "eko.runner.parts.evolve", "eko.runner.parts.match", "eko.runner.recipes.create"])
    chk.floor("functions in the runner closure", len(R), 400)
    loaded = set()
    for q in R:
        for n in E.own_nodes(src.funcs[q].node):
            if isinstance(n, ast.Attribute) and isinstance(n.ctx, ast.Load):
                loaded.add(n.attr)
    allow = {"eko_version": "bookkeeping only"}
    n_live = 0
    card_classes = ("eko.io.runcards.TheoryCard", "eko.io.runcards.OperatorCard", "eko.io.runcards.Configs", "eko.io.runcards.Debug",
                    "eko.quantities.couplings.CouplingsInfo", "eko.quantities.heavy_quarks.HeavyInfo")
    # fields read through the cards' own properties (operator.evolgrid reads self.mugrid)
    changed = True
    while changed:
        changed = False
        for cname in card_classes:
            for mname, m in src.cls(cname).methods.items():
                if mname in loaded:
                    for n in E.own_nodes(m.node):
                        if isinstance(n, ast.Attribute) and isinstance(n.ctx, ast.Load) and n.attr not in loaded:
                            loaded.add(n.attr)
                            changed = True
    for cname in card_classes:
        c = src.cls(cname)
        for name in c.fields():
            if name in allow:
                continue
            n_live += 1
            chk.decide(name in loaded, "declared-settings-are-read", f"{cname}.{name}", f"no function in the runner's call-graph closure reads "
                       f"`.{name}`: the declared setting cannot influence the computation", where=c.where, instance=name)
    chk.floor("settings checked for liveness", n_live, 30)
    chk.note(kinds=len(ks), card_fields=n_fields, files=["src/eko/io/dictlike.py", "src/eko/io/runcards.py", "src/eko/interpolation.py",
                                                         "src/eko/runner/commons.py"])
    chk.explanation = "Abstract interpretation of raw_field over value kinds; reader branch table; interpolator wiring by PE; liveness."


SCALARS = {"float", "int", "bool", "str"}


def _ann_kind(src, module, node, depth=0):
    """classify an annotation into a kind load_field handles; None if unknown"""
    if depth > 8:
        return None
    if isinstance(node, ast.Constant) and node.value is None:
        return "none"
    if isinstance(node, ast.Subscript):
        head = ast.unparse(node.value).split(".")[-1]
        args = node.slice.elts if isinstance(node.slice, ast.Tuple) else [node.slice]
        if head in ("Optional", "Union", "List", "Tuple", "Sequence"):
            sub = [_ann_kind(src, module, a, depth + 1) for a in args if not (isinstance(a, ast.Constant) and a.value is Ellipsis)]
            return head if all(s is not None for s in sub) else None
        if head in ("Dict", "NDArray"):
            return head
        # user generic: HeavyQuarks[T], ReferenceRunning[T]
        base = _ann_kind(src, module, node.value, depth + 1)
        return "generic" if base in ("listclass",) and all(_ann_kind(src, module, a, depth + 1) for a in args) else None
    d = src.dotted(node)
    if d is None:
        return None
    if d in SCALARS:
        return "scalar"
    if d in ("dict", "typing.Dict", "Dict"):
        return "Dict"
    if d in ("T",):
        return "typevar"
    if d.split(".")[-1] == "NDArray":
        return "NDArray"
    head = d.split(".")[0]
    m = module
    name = d
    if head in m.imports:
        q = src.canonical(m.imports[head] + d[len(head):])
        if q in src.classes:
            return _class_kind(src, src.classes[q])
        mod, _, name = q.rpartition(".")
        if mod not in src.modules:
            # a class of another library (pathlib.Path, ...): loaded through its constructor
            return "external-constructor" if q.split(".")[0] not in ("eko", "ekore", "ekobox") else None
        m = src.modules[mod]
    if name in m.classes:
        return _class_kind(src, m.classes[name])
    if name in m.consts:
        return _ann_kind(src, m, m.consts[name], depth + 1)
    return None


def _class_kind(src, c):
    bases = [ast.unparse(b) for b in c.node.bases]
    if any(b.endswith("Enum") for b in bases):
        return "enum"
    if any(b.split(".")[-1] == "DictLike" for b in bases):
        return "dictlike"
    if "list" in bases:
        return "listclass"
    if c.qname == "eko.interpolation.XGrid":
        return "scalar-constructor"
    if c.is_dataclass:
        return "mapping"
    return None
