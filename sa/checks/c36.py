"""C36 - EKO archives round-trip all their content (writer/reader agreement of every stored piece)."""
from __future__ import annotations

import ast

from .. import effects as E
from ..pe import PE, Obj, PERaise
from ..src import load, stmt_text

LEVEL = "proof"
META = {
    "text": "A round trip can only lose or corrupt content where a writer and its reader disagree. Decided for every stored piece: "
            "(1) YAML: every file read with yaml.safe_load is written either with safe_dump or from a payload that passed the "
            "serialisation normaliser (.raw / raw_field); the header payload written by Inventory.__setitem__ additionally "
            "normalises NumPy scalars (np.generic -> .item()), so evolution points given as NumPy numbers are readable again; all "
            "readers are safe_load. (2) FILE NAMES: the names produced by header_name / operator_name (with and without errors) "
            "are exactly those accepted by Inventory.lookup and Inventory.sync (extension tables agree; format chosen by "
            "`error is not None` on both sides). (3) ARRAYS: Operator.save writes npy without and npz with errors, the npz member "
            "names are the keys Operator.load reads, load handles both container kinds, compress/decompress are paired and the "
            "buffer is rewound between writing and reading it. (4) EVOLUTION POINTS: the EKO item accessors map a point to its "
            "header through one function on every path (Target.from_ep) and Target.ep inverts it exactly (PE). (5) METADATA: the "
            "serialised form drops only underscore fields, and `_path` is the only one. (6) ARCHIVE: dump adds the whole working "
            "directory under '.', read extracts the whole archive and loads from that directory; load syncs the operator headers "
            "from disk.",
    "note": "Bitwise identity of arrays through numpy/lz4/tar is the libraries' behaviour and is not decided; what is decided is "
            "that each piece is written and read by agreeing code.",
    "technique": "writer/reader pairing tables from the AST, sanitizer-to-sink rule for serialised payloads, ordering rule on the buffer, PE of point<->header maps",
    "engine": "sa",
}

INV = "eko.io.inventory"
SANITIZERS = ("raw_field", ".raw", ".public_raw")


def _yaml_calls(src, prefix=("eko.",)):
    out = []
    for q, f in src.funcs.items():
        if not q.startswith(prefix):
            continue
        for c in src.calls_in(f):
            d = src.dotted(c.func) or ""
            if d.startswith("yaml."):
                out.append((f, c, d.split(".", 1)[1]))
    return out


def _expand(expr, fn_node, depth=0):
    """text of expr with local single-assignment names replaced by their definitions"""
    txt = ast.unparse(expr)
    if depth > 3:
        return txt
    for n in ast.walk(expr):
        if isinstance(n, ast.Name):
            defs = [st for st in ast.walk(fn_node) if isinstance(st, ast.Assign) and len(st.targets) == 1
                    and isinstance(st.targets[0], ast.Name) and st.targets[0].id == n.id]
            if len(defs) == 1:
                txt += " <= " + _expand(defs[0].value, fn_node, depth + 1)
    return txt


def run(chk):
    src = load()
    pe = PE(src)
    chk.rule_text = "every stored piece is written and read by agreeing code (names, keys, formats, normalised payloads)"
    # ---- (1) yaml ---------------------------------------------------------------------------------------------------------
    calls = _yaml_calls(src)
    readers = [(f, c, k) for f, c, k in calls if "load" in k]
    writers = [(f, c, k) for f, c, k in calls if "dump" in k]
    chk.floor("yaml readers", len(readers), 5)
    chk.floor("yaml writers", len(writers), 5)
    for f, c, k in readers:
        chk.decide(k == "safe_load", "yaml-readers-are-safe", f.qname, f"`{ast.unparse(c)[:60]}` is not safe_load", where=f"{f.module.relpath}:{c.lineno}",
                   instance=str(c.lineno))
    edges = E.typed_callgraph(src)
    for f, c, k in writers:
        payload = c.args[0]
        text = _expand(payload, f.node)
        ok = k == "safe_dump"
        why = ""
        if not ok:
            # plain dump: payload must be sanitised. Parameter? look at every caller.
            ok = any(s in text for s in SANITIZERS)
            if not ok and isinstance(payload, ast.Name) and payload.id in f.params:
                callers = [(g, cc) for gq, g in src.funcs.items() for cc in src.calls_in(g)
                           if isinstance(src.resolve_call(g, cc, None), type(f)) and src.resolve_call(g, cc, None) is f
                           or (isinstance(cc.func, ast.Attribute) and cc.func.attr == f.node.name and f.cls is not None
                               and f.cls.node.name in ast.unparse(cc.func))]
                vals = []
                for g, cc in callers:
                    for kw in cc.keywords:
                        if kw.arg == payload.id:
                            vals.append(_expand(kw.value, g.node))
                    idx = f.params.index(payload.id) - (1 if f.params[:1] == ["self"] else 0)
                    if idx < len(cc.args):
                        vals.append(_expand(cc.args[idx], g.node))
                ok = bool(vals) and all(any(s in v for s in SANITIZERS) for v in vals)
                why = f" (callers pass {vals})"
        chk.decide(ok, "yaml-payload-is-plain-data", f.qname, f"`{ast.unparse(c)[:70]}` writes with the unsafe dumper a payload that did not pass "
                   f"raw_field/.raw{why}: values that are not plain data get python-specific tags which safe_load rejects",
                   where=f"{f.module.relpath}:{c.lineno}", instance=ast.unparse(payload)[:40])
    fset = src.func(f"{INV}.Inventory.__setitem__")
    hd = [c for f, c, k in writers if f is fset]
    chk.need(len(hd) == 1, "Inventory.__setitem__ no longer dumps exactly one header")
    text = _expand(hd[0].args[0], fset.node)
    chk.decide(("np.generic" in text and ".item()" in text) or "raw_field" in text, "header-payload-normalises-numpy-scalars", fset.qname,
               f"the header payload `{text[:120]}` does not cast NumPy scalars to built-in numbers: a point given as np.float64 / np.int64 is "
               f"written with python tags (dump) or refused (safe_dump)", where=fset.where)
    # ---- (2) file names ----------------------------------------------------------------------------------------------------------
    pe.overrides[f"{INV}.encode"] = lambda pe_, a, k: "STEM"
    hext = pe.get_global(INV, "HEADER_EXT")
    oext = pe.get_global(INV, "OPERATOR_EXT")
    chk.need(isinstance(hext, str) and isinstance(oext, list) and len(oext) == 2, "extension tables vanished")
    h = Obj(src.cls("eko.io.items.Target"))
    h.attrs.update(scale=1.0, nf=4)
    names = {err: pe.call(f"{INV}.operator_name", [h, err]) for err in (False, True)}
    hname = pe.call(f"{INV}.header_name", [h])
    import pathlib

    for err, nm in names.items():
        suff = "".join(pathlib.PurePath(nm).suffixes)
        chk.decide(nm.startswith("STEM") and suff in oext and (".npz" in suff) == err, "names-written-are-names-read", f"{INV}.operator_name",
                   f"operator_name(err={err}) = {nm!r}: not found by lookup (extensions {oext}) or wrong container for the format",
                   where=src.func(f"{INV}.operator_name").where, instance=f"err={err}", how="PE")
    chk.decide(names[False] != names[True], "names-written-are-names-read", f"{INV}.operator_name", "both formats share one name", instance="distinct")
    chk.decide(hname == "STEM" + hext and pathlib.PurePath(hname).suffix == hext, "names-written-are-names-read", f"{INV}.header_name",
               f"header_name = {hname!r} is not matched by sync/lookup (suffix {hext})", where=src.func(f"{INV}.header_name").where, how="PE")
    flook = src.func(f"{INV}.Inventory.lookup")
    t = stmt_text(flook.node)
    chk.decide("EXT = OPERATOR_EXT if not header else [HEADER_EXT]" in t and "path.name.startswith(stem)" in t and "''.join(path.suffixes) in EXT" in t,
               "names-written-are-names-read", flook.qname, "lookup no longer selects by stem prefix and the joined suffixes in the extension table",
               where=flook.where, instance="lookup")
    fsync = src.func(f"{INV}.Inventory.sync")
    t = stmt_text(fsync.node)
    chk.decide("path.suffix != HEADER_EXT" in t and "self.header_type(**yaml.safe_load(" in t and "self.cache[header] = None" in t,
               "names-written-are-names-read", fsync.qname, "sync no longer rebuilds every header file into the cache", where=fsync.where, instance="sync")
    t = stmt_text(fset.node)
    chk.decide("with_err = operator.error is not None" in t and "operator_name(header, err=with_err)" in t, "names-written-are-names-read", fset.qname,
               "the operator file name is not chosen by `error is not None`", where=fset.where, instance="setitem")
    # overwriting must not leave two operator files for one header (lookup would then refuse to read): rule shared with C37
    from .c37 import fs_invariant

    fs_invariant(chk, src, PE(src))
    # ---- (3) arrays -------------------------------------------------------------------------------------------------------------------
    fsave = src.func("eko.io.items.Operator.save")
    fload = src.func("eko.io.items.Operator.load")
    savez = [c for c in src.calls_in(fsave) if (src.dotted(c.func) or "").endswith("np.savez") or (src.dotted(c.func) or "").endswith("savez_compressed")]
    save = [c for c in src.calls_in(fsave) if (src.dotted(c.func) or "") == "np.save"]
    chk.need(len(savez) == 1 and len(save) == 1, "Operator.save no longer has one np.save and one np.savez")
    written = {k.arg: ast.unparse(k.value) for k in savez[0].keywords}
    read_keys = {n.slice.value: None for n in ast.walk(fload.node) if isinstance(n, ast.Subscript) and isinstance(n.slice, ast.Constant)
                 and isinstance(n.slice.value, str)}
    chk.decide(written == {"operator": "self.operator", "error": "self.error"} and set(read_keys) == set(written), "array-members-agree", fsave.qname,
               f"npz members written {written} vs keys read {sorted(read_keys)}", where=fsave.where)
    # branch: error is None -> np.save
    ifs = [n for n in fsave.node.body if isinstance(n, ast.If)]
    ok = bool(ifs) and stmt_text(ifs[0].test) == "self.error is None" and "np.save(" in stmt_text(ifs[0].body[0]) and "np.savez(" in stmt_text(ifs[0].orelse[0])
    chk.decide(ok, "array-members-agree", fsave.qname, "format is not chosen by `self.error is None` (npy without, npz with errors)", where=fsave.where,
               instance="branch")
    t = stmt_text(fload.node)
    chk.decide("isinstance(content, np.ndarray)" in t and "isinstance(content, npyio.NpzFile)" in t and "return cls(operator=op, error=err)" in t
               and "err = None" in t, "array-members-agree", fload.qname, "load no longer handles both containers / returns (operator, error)",
               where=fload.where, instance="load")
    ts = stmt_text(fsave.node)
    chk.decide("lz4.frame.compress(" in ts and "lz4.frame.decompress(stream.read())" in t and "np.load(extracted_stream)" in t, "compression-paired",
               fsave.qname, "compress/decompress are not paired", where=fsave.where)
    # ordering: aux written -> aux.seek(0) -> aux.read()
    order = []
    for st in fsave.node.body:
        s = stmt_text(st)
        if "np.save" in s:
            order.append("write")
        if "aux.seek(0)" in s:
            order.append("seek")
        if "aux.read()" in s:
            order.append("read")
        if "stream.write(" in s:
            order.append("out")
    chk.decide(order == ["write", "seek", "read", "out"], "buffer-rewound-before-reading", fsave.qname, f"statement order {order}: the in-memory buffer "
               f"must be rewound between writing the array and reading it for compression", where=fsave.where)
    # ---- (4) evolution points ---------------------------------------------------------------------------------------------------------------
    ekoc = src.cls("eko.io.struct.EKO")
    for m in ("__getitem__", "__setitem__", "__delitem__", "__contains__"):
        f = ekoc.methods[m]
        t = stmt_text(f.node)
        chk.decide("self.operators" in t and "Target.from_ep(ep)" in t, "point-to-header-map-is-shared", f.qname,
                   "the accessor does not address self.operators through Target.from_ep(ep)", where=f.where, instance=m)
    t = stmt_text(ekoc.methods["__iter__"].node)
    chk.decide("for target in self.operators" in t and "yield target.ep" in t, "point-to-header-map-is-shared", ekoc.methods["__iter__"].qname,
               "iteration no longer yields target.ep for every header", where=ekoc.methods["__iter__"].where, instance="__iter__")
    from .. import dag

    s, n = dag.sym("mu2"), dag.sym("nf")
    tg = pe.apply(pe.getattr(src_cls_ref(pe, "eko.io.items.Target"), "from_ep"), [(s, n)], {})
    back = pe.getattr(tg, "ep")
    chk.decide(isinstance(back, tuple) and back[0] is s and back[1] is n and pe.getattr(tg, "scale") is s and pe.getattr(tg, "nf") is n,
               "point-to-header-map-is-shared", "eko.io.items.Target.ep", f"Target.from_ep((mu2, nf)).ep = {back}: not the identity",
               where=src.cls("eko.io.items.Target").where, instance="inverse", how="PE")
    # ---- (5) metadata --------------------------------------------------------------------------------------------------------------------------
    md = src.cls("eko.io.metadata.Metadata")
    hidden = [k for k in md.fields() if k.startswith("_")]
    chk.decide(hidden == ["_path"], "metadata-drops-only-the-path", md.qname, f"underscore fields {hidden}: they are not serialised", where=md.where)
    t = stmt_text(md.methods["raw"].node)
    pr = stmt_text(src.func("eko.io.dictlike.DictLike.public_raw").node)
    chk.decide("return self.public_raw" in t and "for k, v in self._raw().items() if not k.startswith('_')" in pr, "metadata-drops-only-the-path", md.qname,
               "Metadata.raw is no longer all public fields of _raw()", where=md.where, instance="raw")
    t = stmt_text(src.func("eko.io.dictlike.DictLike._raw").node)
    chk.decide("for field in dataclasses.fields(self)" in t and "dictionary[field.name] = raw_field(getattr(self, field.name))" in t,
               "metadata-drops-only-the-path", "eko.io.dictlike.DictLike._raw", "_raw no longer serialises every dataclass field", instance="_raw")
    # metadata edits are persisted: every setter of the EKO that changes the metadata writes it to disk AFTER the change
    n_set = 0
    for mname, m in ekoc.methods.items():
        if "setter" not in mname:
            continue
        attr = mname.split("@")[0]
        n_set += 1
        pes = PE(src)
        seen = []
        pes.overrides["eko.io.metadata.Metadata.update"] = lambda p, a, k, seen=seen, attr=attr: seen.append(a[0].attrs.get(attr))
        acc = Obj(src.cls("eko.io.access.AccessConfigs"))
        acc.attrs.update(path="P", readonly=False, open=True)
        mdo = Obj(md)
        mdo.attrs.update({attr: dag.sym("old"), "_path": "DIR"})
        eo = Obj(ekoc)
        eo.attrs.update(metadata=mdo, access=acc)
        new = dag.sym("new")
        try:
            pes.apply(pes.getattr(eo, mname) if False else _bound(pes, eo, m), [new], {})
        except PERaise as e:
            chk.fail("metadata-edits-are-persisted", m.qname, f"setter raises {e}", where=m.where, instance=attr)
            continue
        chk.decide(mdo.attrs.get(attr) is new and seen and seen[-1] is new, "metadata-edits-are-persisted", m.qname,
                   f"after `eko.{attr} = value` the object holds {mdo.attrs.get(attr)} and the metadata file was written with {seen}: the write must "
                   f"follow the change, otherwise the archive keeps the previous value", where=m.where, instance=attr, how="PE with recording Metadata.update")
    chk.floor("metadata setters", n_set, 1)
    # ---- (6) archive -------------------------------------------------------------------------------------------------------------------------------
    fd = ekoc.methods["dump"]
    t = stmt_text(fd.node)
    chk.decide("tar.add(self.metadata.path, arcname='.')" in t, "archive-holds-the-whole-directory", fd.qname, "dump no longer adds the working "
               "directory as '.'", where=fd.where)
    fr = ekoc.methods["read"]
    t = stmt_text(fr.node)
    chk.decide("raw.safe_extractall(tar, dir_)" in t and "cls.load(dir_)" in t, "archive-holds-the-whole-directory", fr.qname,
               "read no longer extracts everything and loads from that directory", where=fr.where, instance="read")
    fl = ekoc.methods["load"]
    t = stmt_text(fl.node)
    chk.decide("loaded.operators.sync()" in t and "Metadata.load(path)" in t and "**inventories(path, access)" in t, "archive-holds-the-whole-directory",
               fl.qname, "load no longer syncs the operator headers / reads metadata from the directory", where=fl.where, instance="load")
    chk.note(yaml_sites=len(calls), files=["src/eko/io/inventory.py", "src/eko/io/items.py", "src/eko/io/struct.py", "src/eko/io/metadata.py",
                                           "src/eko/io/paths.py"])
    chk.explanation = "Pairing tables for YAML, names, array members, compression, point<->header map, metadata and archive."


def _bound(pe, obj, m):
    from ..pe import Bound, Closure

    return Bound(obj, Closure(m, m.node, None, m.module, m.qname))


def src_cls_ref(pe, qname):
    from ..pe import ClassRef

    return ClassRef(pe.src.cls(qname))
