"""C36 - EKO archives round-trip all their content (writer/reader agreement of every stored piece)."""
from __future__ import annotations

import ast
import itertools
from fractions import Fraction

from .. import effects as E
from ..pe import PE, Obj, PERaise
from ..src import load, stmt_text

LEVEL = "proof"
META = {
    "text": "A round trip can only lose or corrupt content where a writer and its reader disagree. The repository's own writers and "
            "readers are partially evaluated on a MODEL FILE SYSTEM (sa/fsmodel.py: paths bound to a dict of files, streams with a "
            "position, np.save/savez, lz4, yaml and tarfile producing and accepting structured tokens exactly as the libraries "
            "accept them). Decided: (1) STORE: for six histories (store with / without errors, overwrite switching the format in "
            "either direction, overwrite after re-opening the directory, overwrite after unloading) and three kinds of evolution "
            "point (built-in numbers, symbolic, NumPy scalars), a FRESH Inventory that only sees the directory returns the last "
            "stored operator and error arrays, element by element, under the same point - this covers file names and extension "
            "tables, the choice of container, member names, compression pairing, the rewind of the in-memory buffer, header "
            "serialisation (NumPy scalars included) and sync/lookup. (2) EKO LEVEL: points stored through the item interface are "
            "found again (membership, iteration, item access, items() loading and unloading) by a fresh object on the directory "
            "and, after dump(), by read() of the archive, which works in a new extraction directory, read-only and bound to the "
            "archive; dump leaves no temporary file. (3) METADATA: update() writes one plain-data document with exactly the public "
            "fields; `_path` is the only hidden field; every metadata setter of the EKO writes after the change (recording mock). "
            "(4) YAML: all readers are safe_load; every payload written with the unsafe dumper passed the serialisation "
            "normaliser. (5) the per-stem file invariant shared with C37, and Target.from_ep / Target.ep being mutually inverse."
            " An in-place change of a looked-up operator saved by assigning the same object is read back changed; an edit session opened through a relative path with the working directory changed before close() ends up in the archive that was opened.",
    "note": "Bitwise identity of arrays through numpy/lz4/tar is the libraries' behaviour and enters as the token model; the card and "
            "metadata READ side (from_dict) is decided under C40 and mocked here.",
    "technique": "partial evaluation of the repository's writers and readers on a model file system (structured tokens for numpy/lz4/yaml/tar), element-wise identity of what is read back; sanitizer-to-sink rule for YAML payloads",
    "engine": "sa",
}

INV = "eko.io.inventory"
SANITIZERS = ("raw_field", ".raw", ".public_raw")


def _yaml_calls(src, prefix=("eko.",)):
    out = []
    for q, f in src.funcs.items():
        if not q.startswith(prefix):
            continue
        for c in src.calls_in(f):
            d = src.dotted(c.func) or ""
            if d.startswith("yaml."):
                out.append((f, c, d.split(".", 1)[1]))
    return out


def _expand(expr, fn_node, depth=0):
    """text of expr with local single-assignment names replaced by their definitions"""
    txt = ast.unparse(expr)
    if depth > 3:
        return txt
    for n in ast.walk(expr):
        if isinstance(n, ast.Name):
            defs = [st for st in ast.walk(fn_node) if isinstance(st, ast.Assign) and len(st.targets) == 1
                    and isinstance(st.targets[0], ast.Name) and st.targets[0].id == n.id]
            if len(defs) == 1:
                txt += " <= " + _expand(defs[0].value, fn_node, depth + 1)
    return txt


def run(chk):
    src = load()
    pe = PE(src)
    chk.rule_text = "every stored piece is written and read by agreeing code (names, keys, formats, normalised payloads)"
    # ---- (1) yaml ---------------------------------------------------------------------------------------------------------
    calls = _yaml_calls(src)
    readers = [(f, c, k) for f, c, k in calls if "load" in k]
    writers = [(f, c, k) for f, c, k in calls if "dump" in k]
    chk.floor("yaml readers", len(readers), 5)
    chk.floor("yaml writers", len(writers), 5)
    for f, c, k in readers:
        chk.decide(k == "safe_load", "yaml-readers-are-safe", f.qname, f"`{ast.unparse(c)[:60]}` is not safe_load", where=f"{f.module.relpath}:{c.lineno}",
                   instance=str(c.lineno))
    edges = E.typed_callgraph(src)
    for f, c, k in writers:
        payload = c.args[0]
        text = _expand(payload, f.node)
        ok = k == "safe_dump"
        why = ""
        if not ok:
            # plain dump: payload must be sanitised. Parameter? look at every caller.
            ok = any(s in text for s in SANITIZERS)
            if not ok and isinstance(payload, ast.Name) and payload.id in f.params:
                callers = [(g, cc) for gq, g in src.funcs.items() for cc in src.calls_in(g)
                           if isinstance(src.resolve_call(g, cc, None), type(f)) and src.resolve_call(g, cc, None) is f
                           or (isinstance(cc.func, ast.Attribute) and cc.func.attr == f.node.name and f.cls is not None
                               and f.cls.node.name in ast.unparse(cc.func))]
                vals = []
                for g, cc in callers:
                    for kw in cc.keywords:
                        if kw.arg == payload.id:
                            vals.append(_expand(kw.value, g.node))
                    idx = f.params.index(payload.id) - (1 if f.params[:1] == ["self"] else 0)
                    if idx < len(cc.args):
                        vals.append(_expand(cc.args[idx], g.node))
                ok = bool(vals) and all(any(s in v for s in SANITIZERS) for v in vals)
                why = f" (callers pass {vals})"
        chk.decide(ok, "yaml-payload-is-plain-data", f.qname, f"`{ast.unparse(c)[:70]}` writes with the unsafe dumper a payload that did not pass "
                   f"raw_field/.raw{why}: values that are not plain data get python-specific tags which safe_load rejects",
                   where=f"{f.module.relpath}:{c.lineno}", instance=ast.unparse(payload)[:40])
    fset = src.func(f"{INV}.Inventory.__setitem__")
    # ---- (2) file names ----------------------------------------------------------------------------------------------------------
    pe.overrides[f"{INV}.encode"] = lambda pe_, a, k: "STEM"
    hext = pe.get_global(INV, "HEADER_EXT")
    oext = pe.get_global(INV, "OPERATOR_EXT")
    chk.need(isinstance(hext, str) and isinstance(oext, list) and len(oext) == 2, "extension tables vanished")
    h = Obj(src.cls("eko.io.items.Target"))
    h.attrs.update(scale=1.0, nf=4)
    names = {err: pe.call(f"{INV}.operator_name", [h, err]) for err in (False, True)}
    hname = pe.call(f"{INV}.header_name", [h])
    import pathlib

    for err, nm in names.items():
        suff = "".join(pathlib.PurePath(nm).suffixes)
        chk.decide(nm.startswith("STEM") and suff in oext and (".npz" in suff) == err, "names-written-are-names-read", f"{INV}.operator_name",
                   f"operator_name(err={err}) = {nm!r}: not found by lookup (extensions {oext}) or wrong container for the format",
                   where=src.func(f"{INV}.operator_name").where, instance=f"err={err}", how="PE")
    chk.decide(names[False] != names[True], "names-written-are-names-read", f"{INV}.operator_name", "both formats share one name", instance="distinct")
    chk.decide(hname == "STEM" + hext and pathlib.PurePath(hname).suffix == hext, "names-written-are-names-read", f"{INV}.header_name",
               f"header_name = {hname!r} is not matched by sync/lookup (suffix {hext})", where=src.func(f"{INV}.header_name").where, how="PE")
    # overwriting must not leave two operator files for one header (lookup would then refuse to read): rule shared with C37
    from .c37 import fs_invariant

    fs_invariant(chk, src, PE(src))
    _roundtrip(chk, src)
    _roundtrip_archive(chk, src)
    _header_file(chk, src)
    # ---- (3) arrays, compression, buffer handling, (2b) lookup / sync: decided semantically by the round trips below --------------
    # ---- (4) evolution points ---------------------------------------------------------------------------------------------------------------
    ekoc = src.cls("eko.io.struct.EKO")
    from .. import dag

    s, n = dag.sym("mu2"), dag.sym("nf")
    tg = pe.apply(pe.getattr(src_cls_ref(pe, "eko.io.items.Target"), "from_ep"), [(s, n)], {})
    back = pe.getattr(tg, "ep")
    chk.decide(isinstance(back, tuple) and back[0] is s and back[1] is n and pe.getattr(tg, "scale") is s and pe.getattr(tg, "nf") is n,
               "point-to-header-map-is-shared", "eko.io.items.Target.ep", f"Target.from_ep((mu2, nf)).ep = {back}: not the identity",
               where=src.cls("eko.io.items.Target").where, instance="inverse", how="PE")
    # ---- (5) metadata --------------------------------------------------------------------------------------------------------------------------
    md = src.cls("eko.io.metadata.Metadata")
    hidden = [k for k in md.fields() if k.startswith("_")]
    chk.decide(hidden == ["_path"], "metadata-drops-only-the-path", md.qname, f"underscore fields {hidden}: they are not serialised", where=md.where)
    # metadata edits are persisted: every setter of the EKO that changes the metadata writes it to disk AFTER the change
    n_set = 0
    for mname, m in ekoc.methods.items():
        if "setter" not in mname:
            continue
        attr = mname.split("@")[0]
        n_set += 1
        pes = PE(src)
        seen = []
        pes.overrides["eko.io.metadata.Metadata.update"] = lambda p, a, k, seen=seen, attr=attr: seen.append(a[0].attrs.get(attr))
        acc = Obj(src.cls("eko.io.access.AccessConfigs"))
        acc.attrs.update(path="P", readonly=False, open=True)
        mdo = Obj(md)
        mdo.attrs.update({attr: dag.sym("old"), "_path": "DIR"})
        eo = Obj(ekoc)
        eo.attrs.update(metadata=mdo, access=acc)
        new = dag.sym("new")
        try:
            pes.apply(pes.getattr(eo, mname) if False else _bound(pes, eo, m), [new], {})
        except PERaise as e:
            chk.fail("metadata-edits-are-persisted", m.qname, f"setter raises {e}", where=m.where, instance=attr)
            continue
        chk.decide(mdo.attrs.get(attr) is new and seen and seen[-1] is new, "metadata-edits-are-persisted", m.qname,
                   f"after `eko.{attr} = value` the object holds {mdo.attrs.get(attr)} and the metadata file was written with {seen}: the write must "
                   f"follow the change, otherwise the archive keeps the previous value", where=m.where, instance=attr, how="PE with recording Metadata.update")
    chk.floor("metadata setters", n_set, 1)
    # ---- (6) archive: decided semantically (_roundtrip_archive) ------------------------------------------------------------------
    chk.note(yaml_sites=len(calls), files=["src/eko/io/inventory.py", "src/eko/io/items.py", "src/eko/io/struct.py", "src/eko/io/metadata.py",
                                           "src/eko/io/paths.py"])
    chk.explanation = "Pairing tables for YAML, names, array members, compression, point<->header map, metadata and archive."


def _bound(pe, obj, m):
    from ..pe import Bound, Closure

    return Bound(obj, Closure(m, m.node, None, m.module, m.qname))


def src_cls_ref(pe, qname):
    from ..pe import ClassRef

    return ClassRef(pe.src.cls(qname))


def _roundtrip(chk, src):
    """The repository's own writer and reader, evaluated on a model file system (sa/fsmodel.py): what is stored through one
    Inventory object must come back - the same operator and error arrays under the same evolution point - through a FRESH object
    that only sees the directory, for operators with and without errors, for points given as built-in numbers and as NumPy
    scalars, and across overwrites that switch between the two formats."""
    from .. import dag, fsmodel
    from ..arr import Arr
    from ..pe import ClassRef

    tcls = src.cls("eko.io.items.Target")
    ocls = src.cls("eko.io.items.Operator")
    icls = src.cls(f"{INV}.Inventory")
    acls = src.cls("eko.io.access.AccessConfigs")
    n_rt = 0

    def arr(tag):
        return Arr.from_nested([[[[dag.sym(f"{tag}_{a}{i}{b}{j}") for j in range(2)] for b in range(2)] for i in range(2)] for a in range(2)])

    def same(x, y):
        if x is None or y is None:
            return x is None and y is None
        return isinstance(x, Arr) and isinstance(y, Arr) and x.shape == y.shape and all(a is b for a, b in zip(x.flat(), y.flat()))

    def inventory(pe, fs):
        inv = Obj(icls)
        acc = Obj(acls)
        acc.attrs.update(path=fs.path("/eko"), readonly=False, open=True)
        inv.attrs.update(path=fs.path("/eko/operators"), access=acc, header_type=ClassRef(tcls), cache={}, contentless=False, name="operators")
        return inv

    def header(scale, nf):
        h = Obj(tcls)
        h.attrs.update(scale=scale, nf=nf)
        return h

    def operator(tag, with_err):
        o = Obj(ocls)
        o.attrs.update(operator=arr(tag), error=arr(tag + "e") if with_err else None)
        return o

    finv = icls.methods["__setitem__"]
    histories = [
        ("plain", [("set", "A", True)]),
        ("no-error", [("set", "A", False)]),
        ("error-then-none", [("set", "A", True), ("set", "B", False)]),
        ("none-then-error", [("set", "A", False), ("set", "B", True)]),
        ("overwrite-after-reopen", [("set", "A", True), ("reopen",), ("set", "B", False)]),
        ("overwrite-after-unload", [("set", "A", False), ("unload",), ("set", "B", True)]),
    ]
    scales = [("builtin", Fraction(25), 4), ("symbolic", dag.sym("mu2"), 5), ("numpy-scalars", fsmodel.NpScalar(Fraction(9)), fsmodel.NpScalar(4, "int64"))]
    for (hname, hist), (sname, scale, nf) in itertools.product(histories, scales):
        inst = f"{hname},{sname}"
        fs = fsmodel.FS()
        fs.path("/eko/operators").mkdir(parents=True)
        pe = PE(src)
        fsmodel.install(pe, fs)
        inv = inventory(pe, fs)
        h = header(scale, nf)
        last = None
        try:
            for step in hist:
                if step[0] == "set":
                    last = operator(step[1], step[2])
                    pe.apply(_bound(pe, inv, finv), [h, last], {})
                elif step[0] == "reopen":
                    inv = inventory(pe, fs)
                    pe.apply(_bound(pe, inv, icls.methods["sync"]), [], {})
                elif step[0] == "unload":
                    pe.apply(_bound(pe, inv, icls.methods["__delitem__"]), [h], {})
            # a fresh object that only sees the directory
            inv2 = inventory(pe, fs)
            pe.apply(_bound(pe, inv2, icls.methods["sync"]), [], {})
            keys = list(inv2.attrs["cache"])
            plain_scale = scale.value if isinstance(scale, fsmodel.NpScalar) else scale
            plain_nf = nf.value if isinstance(nf, fsmodel.NpScalar) else nf
            def eqv(x, y):
                if isinstance(x, dag.Node) or isinstance(y, dag.Node):     # symbolic scales: equal as expressions
                    try:
                        return dag.is_zero_fp([dag.sub(dag.tonode(x), dag.tonode(y))], chk.seed, 2)[0]
                    except Exception:
                        return False
                return pe.truth(pe.compare(ast.Eq(), x, y))

            okk = len(keys) == 1 and isinstance(keys[0], Obj) and keys[0].cls is tcls \
                and eqv(keys[0].attrs.get("scale"), plain_scale) and eqv(keys[0].attrs.get("nf"), plain_nf)
            got = pe.apply(_bound(pe, inv2, icls.methods["__getitem__"]), [keys[0] if okk else h], {}) if keys else None
            oko = isinstance(got, Obj) and same(got.attrs.get("operator"), last.attrs["operator"]) and same(got.attrs.get("error"), last.attrs["error"])
            detail = f"headers found {[(str(k.attrs.get('scale')), str(k.attrs.get('nf'))) for k in keys if isinstance(k, Obj)]}, files {fs.names('/eko/operators')}"
            ok, msg = okk and oko, detail
        except PERaise as e:
            ok, msg = False, f"raises {e}; files {fs.names('/eko/operators')}"
        n_rt += 1
        chk.decide(ok, "stored-operators-read-back-through-a-fresh-object", finv.qname,
                   f"{inst}: after the history {[s[0] + (':' + ('err' if s[2] else 'noerr') if s[0] == 'set' else '') for s in hist]} a fresh Inventory on "
                   f"the same directory does not return the last stored operator and error under the same evolution point ({msg})",
                   where=finv.where, instance=inst, how="PE of writer and reader on a model file system")
    chk.floor("round trips on the model file system", n_rt, 18)


def _header_file(chk, src):
    """what Inventory.__setitem__ writes for a header: the fields themselves (shared evaluation with C54's writer table)"""
    from .c54 import _python_writer_table

    fset = src.func(f"{INV}.Inventory.__setitem__")
    hd = _python_writer_table(src).get("header")
    chk.decide(isinstance(hd, tuple) and isinstance(hd[1], dict) and hd[1].get("scale") == Fraction(9) and hd[1].get("nf") == 4 and set(hd[1]) == {"scale", "nf"},
               "header-file-holds-the-header-fields", fset.qname,
               f"the header (scale = 9, nf = 4) is written as {hd[1] if isinstance(hd, tuple) else hd}; required: the field values themselves - any "
               f"transformation on the way to the file (a square root squared again on reading, say) is not exact in floating point: the point read "
               f"back is then another one, or its operator file is not found", where=fset.where, how="PE on a model file system")


def _roundtrip_archive(chk, src):
    """EKO level, same model file system: operators stored through the EKO item interface are found again - membership,
    iteration, item access - by a fresh EKO on the same directory, and after dump() by EKO.read() of the archive (which extracts
    into a new directory and loads from there).  Metadata.load is a mock here (the card/metadata field round trip is C40's); the
    metadata WRITER is evaluated: update() stores exactly the public fields."""
    from .. import dag, fsmodel
    from ..arr import Arr
    from ..pe import ClassRef

    ekoc = src.cls("eko.io.struct.EKO")
    mdc = src.cls("eko.io.metadata.Metadata")
    acls = src.cls("eko.io.access.AccessConfigs")
    ocls = src.cls("eko.io.items.Operator")

    def arr(tag):
        return Arr.from_nested([[[[dag.sym(f"{tag}_{a}{i}{b}{j}") for j in range(2)] for b in range(2)] for i in range(2)] for a in range(2)])

    def same(x, y):
        if x is None or y is None:
            return x is None and y is None
        return isinstance(x, Arr) and isinstance(y, Arr) and x.shape == y.shape and all(a is b for a, b in zip(x.flat(), y.flat()))

    def operator(tag, with_err):
        o = Obj(ocls)
        o.attrs.update(operator=arr(tag), error=arr(tag + "e") if with_err else None)
        return o

    fs = fsmodel.FS()
    pe = PE(src)
    fsmodel.install(pe, fs)

    def metadata(path):
        m = Obj(mdc)
        m.attrs.update(origin=(Fraction(2), 4), xgrid="XGRID", _path=path, version="0.0.0", data_version=3)
        return m

    pe.overrides["eko.io.metadata.Metadata.load"] = lambda p_, a, k: metadata(a[-1] if isinstance(a[-1], fs.Path) else fs.Path(str(a[-1])))
    work = fs.path("/work")
    work.mkdir()
    acc = Obj(acls)
    acc.attrs.update(path=fs.path("/out/archive.tar"), readonly=False, open=True)
    fs.path("/out").mkdir()
    fget = ekoc.methods["__getitem__"]
    try:
        invs = pe.call("eko.io.struct.inventories", [work, acc])
        for inv in invs.values():
            inv.attrs["path"].mkdir(parents=True, exist_ok=True)
        eko = pe.new_object(ekoc, [], dict(invs, metadata=metadata(work), access=acc))
        eps = [(Fraction(100), 5), (Fraction(25), 4), (Fraction(25), 5)]
        ops = {eps[0]: operator("A", True), eps[1]: operator("B", False), eps[2]: operator("C", True)}
        for ep, op in ops.items():
            pe.apply(_bound(pe, eko, ekoc.methods["__setitem__"]), [ep, op], {})
        # an in-place change of a looked-up operator, saved the documented way (assigning the same object again): what is read back
        # later must be the changed arrays
        g = pe.apply(_bound(pe, eko, fget), [eps[0]], {})
        g.attrs["operator"][0, 0, 0, 0] = dag.sym("changed_in_place")
        g.attrs["error"][1, 1, 1, 1] = dag.sym("changed_in_place_error")
        pe.apply(_bound(pe, eko, ekoc.methods["__setitem__"]), [eps[0], g], {})
        ops[eps[0]] = g
        # the metadata writer
        pe.apply(_bound(pe, eko.attrs["metadata"], mdc.methods["update"]), [], {})
        mfiles = [c for p_, c in fs.files.items() if p_.startswith("/work/") and "/" not in p_[len("/work/"):] and isinstance(c, tuple) and c[0] == "yaml"]
        public = sorted(k for k in pe.all_fields(mdc) if not k.startswith("_"))
        chk.decide(len(mfiles) == 1 and sorted(mfiles[0][1]) == public, "metadata-file-holds-every-public-field", mdc.methods["update"].qname,
                   f"Metadata.update() wrote {[sorted(c[1]) if isinstance(c[1], dict) else c[1] for c in mfiles]}; required one plain-data document "
                   f"with the fields {public}", where=mdc.methods["update"].where, how="PE on a model file system")

        def judge(label, e, rule, anchor):
            got_eps = [tuple(x) if isinstance(x, (tuple, list)) else x for x in pe.iterate(e)]
            okm = sorted(map(str, got_eps)) == sorted(map(str, eps)) and all(pe._contains(e, ep) for ep in eps) \
                and not pe._contains(e, (Fraction(25), 3)) and not pe._contains(e, (Fraction(7), 4))
            oko = True
            for ep, op in ops.items():
                g = pe.apply(_bound(pe, e, fget), [ep], {})
                oko = oko and isinstance(g, Obj) and same(g.attrs.get("operator"), op.attrs["operator"]) and same(g.attrs.get("error"), op.attrs["error"])
            chk.decide(okm and oko, rule, anchor.qname, f"{label}: evolution points found {got_eps} (stored {eps}); membership/iteration ok={okm}, "
                       f"every operator and error returned unchanged={oko}", where=anchor.where, instance=label, how="PE on a model file system")

        # a fresh EKO on the same directory
        fresh = pe.new_object(ekoc, [], dict(pe.call("eko.io.struct.inventories", [work, acc]), metadata=metadata(work), access=acc))
        pe.apply(_bound(pe, fresh.attrs["operators"], src.cls(f"{INV}.Inventory").methods["sync"]), [], {})
        judge("fresh object on the directory", fresh, "points-and-operators-found-again", ekoc.methods["__setitem__"])
        # unload everything through items() (loads and unloads), then through the archive
        its = pe.apply(_bound(pe, fresh, ekoc.methods["items"]), [], {})
        loaded_left = [k for k, v in fresh.attrs["operators"].attrs["cache"].items() if v is not None]
        chk.decide(len(list(its)) == 3 and not loaded_left, "points-and-operators-found-again", ekoc.methods["items"].qname,
                   f"items() yields {len(list(its))} pairs and leaves {len(loaded_left)} operator(s) loaded; required all 3, none loaded",
                   where=ekoc.methods["items"].where, instance="items")
        pe.apply(_bound(pe, eko, ekoc.methods["dump"]), [], {})
        tok = fs.files.get("/out/archive.tar")
        chk.decide(isinstance(tok, tuple) and tok[0] == "tar" and not any(n.endswith(".tmp") for n in fs.names("/out")),
                   "archive-holds-the-whole-directory", ekoc.methods["dump"].qname, f"after dump() the output folder holds {fs.names('/out')}",
                   where=ekoc.methods["dump"].where, instance="dump")
        before = set(fs.dirs)
        loaded = pe.apply(pe.getattr(ClassRef(ekoc), "read"), [fs.path("/out/archive.tar")], {})
        newdirs = sorted(d for d in set(fs.dirs) - before)
        judge("read() of the dumped archive", loaded, "archive-holds-the-whole-directory", ekoc.methods["read"])
        lacc = loaded.attrs["access"].attrs
        chk.decide(str(loaded.attrs["metadata"].attrs.get("_path")) != "/work" and newdirs and lacc.get("readonly") is True and str(lacc.get("path")) == "/out/archive.tar",
                   "archive-holds-the-whole-directory", ekoc.methods["read"].qname,
                   f"read() works on {loaded.attrs['metadata'].attrs.get('_path')} (new directories {newdirs[:2]}), readonly={lacc.get('readonly')}, "
                   f"archive path {lacc.get('path')}; required a fresh extraction directory, read-only, bound to the archive",
                   where=ekoc.methods["read"].where, instance="read-state")
        # an edit session opened through a RELATIVE path, the process changing its working directory before the session ends: what was
        # stored in the session must end up in the archive that was opened (the object has to remember where that archive is)
        fs.path("/elsewhere").mkdir()
        fs.cwd = "/out"
        session = pe.apply(pe.getattr(ClassRef(ekoc), "edit"), [fs.path("archive.tar")], {})
        ep_new = (Fraction(400), 5)
        op_new = operator("D", True)
        pe.apply(_bound(pe, session, ekoc.methods["__setitem__"]), [ep_new, op_new], {})
        fs.cwd = "/elsewhere"
        pe.apply(_bound(pe, session, ekoc.methods["close"]), [], {})
        fs.cwd = "/"
        stray = [p_ for p_ in fs.files if p_.startswith("/elsewhere")]
        again = pe.apply(pe.getattr(ClassRef(ekoc), "read"), [fs.path("/out/archive.tar")], {})
        kept = [tuple(x) if isinstance(x, (tuple, list)) else x for x in pe.iterate(again)]
        chk.decide(not stray and sorted(map(str, kept)) == sorted(map(str, eps + [ep_new])), "archive-holds-the-whole-directory", ekoc.methods["read"].qname,
                   f"edit session opened as `archive.tar` from /out, working directory changed to /elsewhere before close(): the archive then holds "
                   f"{[tuple(map(str, k)) if isinstance(k, tuple) else str(k) for k in kept]}, files written elsewhere: {stray}; required: the point stored in the session is in "
                   f"/out/archive.tar and nothing is written elsewhere (the archive path has to be made absolute when the EKO is opened)",
                   where=ekoc.methods["read"].where, instance="relative-path-session", how="PE on a model file system with a working directory")
    except PERaise as e:
        chk.fail("archive-holds-the-whole-directory", ekoc.qname, f"the EKO-level round trip raises {e}; files {sorted(fs.files)[:8]}", where=ekoc.where)
