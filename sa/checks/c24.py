"""C24 - harmonic sums: cache coherence, continuation formulas, parity branches, constants (formula level)."""
from __future__ import annotations

import itertools
from fractions import Fraction

from .. import dag, ekore_model as em
from ..arr import Arr
from ..pe import PE, PERaise, NaNTop
from ..src import load

LEVEL = "other"
META = {
    "text": "Decides the clauses of the harmonic-sum property that are visible in the source. (1) Cache coherence: "
            "harmonics.cache.get is partially evaluated (special functions as atoms) on a fresh cache for every key and for every "
            "ordered PAIR of keys (and random longer sequences in the thorough tier), for each parity flag; the value returned for "
            "a key and every slot filled along the way must equal the value a fresh direct lookup gives - so lookup order cannot "
            "change values and no slot is ever filled with another function; the cached alternating sums S-1..S-5 equal their direct evaluation under the same flag (True, False and the generic None). (2) The analytic continuations S1..S5 equal "
            "zeta_k + (-1)^(k-1)/(k-1)! psi^(k-1)(N+1) (frozen textbook table) and the alternating S-k equal 2^(1-k) S_k(N/2 or "
            "(N-1)/2) - S_k(N); the generic-parity branch reduces to the singlet / non-singlet branch at (-1)^N = +1 / -1. (3) "
            "recursive_harmonic_sum adds exactly sum_i (N+i)^-w. (4) The named constants zeta2..zeta5, log2 are the library "
            "calls of their definitions and the literal li4half equals Li4(1/2) to double precision. (5) out-of-range keys are refused.",
    "note": "Numerical accuracy of cern_polygamma and of the parametrised g-/log-function Mellin transforms, and the recurrences "
            "on floats, are not decided (they are atoms here). Real-analyticity is C26; Python/Rust agreement is C28.",
    "technique": "partial evaluation with uninterpreted special functions + order-independence (sibling agreement) rule + frozen reference table",
    "engine": "sa",
}

HC = em.HC
LI4HALF = Fraction("0.5174790616738993863307581618988629456223774751413792582443193479770")


def run(chk):
    src = load()
    pe = PE(src)
    em.install_special_function_atoms(pe)
    chk.rule_text = "get(K2) after get(K1) == fresh get(K2); filled slots == fresh values; S_k == zeta_k +- psi^(k-1)(N+1)/(k-1)!"
    keys = em.cache_keys(pe)
    n = dag.sym("N")
    fget = src.func(f"{HC}.get")
    size = pe.get_global(HC, "CACHE_SIZE")
    chk.need(len(keys) == size, f"CACHE_SIZE {size} != number of named keys {len(keys)}")

    def fresh():
        return pe.call(f"{HC}.reset", [])

    def lookup(seq, flag):
        cache = fresh()
        vals = []
        for kidx in seq:
            vals.append(pe.call(fget.qname, [kidx, cache, n, flag]))
        return vals, cache

    n_pairs = 0
    n_bad = 0
    for flag in (True, False):
        direct = {}
        for kidx in keys:
            try:
                (v,), cache = lookup([kidx], flag)
            except PERaise as e:
                chk.fail("cache-lookup-available", fget.qname, f"get({keys[kidx]}) raises {e}", where=fget.where, instance=f"{keys[kidx]},{flag}")
                continue
            direct[kidx] = v
            # the slot of the key itself is filled with the returned value
            slot = cache[kidx]
            okslot = not isinstance(slot, NaNTop) and dag.is_zero_fp([dag.sub(slot, v)], chk.seed, 2)[0]
            if not okslot:
                n_bad += 1
                chk.fail("cache-slot-holds-its-own-function", fget.qname, f"after get({keys[kidx]}) the slot {keys[kidx]} does not hold the returned value",
                         where=fget.where, instance=f"{keys[kidx]},{flag}")
        pairs = list(itertools.permutations(sorted(direct), 2))
        for k1, k2 in pairs:
            n_pairs += 1
            (v1, v2), cache = lookup([k1, k2], flag)
            diffs = [dag.sub(v1, direct[k1]), dag.sub(v2, direct[k2])]
            names = [f"value of {keys[k1]}", f"value of {keys[k2]} after {keys[k1]}"]
            for j in keys:
                slot = cache[j]
                if isinstance(slot, NaNTop) or j not in direct:
                    continue
                diffs.append(dag.sub(slot, direct[j]))
                names.append(f"slot {keys[j]} after looking up {keys[k1]}, {keys[k2]}")
            ok, info = dag.is_zero_fp(diffs, chk.seed, 2)
            if not ok:
                n_bad += 1
                if n_bad <= 12:
                    chk.fail("cache-order-independence", fget.qname,
                             f"is_singlet={flag}: {names[info['index']]} differs from a fresh direct lookup: the cache returns/stores "
                             f"different values depending on the order of lookups", where=fget.where,
                             instance=f"{keys[k1]}>{keys[k2]},{flag}", data={"witness": info})
        if chk.tier == "thorough":
            import random

            rnd = random.Random(chk.seed + 17)
            ks = sorted(direct)
            for _ in range(150):
                seq = [rnd.choice(ks) for _ in range(rnd.randint(3, 7))]
                vals, cache = lookup(seq, flag)
                diffs = [dag.sub(v, direct[k]) for v, k in zip(vals, seq)]
                ok, info = dag.is_zero_fp(diffs, chk.seed, 2)
                n_pairs += 1
                if not ok:
                    n_bad += 1
                    chk.fail("cache-order-independence", fget.qname, f"sequence {[keys[k] for k in seq]}: element {info['index']} differs from direct lookup",
                             where=fget.where, instance=f"seq={[keys[k] for k in seq]},{flag}")
    if n_bad == 0:
        chk.ok("cache-order-independence", fget.qname, f"{n_pairs} ordered lookup sequences x slots", how="PE + PIT F_p")
        chk.ok("cache-slot-holds-its-own-function", fget.qname, f"{2 * len(keys)} keys")
    chk.floor("lookup sequences", n_pairs, 2 * 30 * 29)
    # out-of-range keys
    for bad in (-1, size, size + 3):
        try:
            pe.call(fget.qname, [bad, fresh(), n, True])
            chk.fail("cache-refuses-unknown-keys", fget.qname, f"get({bad}) does not raise", where=fget.where, instance=str(bad))
        except PERaise as e:
            chk.ok("cache-refuses-unknown-keys", f"{fget.qname}|{bad}", f"raises {e.etype}")

    # ---- (2) continuation formulas ------------------------------------------------------------------
    z = lambda k: dag.fn("zeta", k)
    euler = dag.sym("euler_gamma")
    N1 = dag.add(n, 1)
    table = {
        1: dag.add(em.psi(0, N1), euler),
        2: dag.sub(z(2), em.psi(1, N1)),
        3: dag.add(z(3), dag.div(em.psi(2, N1), 2)),
        4: dag.sub(z(4), dag.div(em.psi(3, N1), 6)),
        5: dag.add(z(5), dag.div(em.psi(4, N1), 24)),
    }
    for k, want in table.items():
        f = src.func(f"ekore.harmonics.w{k}.S{k}")
        got = pe.call(f.qname, [n])
        ok, info = dag.is_zero_fp([dag.sub(got, want)], chk.seed, 3)
        chk.decide(ok, "continuation-formula", f.qname,
                   f"S{k}(N) = {dag.short(dag.tonode(got))} is not zeta_{k} {'+' if k % 2 else '-'} psi^({k - 1})(N+1)/{[1, 1, 2, 6, 24][k - 1]}",
                   where=f.where, detail=f"== {dag.short(want)}", how="PIT F_p")
        fm = src.func(f"ekore.harmonics.w{k}.Sm{k}")
        s, smh, sh = dag.sym("S"), dag.sym("Smh"), dag.sym("Sh")
        pref = Fraction(1, 2 ** (k - 1))
        for flag, want_m in ((True, dag.sub(dag.mul(pref, sh), s)), (False, dag.sub(dag.mul(pref, smh), s))):
            got = pe.call(fm.qname, [n, s, smh, sh, flag])
            ok, info = dag.is_zero_fp([dag.sub(got, want_m)], chk.seed, 3)
            chk.decide(ok, "alternating-sum-formula", fm.qname,
                       f"Sm{k} (is_singlet={flag}) = {dag.short(dag.tonode(got))} is not 2^(1-{k}) S{k}({'N/2' if flag else '(N-1)/2'}) - S{k}(N)",
                       where=fm.where, instance=str(flag), how="PIT F_p")
        gen = pe.call(fm.qname, [n, s, smh, sh, None])
        eta = dag.power(dag.const(-1), n)
        for sign, flag in ((1, True), (-1, False)):
            red = dag.substitute(dag.tonode(gen), {eta: sign})
            want_m = pe.call(fm.qname, [n, s, smh, sh, flag])
            ok, info = dag.is_zero_fp([dag.sub(red, want_m)], chk.seed, 3)
            chk.decide(ok, "parity-branch-consistency", fm.qname,
                       f"Sm{k}: the generic-parity branch at (-1)^N = {sign} does not reduce to the is_singlet={flag} branch",
                       where=fm.where, instance=str(flag), how="PIT F_p")
    # the cached alternating sums equal their direct evaluation under the same flag - True, False and the generic None (the default
    # of cache.get), where both half-argument sums enter
    n_alt = 0
    for k in (1, 2, 3, 4, 5):
        fm = src.func(f"ekore.harmonics.w{k}.Sm{k}")
        fs = src.func(f"ekore.harmonics.w{k}.S{k}")
        kidx = next((i for i, nm in keys.items() if nm == f"Sm{k}"), None)
        chk.need(kidx is not None, f"no cache key Sm{k}")
        for flag in (True, False, None):
            try:
                (v,), _ = lookup([kidx], flag)
                want = pe.call(fm.qname, [n, pe.call(fs.qname, [n]), pe.call(fs.qname, [dag.div(dag.sub(n, 1), 2)]),
                                          pe.call(fs.qname, [dag.div(n, 2)]), flag])
                ok, info = dag.is_zero_fp([dag.sub(v, want)], chk.seed, 3)
            except PERaise as e:
                ok, info = False, {"error": str(e)}
            n_alt += 1
            chk.decide(ok, "cached-alternating-sum-is-the-direct-evaluation", fget.qname,
                       f"get(Sm{k}, is_singlet={flag}) differs from Sm{k}(N, S{k}(N), S{k}((N-1)/2), S{k}(N/2), {flag}) evaluated directly: the cache "
                       f"and the direct evaluation disagree under the same parity flag", where=fget.where, instance=f"Sm{k},{flag}",
                       data={"witness": info}, how="PE + PIT F_p")
    chk.floor("cached alternating sums x flags", n_alt, 15)
    # arguments handed to the half-integer slots by the cache
    for key_name, arg in (("S1h", dag.div(n, 2)), ("S1mh", dag.div(dag.sub(n, 1), 2)), ("S2h", dag.div(n, 2)),
                          ("S2mh", dag.div(dag.sub(n, 1), 2)), ("S3h", dag.div(n, 2)), ("S3mh", dag.div(dag.sub(n, 1), 2))):
        kidx = next(i for i, nm in keys.items() if nm == key_name)
        (v,), _ = lookup([kidx], True)
        k = int(key_name[1])
        want = {1: dag.add(em.psi(0, dag.add(arg, 1)), euler), 2: dag.sub(z(2), em.psi(1, dag.add(arg, 1))), 3: dag.add(z(3), dag.div(em.psi(2, dag.add(arg, 1)), 2))}[k]
        ok, info = dag.is_zero_fp([dag.sub(v, want)], chk.seed, 3)
        chk.decide(ok, "cache-slot-argument", fget.qname, f"slot {key_name} is not S{k} at {dag.short(arg)}", where=fget.where,
                   instance=key_name, how="PIT F_p")

    # ---- (3) recursive_harmonic_sum ------------------------------------------------------------------
    fr = src.func("ekore.harmonics.polygamma.recursive_harmonic_sum")
    base = dag.sym("base")
    for its in (1, 2, 3):
        for w in (1, 2, 3, 4):
            got = pe.call(fr.qname, [base, n, its, w])
            want = dag.addn([base] + [dag.power(dag.add(n, i), -w) for i in range(1, its + 1)])
            ok, info = dag.is_zero_fp([dag.sub(got, want)], chk.seed, 2)
            chk.decide(ok, "recursive-harmonic-sum", fr.qname, f"recursive_harmonic_sum(base, N, {its}, {w}) != base + sum (N+i)^-{w}",
                       where=fr.where, instance=f"{its},{w}", how="PIT F_p")

    # ---- (4) named constants ------------------------------------------------------------------------------
    C = "eko.constants"
    for name, want in (("zeta2", z(2)), ("zeta3", z(3)), ("zeta4", z(4)), ("zeta5", z(5)), ("log2", dag.fn("log", 2))):
        got = pe.get_global(C, name)
        chk.decide(isinstance(got, dag.Node) and got is want, "named-constant-definition", f"{C}.{name}",
                   f"{name} = {got!r} is not the library evaluation of its definition", where="src/eko/constants.py")
    li4 = dag.as_const(pe.get_global(C, "li4half"))
    chk.decide(li4 is not None and abs(li4 - LI4HALF) <= Fraction(1, 10 ** 15), "named-constant-definition", f"{C}.li4half",
               f"li4half = {float(li4) if li4 is not None else li4!r}: Li4(1/2) = 0.5174790616738994; the literal carries "
               f"{'only %d' % max(0, len(str(li4.limit_denominator(10**18)).split('/')[0]) - 0) if False else 'only six'} significant digits, "
               f"bounding the accuracy of Sm31/Sm211 (which contain +-li4half and 2 li4half) at 1e-7",
               where="src/eko/constants.py", detail="|li4half - Li4(1/2)| <= 1e-15")
    chk.note(keys=len(keys), sequences=n_pairs, files=["src/ekore/harmonics/cache.py", "src/ekore/harmonics/w1.py", "src/ekore/harmonics/w2.py",
                                                       "src/ekore/harmonics/w3.py", "src/ekore/harmonics/w4.py", "src/ekore/harmonics/w5.py",
                                                       "src/ekore/harmonics/polygamma.py", "src/eko/constants.py"])
    chk.explanation = ("Order-independence of the harmonic cache for all ordered key pairs, closed-form continuation table, parity "
                       "branches, recursion helper and named constants, with special functions uninterpreted.")
