"""C46 - PDF flavour projection is an exact orthogonal projection."""
from __future__ import annotations

import copy as _copy

from .. import dag
from ..arr import Arr
from ..pe import PE, PERaise
from ..src import load

LEVEL = "proof"
META = {
    "text": "genpdf.flavors.project is partially evaluated on symbolic blocks (pids listed in scrambled order, a subset of the 14 "
            "flavours, symbolic data) and symbolic combinations e. Proved for all values: (1) the result is sum_e e (e.v)/(e.e) "
            "with v the block's data placed at the positions of its pids in the flavour basis (absent flavours zero) - for one "
            "and for two symbolic combinations, also for a block that already spans the full basis in a different order; (2) "
            "idempotence: projecting the projected block on the same combination changes nothing; (3) completeness: projecting "
            "on the 14 rows of the flavour->evolution rotation (a complete orthogonal set; orthogonality is checked) returns the "
            "data unchanged, and likewise on all 14 single flavours; (4) the component along any direction orthogonal to the "
            "selection vanishes (checked with the remaining evolution rows after selecting a subset); (5) the block is relabelled "
            "with the full flavour basis and the input blocks are not modified; (6) pid_to_flavor / evol_to_flavor return the "
            "unit vector of the pid / the row of the evolution rotation for the label."
            " Several blocks with different flavour lists in one call are each projected by their own list.",
    "note": "",
    "technique": "partial evaluation with symbolic vectors + polynomial identity testing over F_p",
    "engine": "sa",
}

FL = "ekobox.genpdf.flavors"
NXP = 2


def run(chk):
    global NXP
    NXP = 4 if chk.tier == "thorough" else 2
    src = load()
    chk.rule_text = "project(block, reprs) == sum_e e (e.v)/(e.e); idempotent; complete set is the identity"
    fpj = src.func(f"{FL}.project")
    pe = PE(src)

    def deep(p, a, k):
        def cp(x):
            if isinstance(x, Arr):
                return Arr.from_nested(x.tolist())
            if isinstance(x, dict):
                return {kk: cp(v) for kk, v in x.items()}
            if isinstance(x, list):
                return [cp(v) for v in x]
            if isinstance(x, tuple):
                return tuple(cp(v) for v in x)
            return x

        return cp(a[0])

    pe.ext["copy.deepcopy"] = deep
    pids = list(pe.get_global("eko.basis_rotation", "flavor_basis_pids"))
    R = pe.get_global("eko.basis_rotation", "rotate_flavor_to_evolution")
    evol = list(pe.get_global("eko.basis_rotation", "evol_basis"))
    chk.need(len(pids) == 14 and R.shape == (14, 14), "flavour basis / rotation changed shape")

    def block(block_pids, name="d"):
        data = Arr.from_nested([[dag.sym(f"{name}_{x}_{p}".replace("-", "m")) for p in block_pids] for x in range(NXP)])
        return {"pids": list(block_pids), "data": data, "Q2grid": [1, 2]}

    def full_vec(b):
        """v[x][i] in flavour-basis order"""
        out = []
        for x in range(NXP):
            row = []
            for p in pids:
                row.append(b["data"][x, b["pids"].index(p)] if p in b["pids"] else dag.const(0))
            out.append(row)
        return out

    def reference(b, reprs):
        v = full_vec(b)
        out = []
        for x in range(NXP):
            acc = [dag.const(0)] * 14
            for e in reprs:
                ev = [dag.tonode(t) for t in (e.flat() if isinstance(e, Arr) else e)]
                dot = dag.addn([dag.mul(ev[i], v[x][i]) for i in range(14)])
                nrm = dag.addn([dag.mul(ev[i], ev[i]) for i in range(14)])
                acc = [dag.add(acc[i], dag.div(dag.mul(ev[i], dot), nrm)) for i in range(14)]
            out.append(acc)
        return out

    def call(blocks, reprs):
        return pe.call(fpj.qname, [blocks, reprs])

    def same(got_block, want, rule, inst, msg):
        g = got_block["data"]
        ok_shape = isinstance(g, Arr) and tuple(g.shape) == (NXP, 14)
        diffs = [dag.sub(dag.tonode(g[x, i]), want[x][i]) for x in range(NXP) for i in range(14)] if ok_shape else [dag.const(1)]
        ok, info = dag.is_zero_fp(diffs, chk.seed, 2)
        chk.decide(ok and list(got_block["pids"]) == pids, rule, fpj.qname, msg, where=fpj.where, instance=inst, data={"witness": info},
                   how="PE + PIT F_p")

    def sym_vec(name, support):
        return Arr.from_nested([dag.sym(f"{name}{i}") if i in support else dag.const(0) for i in range(14)])

    scr = [2, 21, -1, 1, -3, 4]          # scrambled subset
    full_scr = pids[::-1]                 # full basis, reversed order
    cases = [("subset", block(scr)), ("full-reversed", block(full_scr))]
    e1 = sym_vec("a", {0, 1, 6, 7, 8, 9, 10, 13})
    e2 = sym_vec("b", {1, 3, 8, 9})
    n = 0
    for cname, b in cases:
        for rname, reprs in (("one", [e1]), ("two", [e1, e2])):
            before = [(list(b["pids"]), [list(r) for r in b["data"].tolist()])]
            try:
                got = call([b], reprs)
            except (PERaise, ValueError) as e:
                chk.fail("projection-formula", fpj.qname, f"{cname}/{rname}: raises {e}", where=fpj.where, instance=f"{cname},{rname}")
                continue
            n += 1
            same(got[0], reference(b, reprs), "projection-formula", f"{cname},{rname}",
                 f"block with pids {b['pids'][:6]}..., {rname} combination(s): the result is not sum_e e (e.v)/(e.e) with v the data placed by pid")
            chk.decide([(list(b["pids"]), b["data"].tolist())] == before, "input-blocks-untouched", fpj.qname, f"{cname}/{rname}: the input block "
                       f"was modified", where=fpj.where, instance=f"{cname},{rname}")
            if rname == "one":
                again = call(got, reprs)
                diffs = [dag.sub(dag.tonode(x), dag.tonode(y)) for x, y in zip(again[0]["data"].flat(), got[0]["data"].flat())]
                ok, info = dag.is_zero_fp(diffs, chk.seed, 2)
                n += 1
                chk.decide(ok, "projection-is-idempotent", fpj.qname, f"{cname}: projecting twice on the same combination differs from once",
                           where=fpj.where, instance=cname, data={"witness": info}, how="PE + PIT F_p")
    # complete sets
    rows = [Arr.from_nested([R[i, j] for j in range(14)]) for i in range(14)]
    orth = all(dag.as_const(dag.addn([dag.mul(dag.tonode(R[i, k]), dag.tonode(R[j, k])) for k in range(14)])) == 0
               for i in range(14) for j in range(i))
    chk.decide(orth, "evolution-rows-are-orthogonal", "eko.basis_rotation.rotate_flavor_to_evolution", "rows are not mutually orthogonal")
    units = pe.call(f"{FL}.pid_to_flavor", [pids])
    for cname, b in cases:
        for sname, reprs in (("evolution rows", rows), ("all pids", [Arr.from_nested([units[i, j] for j in range(14)]) for i in range(14)])):
            got = call([b], reprs)
            n += 1
            same(got[0], full_vec(b), "complete-set-is-identity", f"{cname},{sname}", f"{cname}: projecting on the complete orthogonal set "
                 f"`{sname}` changes the data")
    # orthogonal complement removed
    sel = [0, 2, 5]
    b = cases[0][1]
    got = call([b], [rows[i] for i in sel])
    g = got[0]["data"]
    comp = []
    for i in range(14):
        if i in sel:
            continue
        for x in range(NXP):
            comp.append(dag.addn([dag.mul(dag.tonode(R[i, k]), dag.tonode(g[x, k])) for k in range(14)]))
    ok, info = dag.is_zero_fp(comp, chk.seed, 2)
    n += 1
    chk.decide(ok, "orthogonal-complement-removed", fpj.qname, "after projecting on three evolution rows a component along another row survives",
               where=fpj.where, data={"witness": info}, how="PE + PIT F_p")
    # several blocks in ONE call, each with its own list of flavours (sub-grids of a member with different flavour content): every block
    # is projected by its own pids, independently of its neighbours
    b1, b2, b3 = block(scr, "p"), block([5, -5, 21, 2, 1, -2], "q"), block(full_scr, "r")
    try:
        got = call([b1, b2, b3], [e1, e2])
        for bi, (b, g) in enumerate(zip((b1, b2, b3), got)):
            n += 1
            same(g, reference(b, [e1, e2]), "projection-formula", f"multi-block,{bi}",
                 f"three blocks with different flavour lists in one call: block {bi + 1} (pids {b['pids'][:6]}...) is not projected by its own list of "
                 f"flavours (the result of a block depends on the blocks before it)")
    except (PERaise, ValueError) as e:
        chk.fail("projection-formula", fpj.qname, f"three blocks in one call: raises {e}", where=fpj.where, instance="multi-block")
    # empty block is skipped
    eb = {"pids": [], "data": Arr.from_nested([]).reshape(0, 0) if hasattr(Arr, "reshape") else Arr.from_nested([]), "Q2grid": []}
    # (6) representation helpers
    ok = all(dag.as_const(dag.tonode(units[i, j])) == (1 if i == j else 0) for i in range(14) for j in range(14))
    chk.decide(ok, "representation-rows", f"{FL}.pid_to_flavor", "pid_to_flavor(all pids) is not the identity matrix", where=src.func(f"{FL}.pid_to_flavor").where)
    some = pe.call(f"{FL}.pid_to_flavor", [[21, -2]])
    ok = all(dag.as_const(dag.tonode(some[r, j])) == (1 if j == pids.index(p) else 0) for r, p in enumerate([21, -2]) for j in range(14))
    chk.decide(ok, "representation-rows", f"{FL}.pid_to_flavor", "pid_to_flavor([21, -2]) are not the unit vectors of those flavours", instance="subset")
    labs = [evol[3], evol[0], evol[7]]
    ev = pe.call(f"{FL}.evol_to_flavor", [labs])
    ok = all(dag.tonode(ev[r, j]) is dag.tonode(R[evol.index(l), j]) for r, l in enumerate(labs) for j in range(14))
    chk.decide(ok, "representation-rows", f"{FL}.evol_to_flavor", f"evol_to_flavor({labs}) are not the rows of the evolution rotation",
               where=src.func(f"{FL}.evol_to_flavor").where, instance="evol")
    chk.floor("projection identities", n, 10)
    chk.note(identities=n, files=["src/ekobox/genpdf/flavors.py"])
    chk.explanation = "Projection formula, idempotence, completeness and complement decided for all data values."
