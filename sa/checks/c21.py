"""C21 - scale-variation prescriptions equal their renormalisation-group expansions (proof, formula level)."""
from __future__ import annotations

from .. import alg, dag, kern, literature as lit
from ..arr import Arr
from ..cfg import all_paths_return_value
from ..pe import PE, PERaise
from ..src import load

LEVEL = "proof"
META = {
    "text": "gamma_variation (exponentiated scheme) is extracted with Python reference semantics (in-place updates on views) and "
            "proved equal, order by order through a^4, to the re-expansion of gamma(a(mu^2)) in a(xi^2 mu^2) derived in the "
            "checker from the RGE with the literature beta coefficients. non_singlet_variation / singlet_variation and "
            "variation_as1-3 (expanded scheme) are proved equal to the truncated path-ordered exponential of gamma(a(l)) over "
            "l in [0, L], derived by Picard iteration with explicit non-commuting 2x2 (and 4x4) matrices. The QED variants are "
            "proved to apply the same rule to the QCD axis plus the documented alpha_em term, and every scale-variation function "
            "is shown to return a value on all paths (CFG rule) and for every (order, alphaem_running) combination (PE).",
    "note": "Formula level, for all anomalous dimensions, nf, L and couplings; PIT in F_p (error < 1e-30). The sign/direction "
            "convention (da/dl = +beta_k a^(k+2) along l = ln xi^2) is taken from the module's documentation and fixed in the checker.",
    "technique": "partial evaluation with alias-aware arrays + Picard/RGE series derived in the checker + polynomial identity testing; CFG all-paths-return rule",
    "engine": "sa",
}

EXP = "eko.scale_variations.expanded"
XPN = "eko.scale_variations.exponentiated"


def _mat(prefix, k, dim):
    return [[dag.sym(f"{prefix}{k}_{i}{j}") for j in range(dim)] for i in range(dim)]


def _zero(vals, chk, k=3):
    flat = []
    for v in vals:
        flat.extend(v.flat() if isinstance(v, Arr) else [v])
    return dag.is_zero_fp(flat, chk.seed, k)


def _vsub(x, y):
    if isinstance(x, Arr):
        return Arr([dag.sub(p, q) for p, q in zip(x.flat(), (y.flat() if isinstance(y, Arr) else [y] * x.size))], x.shape)
    return dag.sub(x, y)


def run(chk):
    src = load()
    pe = PE(src)
    chk.trusted += ["sa/alg.py RGE/Picard series", "sa/literature.py beta table", "random interpretation in F_p"]
    chk.rule_text = "extracted prescription == RG expansion derived in the checker (identity in all symbols)"
    nf, L, a_s, a_em = dag.sym("nf"), dag.sym("L"), dag.sym("a_s"), dag.sym("a_em")
    betas = [lit.BETA_QCD[(2 + i, 0)][0] for i in range(3)]
    n_ob = 0

    # ------------------------------------------------------------ all-paths-return (structural)
    for modname in (EXP, XPN):
        for f in src.module(modname).funcs.values():
            ok, why = all_paths_return_value(f.node)
            n_ob += 1
            chk.decide(ok, "all-paths-return", f.qname,
                       f"{f.qname} can fall off its end (or `return` without a value) on the path: {why}; callers then "
                       f"receive None instead of the adjusted anomalous dimensions / kernel", where=f.where,
                       detail="every path ends in `return <value>` or `raise`")

    # ------------------------------------------------------------ exponentiated: gamma_variation
    fgv = src.func(f"{XPN}.gamma_variation")
    A = alg.running_coupling_series(betas, 4, +1)  # a(l), da/dl = + sum beta_k a^(k+2)
    for kind in ("scalar", "matrix"):
        for n in range(1, 5):
            if kind == "scalar":
                gs = [dag.sym(f"g{i}") for i in range(n)]
                garr = Arr.from_nested(gs)
                gv = gs
            else:
                gv = [Arr.from_nested(_mat("S", i, 2)) for i in range(n)]
                garr = Arr.from_nested([g.tolist() for g in gv])
            out = pe.call(fgv.qname, [garr, (n, 0), nf, L])
            chk.need(isinstance(out, Arr), "gamma_variation no longer returns an array")
            # reference: sum_k gamma_k A^(k+1), coefficient of a^(k+1), truncated at the order
            ref = alg.Poly2(4)
            for kk in range(n):
                ref = ref.add(alg._scale_left(A.power(kk + 1), gv[kk]))
            for kk in range(n):
                want = ref.coeff_a(kk + 1, L)
                got = out[kk]
                ok, info = _zero([_vsub(got, want)], chk)
                n_ob += 1
                chk.decide(ok, "exponentiated-shift-equals-rg-reexpansion", fgv.qname,
                           f"gamma_variation order {n} ({kind}): shifted gamma[{kk}] differs from the coefficient of a^{kk + 1} in "
                           f"gamma(a(xi^2 mu^2)) re-expanded with the RGE", where=fgv.where, instance=f"{kind},order={n},k={kk}",
                           data={"witness": info, "source": str(got)[:300], "reference": str(want)[:300]},
                           detail="== RGE re-expansion", how="PIT F_p")
            # L = 0 leaves gamma untouched (shared with C51)
    # ------------------------------------------------------------ expanded: kernels
    fns = src.func(f"{EXP}.non_singlet_variation")
    fsg = src.func(f"{EXP}.singlet_variation")
    for n in range(1, 5):
        gs = [dag.sym(f"g{i}") for i in range(max(n - 1, 1))]
        # the kernel at order n keeps terms through a^(n-1): it needs gamma_0..gamma_(n-2)
        gfull = [dag.sym(f"g{i}") for i in range(n)]
        K = alg.path_ordered_exponential(gfull, betas, max(n - 1, 0), dag.ONE)
        want = dag.addn([dag.mul(K.coeff_a(i, L), dag.power(a_s, i)) for i in range(0, n)])
        got = pe.call(fns.qname, [Arr.from_nested(gfull), a_s, (n, 0), nf, L])
        ok, info = _zero([dag.sub(got, want)], chk)
        n_ob += 1
        chk.decide(ok, "expanded-kernel-equals-path-ordered-exponential", fns.qname,
                   f"non_singlet_variation at order {n} differs from the truncated exponential of gamma over ln xi^2",
                   where=fns.where, instance=f"order={n}", data={"witness": info, "source": dag.short(dag.tonode(got), 300),
                                                               "reference": dag.short(want, 300)}, how="PIT F_p")
        for dim in (2, 4):
            gm = [Arr.from_nested(_mat("S", i, dim)) for i in range(n)]
            one = kern.eye(dim)
            Km = alg.path_ordered_exponential(gm, betas, max(n - 1, 0), one)
            wantm = None
            for i in range(0, n):
                term = alg.vmul(dag.power(a_s, i), Km.coeff_a(i, L))
                wantm = term if wantm is None else alg.vadd(wantm, term)
            gotm = pe.call(fsg.qname, [Arr.from_nested([g.tolist() for g in gm]), a_s, (n, 0), nf, L, dim])
            ok, info = _zero([_vsub(gotm, wantm)], chk, 2)
            n_ob += 1
            chk.decide(ok, "expanded-kernel-equals-path-ordered-exponential", fsg.qname,
                       f"singlet_variation (dim {dim}) at order {n} differs from the truncated path-ordered exponential with "
                       f"non-commuting matrices kept in order (entry {info.get('index')})", where=fsg.where,
                       instance=f"order={n},dim={dim}", data={"witness": info}, how="PIT F_p")

    # variation_as1..3 argument order: g1g0 / g0g1 enter symmetrically, g0e2/g0e3 are powers of gamma[0]
    # (covered by the identities above for every order)

    # ------------------------------------------------------------ QED variants
    nl = 3
    for n in range(1, 5):
        for m in (0, 1, 2):
            for running in (True, False):
                for nfc in ((3, 4, 5, 6) if chk.tier == "thorough" else (5,)):
                    inst = f"order=({n},{m}),running={running},nf={nfc}"
                    # exponentiated
                    G = Arr.from_nested([[dag.sym(f"G{i}_{j}") for j in range(m + 1)] for i in range(n + 1)])
                    G0 = G.copy()
                    fq = src.func(f"{XPN}.gamma_variation_qed")
                    try:
                        out = pe.call(fq.qname, [G, (n, m), nfc, nl, L, running])
                    except PERaise as e:
                        chk.fail("qed-exponentiated-shift", fq.qname, f"raises {e} ({inst})", where=fq.where, instance=inst)
                        continue
                    n_ob += 1
                    if not isinstance(out, Arr):
                        chk.fail("qed-variant-returns-adjusted-gamma", fq.qname,
                                 f"gamma_variation_qed returns {out!r} instead of the adjusted anomalous dimensions ({inst})",
                                 where=fq.where, instance=inst)
                        continue
                    chk.ok("qed-variant-returns-adjusted-gamma", f"{fq.qname}|{inst}")
                    qcd_in = Arr.from_nested([G0[i, 0] for i in range(1, n + 1)])
                    qcd_ref = pe.call(fgv.qname, [qcd_in, (n, 0), nfc, L])
                    diffs = [dag.sub(out[i, 0], qcd_ref[i - 1]) for i in range(1, n + 1)]
                    for i in range(0, n + 1):
                        for j in range(0, m + 1):
                            if j == 0 and i >= 1:
                                continue
                            want = G0[i, j]
                            if i == 0 and j == 2 and running and m >= 2:
                                want = dag.add(want, dag.mul(dag.mul(lit.beta_qed_aem2(nfc, nl), G0[0, 1]), L))
                            diffs.append(dag.sub(out[i, j], want))
                    ok, info = dag.is_zero_fp(diffs, chk.seed, 2)
                    chk.decide(ok, "qed-exponentiated-shift", fq.qname,
                               f"gamma_variation_qed does not apply the QCD rule to gamma[1:,0] plus beta0_QED*gamma[0,1]*L on "
                               f"gamma[0,2] (running alpha_em, O(aem^2)) and leave the rest unchanged ({inst})",
                               where=fq.where, instance=inst, data={"witness": info}, how="PIT F_p")
                    # expanded QED kernels
                    for fname, dim in (("non_singlet_variation_qed", 0), ("singlet_variation_qed", 4), ("valence_variation_qed", 2)):
                        fe = src.func(f"{EXP}.{fname}")
                        if dim == 0:
                            GG = Arr.from_nested([[dag.sym(f"G{i}_{j}") for j in range(m + 1)] for i in range(n + 1)])
                            base = pe.call(fns.qname, [Arr.from_nested([GG[i, 0] for i in range(1, n + 1)]), a_s, (n, 0), nfc, L])
                        else:
                            GG = Arr.from_nested([[_mat(f"M{i}_{j}_", 0, dim) for j in range(m + 1)] for i in range(n + 1)])
                            base = pe.call(fsg.qname, [Arr.from_nested([GG[i, 0].tolist() for i in range(1, n + 1)]), a_s, (n, 0), nfc, L, dim])
                        got = pe.call(fe.qname, [GG, a_s, a_em, running, (n, m), nfc, L])
                        want = base
                        if running and m >= 2:
                            want = alg.vadd(want, alg.vmul(dag.mul(a_em, L), GG[0, 1])) if dim else dag.add(want, dag.mul(dag.mul(a_em, L), GG[0, 1]))
                        n_ob += 1
                        if got is None:
                            chk.fail("qed-variant-returns-kernel", fe.qname, f"{fname} returns None ({inst})", where=fe.where, instance=inst)
                            continue
                        ok, info = _zero([_vsub(got, want)], chk, 2)
                        chk.decide(ok, "qed-expanded-kernel", fe.qname,
                                   f"{fname} is not the QCD-axis kernel plus a_em*L*gamma[0,1] (running alpha_em, O(aem^2)) ({inst})",
                                   where=fe.where, instance=inst, data={"witness": info}, how="PIT F_p")
    chk.floor("obligations", n_ob, 100)
    chk.note(files=["src/eko/scale_variations/expanded.py", "src/eko/scale_variations/exponentiated.py"], obligations=n_ob)
    chk.explanation = ("Scale-variation formulas extracted with alias-aware array semantics and compared with RGE/Picard expansions "
                       "derived in the checker, for all gamma (non-commuting matrices), nf, L; all-paths-return on the CFG.")
