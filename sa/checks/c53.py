"""C53 - EKOs are continuous in the target scale within a flavour-number patch (necessary structure)."""
from __future__ import annotations

import itertools
from fractions import Fraction

from .. import dag
from ..pe import PE, Obj, PERaise
from ..src import load
from .c51 import mu2_table, shortcut_rule

LEVEL = "other"
META = {
    "text": "Continuity in the target scale can only break where the code treats a target that lies exactly on a special scale "
            "differently from its neighbours. Decided: (1) recipes._elements is partially evaluated for every ordering of the "
            "target against the matching scales (below / on / above each wall, every initial and target nf): the recipe of the "
            "LAST segment of a path must carry the same flags for a target exactly on a matching scale as for a target next to it "
            "in the same patch - in particular it must never be flagged `cliff` (a cliff segment drops the expanded scale-variation "
            "factor and uses unshifted couplings); intermediate segments that end on the wall of the next matching are flagged. "
            "(2) Operator.mu2 follows the documented table over (scheme, threshold flag) - a threshold segment of the "
            "exponentiated scheme still takes shifted couplings. (3) the identity shortcut for coinciding scales is taken in "
            "exactly the cases in which the computed operator tends to the identity (Operator.compute over scheme x ratio x threshold flag x four final scales, shared with C51: never on the coupling distance of the last expanded operator). (4) the flags that "
            "distinguish a final segment from a cliff segment with the same end points are part of the recipe's IDENTITY: "
            "recipes are de-duplicated through a set and parts are stored under the hash of their header, so a flag left out of "
            "equality/hash lets the segment of a target on a matching scale be answered by the cliff part another target needs. (5) every "
            "coupling a segment asks for (compute_a, compute_aem_list; all schemes, threshold or not, QED or not) is requested in the "
            "segment's own flavour number - the coupling object's default switches exactly on a matching scale."
            " The identity of recipes is also evaluated: _create on a target on a matching scale and one beyond it keeps the shared segment twice (final / cliff) under different file names."
            " A final segment is computed as a final segment also when the store already holds the same segment computed as a cliff (parts.evolve in one evaluator, shared with C01).",
    "note": "Necessary conditions: the O(epsilon) bound on numbers needs execution and is not decided.",
    "technique": "exhaustive partial evaluation over orderings (finite) + truth tables + dataclass identity rule + partial evaluation of the coupling requests with a recording coupling object",
    "engine": "sa",
}

RC = "eko.runner.recipes"


def run(chk):
    src = load()
    pe = PE(src)
    chk.rule_text = "flags of the final segment are the same on a wall and next to it; mu2 table"
    fel = src.func(f"{RC}._elements")
    atlas_cls = src.cls("eko.matchings.Atlas")
    walls = [10, 20, 30]
    pts = [Fraction(x) for x in (5, 10, 15, 20, 25, 30, 35)]
    n_cases = 0
    bad = 0
    for mu0, nf0, muf, nff in itertools.product(pts, (3, 4, 5, 6), pts, (3, 4, 5, 6)):
        atlas = pe.instantiate(atlas_cls.qname, [list(walls), (mu0, nf0)])
        try:
            recs = pe.call(fel.qname, [(muf, nff), atlas])
        except PERaise as e:
            chk.fail("final-segment-flags", fel.qname, f"_elements raises {e}", where=fel.where, instance=f"{mu0},{nf0},{muf},{nff}")
            continue
        n_cases += 1
        evol = [r for r in recs if r.cls.node.name == "Evolution"]
        last = evol[-1]
        inst = f"origin=({mu0},{nf0}),target=({muf},{nff})"
        if pe.getattr(last, "cliff") is not False:
            bad += 1
            if bad <= 6:
                chk.fail("final-segment-flags", fel.qname,
                         f"{inst}: the final segment {pe.getattr(last, 'origin')}->{pe.getattr(last, 'target')} (nf={pe.getattr(last, 'nf')}) is "
                         f"flagged cliff because the target lies exactly on a matching scale; a target displaced by epsilon in the same "
                         f"patch is not, so with an expanded scale variation (xi != 1) the operator jumps at the matching scale",
                         where=fel.where, instance="final segment on a wall flagged cliff" if True else inst)
        # intermediate segments: end on the wall of the following matching -> flagged (they are followed by a matching)
        for r in evol[:-1]:
            if pe.getattr(r, "cliff") is not True:
                bad += 1
                chk.fail("intermediate-segments-are-cliffs", fel.qname, f"{inst}: an intermediate segment ending on a matching scale is not "
                         f"flagged cliff", where=fel.where, instance=inst)
    if not bad:
        chk.ok("final-segment-flags", fel.qname, f"{n_cases} (origin, target) orderings", how="exhaustive PE")
        chk.ok("intermediate-segments-are-cliffs", fel.qname, f"{n_cases} orderings", how="exhaustive PE")
    chk.floor("orderings", n_cases, 700)
    _flag_is_identity(chk, src)
    _couplings_nf(chk, src)
    # the identity shortcut of Operator.compute is a window (isclose) in the target scale: inside it the operator is replaced by the
    # exact identity, which is continuous only where the operator tends to the identity
    shortcut_rule(chk, src, rule="identity-shortcut-only-where-the-operator-is-the-identity")
    # a final segment is never answered by the part of its cliff twin (same end points, other flag), whatever the store holds or an
    # earlier request left behind: in the expanded scheme the two differ by the scale-variation factor, a jump at the matching scale
    from .c01 import evolve_uses_its_own_operator

    evolve_uses_its_own_operator(chk, src, rule="final-segment-is-computed-as-a-final-segment")
    n_tab = mu2_table(chk, src, pe, rule="segment-couplings-table")
    chk.floor("mu2 table rows", n_tab, 6)
    chk.note(cases=n_cases, files=["src/eko/runner/recipes.py", "src/eko/evolution_operator/__init__.py"])
    chk.explanation = "Flags of the final segment for targets on and off the matching scales (exhaustive), and the mu2 table."


def _flag_is_identity(chk, src):
    """Evolution.cliff (and every other field of the recipe headers) takes part in the generated equality and hash"""
    import ast

    ev = src.cls("eko.io.items.Evolution")
    fields = {}
    stack = [ev]
    while stack:                                   # fields of the class and of its bases
        c = stack.pop()
        for k, v in c.fields().items():
            fields.setdefault(k, (c, v))
        stack.extend(src.class_bases(c))
    chk.need("cliff" in fields, "eko.io.items.Evolution has no field `cliff` any more")
    for c in [ev] + list(src.class_bases(ev)):
        decs = [ast.unparse(d) for d in c.node.decorator_list]
        own = [nm for nm in ("__eq__", "__hash__") if nm in c.methods]
        ok = any("dataclass" in d for d in decs) and not any("eq=False" in d or "unsafe_hash" in d for d in decs) and not own
        chk.decide(ok, "segment-flags-are-recipe-identity", c.qname, f"header class decorated {decs}, own methods {own}: equality and hash "
                   f"must be the generated, field-wise ones", where=c.where, instance="class")
    for name, (c, (ann, default)) in sorted(fields.items()):
        excluded = isinstance(default, ast.Call) and any(
            k.arg in ("compare", "hash") and isinstance(k.value, ast.Constant) and k.value.value is False for k in default.keywords)
        chk.decide(not excluded, "segment-flags-are-recipe-identity", f"{c.qname}.{name}",
                   f"field `{name}` is left out of equality/hash: the final segment ending exactly on a matching scale and the cliff segment "
                   f"with the same end points become one recipe and one stored part, so the operator at the matching scale is computed "
                   f"with the flags of whichever comes first and jumps with respect to its neighbours", where=c.where, instance=name)
    # what the identity is needed for, evaluated: a target ON a matching scale and a target beyond it share the end points of one
    # segment (final for the first, cliff for the second); both recipes must survive the de-duplication and get different file names
    from fractions import Fraction

    from ..pe import PE, PERaise

    pe = PE(src)
    fcr = src.func("eko.runner.recipes._create")
    fname = src.func("eko.io.inventory.header_name")
    atlas = pe.instantiate("eko.matchings.Atlas", [[10, 20, 30], (Fraction(5), 3)])
    try:
        recs = pe.call(fcr.qname, [[(Fraction(20), 4), (Fraction(35), 6)], atlas])
        shared = [r for r in recs if r.cls.node.name == "Evolution" and pe.getattr(r, "origin") == 10 and pe.getattr(r, "target") == 20]
        flags = sorted(pe.getattr(r, "cliff") for r in shared)
        names = {pe.call(fname.qname, [r]) for r in shared}
        ok = flags == [False, True] and len(names) == 2 and len(recs) == 8
        found = f"{len(recs)} recipes, segment 10->20 (nf=4) kept with cliff flags {flags}, {len(names)} distinct file name(s)"
    except PERaise as e:
        ok, found = False, f"raises {e}"
    chk.decide(ok, "segment-flags-are-recipe-identity", fcr.qname,
               f"targets (20, nf=4) on a matching scale and (35, nf=6) beyond it, from (5, nf=3) with matching scales 10, 20, 30: {found}; "
               f"required 8 recipes (4 + 3 matchings + the shared segment twice: final for the first target, cliff for the second), stored "
               f"under different names", where=fcr.where, instance="shared end points", how="PE of _create and header_name")


def _couplings_nf(chk, src, rule="segment-couplings-in-the-segment-flavour-number", methods=("compute_a", "compute_aem_list")):
    """Every coupling a segment asks for is requested in the segment's OWN flavour number: at a matching scale the couplings of
    the two adjacent patches differ (from NNLO, or with matching ratios / scale variations from NLO), and the default flavour
    number of the coupling object switches exactly there, so a request without nf jumps for a target on the matching scale."""
    from ..pe import Opaque
    from ..arr import Arr

    ocls = src.cls("eko.evolution_operator.Operator")
    n = 0
    for meth in methods:
        f = ocls.methods[meth]
        for thr, qed, scheme in itertools.product((False, True), (False, True), (None, "exponentiated", "expanded")):
            pe = PE(src)
            asked = []

            class SC(Opaque):
                def a(self, scale_to=None, nf_to=None, **k):
                    asked.append(("a", scale_to, nf_to))
                    return Arr.from_nested([dag.sym(f"as{len(asked)}"), dag.sym(f"aem{len(asked)}")])

                def a_s(self, scale_to=None, nf_to=None, **k):
                    asked.append(("a_s", scale_to, nf_to))
                    return dag.sym(f"as{len(asked)}")

                def a_em(self, scale_to=None, nf_to=None, **k):
                    asked.append(("a_em", scale_to, nf_to))
                    return dag.sym(f"aem{len(asked)}")

            o = Obj(ocls)
            mg = Opaque()
            mg.couplings = SC()
            svm = {k.lower(): v for k, v in pe.enum_members(pe.get_global("eko.io.types", "ScaleVariationsMethod").cls).items()}
            o.attrs.update(managers=mg, nf=4, order=(3, 1 if qed else 0), q2_from=Fraction(10), q2_to=Fraction(20), is_threshold=thr,
                           config={"ModSV": svm.get(scheme) if scheme else None, "xif2": Fraction(2), "ev_op_iterations": 2})
            inst = f"{meth},threshold={thr},qed={qed},scheme={scheme}"
            try:
                if meth == "compute_aem_list":
                    o.attrs["a"] = pe.apply(pe.getattr(o, "compute_a"), [], {})
                    del asked[:]
                pe.apply(pe.getattr(o, meth), [], {})
            except PERaise as e:
                chk.fail(rule, f.qname, f"{inst}: raises {e}", where=f.where, instance=inst)
                continue
            if not asked:
                continue   # nothing requested in this configuration (e.g. no QED: the list is built from the end-point values)
            n += 1
            bad = [(k, str(s_), nf_) for k, s_, nf_ in asked if nf_ != 4]
            chk.decide(not bad, rule, f.qname,
                       f"{inst}: couplings requested as {bad[:3]} for a segment with nf=4: without the segment's flavour number the coupling object "
                       f"takes its default for the scale, which switches exactly on a matching scale - the operator of a target on that scale "
                       f"then jumps with respect to its neighbours in the same patch", where=f.where, instance=inst, how="PE with a recording coupling object")
    chk.floor("coupling requests of a segment", n, 6 * len(methods))
