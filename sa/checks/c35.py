"""C35 - Mellin inversion of the interpolation basis reproduces the x-space basis (the decidable, formula-level part)."""
from __future__ import annotations

import ast
import math
from fractions import Fraction
from types import SimpleNamespace

from .. import dag
from ..arr import Arr
from ..pe import PE, Obj, PERaise, Top, NAN, decide_on_values
from ..src import load

LEVEL = "other"
META = {
    "text": "Numerical inversion accuracy is a quadrature property and is not decided. Decided, as identities in all symbols, are the "
            "necessary formula-level facts: (1) N-SPACE BASIS: for every degree 0-6, log_evaluate_Nx on one area with symbolic "
            "bounds, coefficients, N and logx equals sum_i c_i [F_i(logxmax) - w F_i(logxmin)] with F_i the antiderivative of "
            "t^i exp(N(t - logx)) (validated inside the check by differentiating it) and w = 1 for an inversion point below the "
            "area, w = 0 inside the area (lower boundary term dropped, as its inverse transform vanishes), and the area "
            "contributes nothing for points at or above its upper bound; areas add up. (2) NO OVERFLOW POISON: inside an area "
            "the dropped boundary factor exp(N(logxmin - logx)) overflows on the left-going tail of the contour; with that "
            "factor abstracted to an inf/NaN poison the result must stay finite, i.e. the dropped term is never evaluated into "
            "the sum (0 * inf = NaN otherwise). (3) The linear-mode sibling evaluate_Nx equals sum_i c_i [x^(N+i)/(N+i)] between "
            "the bounds times x^-N (same regimes). (4) CONTOUR: Talbot_jac is the derivative of Talbot_path with respect to the "
            "path parameter (symbolic differentiation), also for the limiting branch; Path uses r = 0.4*16/(0.1 - logx) and the "
            "offset 1 exactly for singlet-like sectors (QuadKerBase.path truth table over all mode0 values in use); the "
            "integrand is prefactor * basis(N) * jacobian with prefactor -i/pi, and zero at logx = 0."
            " Regimes with the inversion point a relative 1e-7 from an edge are included (library tolerance rules applied to concrete operands)."
            " Conditions on the size of Re N are decided at both ends of the contour (Re N = +200, -200); the two-area rule runs for the point below, inside either, and above the areas.",
    "note": "Claimed at level 'other': these are necessary conditions of the inversion statement, not the inversion itself.",
    "technique": "partial evaluation + polynomial identity testing with a self-validated antiderivative oracle (DAG differentiation); inf/NaN poison abstract interpretation; truth table",
    "engine": "sa",
}

IP = "eko.interpolation"
EPS = Fraction(1, 2 ** 52)


def F(i, t, N, logx):
    """antiderivative of s^i e^{N(s-logx)} at s=t"""
    terms = []
    for k in range(i + 1):
        c = Fraction((-1) ** (i - k) * math.factorial(i), math.factorial(k))
        terms.append(dag.div(dag.mul(dag.const(c), dag.power(t, k)), dag.power(N, i - k + 1)))
    return dag.mul(dag.fn("exp", dag.mul(N, dag.sub(t, logx))), dag.addn(terms))


def run(chk):
    src = load()
    chk.rule_text = "log_evaluate_Nx == sum c_i [F_i(max) - w F_i(min)]; no poison from the dropped term; Talbot_jac == d Talbot_path/dt"
    N, logx, lo, hi, t = (dag.sym(s) for s in ("N", "logx", "lmin", "lmax", "t"))
    # oracle self-validation
    for i in range(7):
        d = dag.diff(F(i, t, N, logx), "t")
        want = dag.mul(dag.power(t, i), dag.fn("exp", dag.mul(N, dag.sub(t, logx))))
        ok, info = dag.is_zero_fp([dag.sub(d, want)], chk.seed, 2)
        chk.need(ok, f"oracle broken: d/dt F_{i} != t^{i} exp(N(t-logx))")
    fl = src.func(f"{IP}.log_evaluate_Nx")
    # the last two: a point a relative 1e-7 away from a node is NOT the node (the tolerance of the edge tests is of machine-epsilon size)
    regimes = {"below": (True, 1), "inside": (True, 0), "above": (False, 0), "just below the upper edge of": (True, 0),
               "just below the lower edge of": (True, 1), "just above the lower edge of": (True, 0)}
    tiny = Fraction(1, 10 ** 7)
    n_id = 0
    for deg in range(0, 7):
        cs = [dag.sym(f"c{i}") for i in range(deg + 1)]
        for rname, (active, w) in regimes.items():
            for poison, nrep in ((False, Fraction(200)), (False, Fraction(-200)), (True, Fraction(-200))):
                if poison and rname != "inside":
                    continue

                def assume(text, env, rname=rname, nrep=nrep):
                    # judged on the values (the symbols this check passes in), not on the names of the source's locals; a generic
                    # product N*logxmax is not within a tolerance of zero (that branch only avoids 0**0)
                    rep = {"lmin": Fraction(-2), "lmax": Fraction(-1), "N": nrep,      # conditions on the size of Re N: both ends of the contour
                           "logx": {"below": Fraction(-3), "inside": Fraction(-3, 2), "above": Fraction(-1, 2), "just below the upper edge of": -1 - tiny,
                                    "just below the lower edge of": -2 - tiny, "just above the lower edge of": -2 + tiny}[rname]}
                    return decide_on_values(pe_box[0], " ".join(text.split()), env, rep)

                pe_box = [None]
                pe = PE(src, assume=assume)
                pe_box[0] = pe
                pe.ext["numpy.finfo"] = lambda p, a, k: SimpleNamespace(eps=EPS)
                if poison:
                    base_exp = pe.ext.get("numpy.exp")

                    def exp_model(p, a, k, base_exp=base_exp):
                        arg = dag.tonode(a[0])
                        z, _ = dag.is_zero_fp([dag.sub(arg, dag.mul(N, dag.sub(lo, logx)))], 7, 1)
                        if z:
                            return NAN  # exp(N (logxmin - logx)) with logx > logxmin and Re N -> -inf: overflow
                        return base_exp(p, a, k)

                    pe.ext["numpy.exp"] = exp_model
                areas = Arr.from_nested([[lo, hi] + cs])
                inst = f"degree={deg},point {rname} the area" + (",overflowing boundary factor" if poison else "") + ("" if nrep > 0 or poison else ",tail of the contour")
                try:
                    res = pe.call(fl.qname, [N, logx, areas])
                except PERaise as e:
                    chk.fail("n-space-basis-formula", fl.qname, f"{inst}: raises {e}", where=fl.where, instance=inst)
                    continue
                if poison:
                    bad = isinstance(res, Top) or res is NAN or type(res).__name__ == "NaNTop"
                    chk.decide(not bad, "dropped-term-is-not-evaluated", fl.qname,
                               f"{inst}: the result depends on exp(N(logxmin - logx)) although the lower boundary term is dropped for a point "
                               f"inside the area; along the contour's tail this factor overflows and 0 * inf = NaN poisons the inversion",
                               where=fl.where, instance=f"degree={deg}", how="inf/NaN poison abstract interpretation")
                    continue
                want = dag.const(0)
                if active:
                    want = dag.addn([dag.mul(cs[i], dag.sub(F(i, hi, N, logx), dag.mul(dag.const(w), F(i, lo, N, logx)))) for i in range(deg + 1)])
                ok, info = dag.is_zero_fp([dag.sub(dag.tonode(res), want)], chk.seed, 2)
                n_id += 1
                chk.decide(ok, "n-space-basis-formula", fl.qname,
                           f"{inst}: the value is not sum_i c_i [F_i(logxmax) - {w} * F_i(logxmin)] with F_i the antiderivative of "
                           f"t^i exp(N(t - logx))", where=fl.where, instance=inst, data={"witness": info}, how="PE + PIT F_p")
    # two areas add up - wherever the point lies with respect to them, and whatever the size of Re N (the contour runs from a large
    # positive real part at the saddle to a large negative one in its tail): conditions that involve N are decided in both regimes
    l2 = dag.sym("lmax2")
    positions = {"below both": Fraction(-3), "inside the first": Fraction(-3, 2), "inside the second": Fraction(-3, 4), "above both": Fraction(-1, 4)}
    for pname, lx in positions.items():
        for nname, nrep in (("Re N = +200", Fraction(200)), ("Re N = -200", Fraction(-200))):
            rep2 = {"lmin": Fraction(-2), "lmax": Fraction(-1), "lmax2": Fraction(-1, 2), "logx": lx, "N": nrep}
            pe_box2 = [None]
            pe = PE(src, assume=lambda text, env, rep2=rep2: decide_on_values(pe_box2[0], " ".join(text.split()), env, rep2))
            pe_box2[0] = pe
            pe.ext["numpy.finfo"] = lambda p, a, k: SimpleNamespace(eps=EPS)
            a2 = Arr.from_nested([[lo, hi, dag.sym("c0"), dag.sym("c1")], [hi, l2, dag.sym("d0"), dag.sym("d1")]])
            inst = f"two areas, point {pname}, {nname}"
            try:
                res = pe.call(fl.qname, [N, logx, a2])
            except PERaise as e:
                chk.fail("n-space-basis-formula", fl.qname, f"{inst}: raises {e}", where=fl.where, instance=inst)
                continue

            def contrib(cname, a_lo, a_hi, lo_v, hi_v):
                if lx > hi_v:
                    return []
                w_ = 1 if lx < lo_v else 0
                return [dag.mul(dag.sym(f"{cname}{i}"), dag.sub(F(i, a_hi, N, logx), dag.mul(dag.const(w_), F(i, a_lo, N, logx)))) for i in range(2)]

            want = dag.addn([dag.const(0)] + contrib("c", lo, hi, Fraction(-2), Fraction(-1)) + contrib("d", hi, l2, Fraction(-1), Fraction(-1, 2)))
            ok, info = dag.is_zero_fp([dag.sub(dag.tonode(res), want)], chk.seed, 2)
            n_id += 1
            chk.decide(ok, "n-space-basis-formula", fl.qname,
                       f"{inst}: the value is not the sum of the contributions of the two areas (an area that contains the point, or lies above it, is "
                       f"dropped or counted twice)", where=fl.where, instance=inst, data={"witness": info}, how="PE + PIT F_p")
    # ---- (3) linear sibling ------------------------------------------------------------------------------------------------------
    fn = src.func(f"{IP}.evaluate_Nx")
    xlo, xhi = dag.sym("xmin"), dag.sym("xmax")
    for deg in (1, 3):
        cs = [dag.sym(f"c{i}") for i in range(deg + 1)]
        for rname, active in (("below-upper", True), ("above", False)):
            def assume2(text, env, rname=rname):
                # judged on values: a generic lower bound is not 0; the inversion point against the logarithm of the upper bound is
                # the regime under evaluation
                s = " ".join(text.split())
                r = decide_on_values(box3[0], s, env)
                if r is not None:
                    return r
                try:
                    t_ = ast.parse(s, mode="eval").body
                    if isinstance(t_, ast.Compare) and len(t_.ops) == 1 and isinstance(t_.ops[0], (ast.GtE, ast.Gt, ast.LtE, ast.Lt)):
                        lv, rv = box3[0].eval(t_.left, env), box3[0].eval(t_.comparators[0], env)
                        if isinstance(t_.ops[0], (ast.LtE, ast.Lt)):
                            lv, rv = rv, lv          # `bound <= point` is `point >= bound`
                        if lv is logx and dag.tonode(rv) is dag.fn("log", xhi):
                            return rname == "above"
                except Exception:
                    pass
                return None

            box3 = [None]
            pe = PE(src, assume=assume2)
            box3[0] = pe
            res = pe.call(fn.qname, [N, logx, Arr.from_nested([[xlo, xhi] + cs])])
            want = dag.const(0)
            if active:
                def G(i, xv):
                    lx = dag.fn("log", xv)
                    return dag.div(dag.fn("exp", dag.add(dag.mul(N, dag.sub(lx, logx)), dag.mul(dag.const(i), lx))), dag.add(N, dag.const(i)))
                want = dag.addn([dag.mul(cs[i], dag.sub(G(i, xhi), G(i, xlo))) for i in range(deg + 1)])
            ok, info = dag.is_zero_fp([dag.sub(dag.tonode(res), want)], chk.seed, 2)
            n_id += 1
            chk.decide(ok, "n-space-basis-formula", fn.qname, f"linear mode, degree {deg}, {rname}: not sum_i c_i [x^(N+i)/(N+i)]_xmin^xmax x^-N",
                       where=fn.where, instance=f"lin,{deg},{rname}", data={"witness": info}, how="PE + PIT F_p")
    chk.floor("formula identities", n_id, 20)
    # ---- (4) contour --------------------------------------------------------------------------------------------------------------
    fp_ = src.func("eko.mellin.Talbot_path")
    fj = src.func("eko.mellin.Talbot_jac")
    r, o = dag.sym("r"), dag.sym("o")
    for branch in ("generic", "t=1/2"):
        box5 = [None]
        pe = PE(src, assume=lambda text, env: decide_on_values(box5[0], text, env))   # a generic parameter is not the singular point 1/2
        box5[0] = pe
        from .. import kern

        pe.ext["builtins.complex"] = kern._complex
        tv = dag.sym("t") if branch == "generic" else Fraction(1, 2)
        path = pe.call(fp_.qname, [tv, r, o])
        jac = pe.call(fj.qname, [tv, r, o])
        if branch == "generic":
            d = dag.diff(dag.tonode(path), "t")
            ok, info = dag.is_zero_fp([dag.sub(d, dag.tonode(jac))], chk.seed, 2)
            chk.decide(ok, "jacobian-is-the-path-derivative", fj.qname, "Talbot_jac is not d Talbot_path / dt", where=fj.where, instance=branch,
                       data={"witness": info}, how="DAG differentiation + PIT")
        else:
            # limits theta -> 0: path = o + r (1 + 0 i), jac = r*2*pi*(0 + i/2) ... compare with the series of the generic branch
            okp, _ = dag.is_zero_fp([dag.sub(dag.tonode(path), dag.add(o, r))], chk.seed, 2)
            chk.decide(okp, "jacobian-is-the-path-derivative", fp_.qname, f"at t = 1/2 the path is {dag.short(dag.tonode(path))}, required o + r (limit of "
                       f"theta/tan(theta))", where=fp_.where, instance=branch)
    # QuadKerBase.path offset truth table
    qk = src.cls("eko.evolution_operator.quad_ker.QuadKerBase")
    made = []
    pe = PE(src)
    pe.overrides["eko.mellin.Path"] = lambda p, a, k: made.append(tuple(a)) or "PATH"
    singlet_like = {100, 21, 90, 22, 101}
    modes = [100, 21, 90, 22, 101, 10101, 10201, 10200, 10204, 10102, 10103, 10202, 10203]
    okt = True
    for m in modes:
        del made[:]
        o_ = pe.instantiate(qk.qname, [dag.sym("u"), True, dag.sym("logx"), m])
        pe.getattr(o_, "path")
        okt = okt and len(made) == 1 and made[0][0] is dag.sym("u") and made[0][1] is dag.sym("logx") and made[0][2] is (m in singlet_like)
    chk.decide(okt, "contour-offset-by-sector", qk.qname, "Path(u, logx, offset) is not built with offset exactly for the singlet-like sectors "
               "(100, 21, 90, 22, 101)", where=qk.where, how="truth table by PE")
    pcls = src.cls("eko.mellin.Path")
    for off in (True, False):
        pe = PE(src)
        p_ = pe.instantiate(pcls.qname, [dag.sym("t"), dag.sym("logx"), off])
        rr = pe.getattr(p_, "r")
        oo = pe.getattr(p_, "o")
        okr, _ = dag.is_zero_fp([dag.sub(dag.tonode(rr), dag.div(dag.const(Fraction(32, 5)), dag.sub(dag.const(Fraction(1, 10)), dag.sym("logx"))))], chk.seed, 2)
        chk.decide(okr and dag.as_const(dag.tonode(oo)) == (1 if off else 0), "contour-offset-by-sector", pcls.qname,
                   f"offset={off}: r = {dag.short(dag.tonode(rr))}, o = {oo}; required r = 6.4/(0.1 - logx), o = {1 if off else 0}", where=pcls.where,
                   instance=f"path,{off}", how="PE")
    fi = qk.methods["integrand"]
    # evaluated with a symbolic path and a recording basis evaluation: prefactor * basis(N) * jacobian, and 0 at x = 1 (logx = 0)
    from ..pe import Opaque

    for lx, label in ((dag.sym("logx"), "generic x"), (0, "x = 1")):
        box4 = [None]
        pe = PE(src, assume=lambda text, env: decide_on_values(box4[0], text, env))   # a generic basis value / logx is not 0
        box4[0] = pe
        seen = []
        pe.overrides["eko.interpolation.evaluate_grid"] = lambda p_, a, k: seen.append(list(a)) or dag.sym("PJ")
        o_ = Obj(qk)
        pth = Opaque()
        pth.n, pth.prefactor, pth.jac = dag.sym("NN"), dag.sym("PRE"), dag.sym("JAC")
        o_.attrs.update(path=pth, is_log=True, logx=lx)
        try:
            r_ = pe.apply(pe.getattr(o_, "integrand"), ["AREAS"], {})
            if label == "x = 1":
                ok_ = dag.as_const(dag.tonode(r_)) == 0 and not seen
            else:
                ok_ = dag.is_zero_fp([dag.sub(dag.tonode(r_), dag.mul(dag.mul(dag.sym("PRE"), dag.sym("PJ")), dag.sym("JAC")))], chk.seed, 2)[0] \
                    and len(seen) == 1 and seen[0][0] is dag.sym("NN") and seen[0][1] is True and seen[0][2] is lx and seen[0][3] == "AREAS"
            msg_ = f"value {dag.short(dag.tonode(r_))}, basis evaluated with {[str(x) for x in (seen[0] if seen else [])]}"
        except PERaise as e:
            ok_, msg_ = False, f"raises {e}"
        chk.decide(ok_, "integrand-structure", fi.qname, f"{label}: {msg_}; required prefactor * basis(N; is_log, logx, areas) * jacobian, and 0 without "
                   f"evaluating anything at logx = 0", where=fi.where, instance=label, how="PE with a symbolic path")
    pf = pe.getattr(pe.instantiate(pcls.qname, [dag.sym("t"), dag.sym("logx"), False]), "prefactor") if False else None
    chk.note(identities=n_id, files=["src/eko/interpolation.py", "src/eko/mellin.py", "src/eko/evolution_operator/quad_ker.py"])
    chk.explanation = "N-space basis formula in all regimes, overflow-poison rule, contour jacobian and offset table."
