"""C52 - heavy flavours that are never active are transported unchanged (exhaustive, exact)."""
from __future__ import annotations

from .. import dag, flav
from ..core import pmap
from ..pe import PE, PERaise
from ..src import load
from .c32 import MC, PH, matching_members, physical_members, tensor_of

LEVEL = "proof"
META = {
    "text": "For every flavour-number configuration that leaves a heavy quark h inactive - the evolution label sets "
            "PhysicalOperator.ad_to_evol_map with nf = 3, 4, 5 and the matching label sets MatchingCondition.split_ad_to_evol_map "
            "with nf = 3, 4 (quark nf+1 is being activated, quarks above stay inactive), QCD and QED - all operator members are "
            "given independent symbolic values and the flavour-basis tensor is extracted. It is proved, for all member values, "
            "that the rows and columns of h and hbar are exactly the identity: weight one on (h,h) and (hbar,hbar), zero to and "
            "from every other parton including gluon and photon. Since a path that never activates h is a product of such "
            "factors and the identity block is preserved by products, h and hbar are transported unchanged end to end."
            " Every path between 3-5 flavours contains only segments and matchings within the flavour numbers of its end points (exhaustive matched_path)."
            " runner.commons.atlas asked for initial flavour numbers 4, 3, 5, 4 (same scales) in one evaluator returns an atlas starting in the flavour number of that card.",
    "note": "Exhaustive over the finite configuration space, exact; member values symbolic so the statement holds for any "
            "computed kernels. The product argument is linear algebra on block structure.",
    "technique": "partial evaluation over the finite configuration space + polynomial identity testing on the block structure",
    "engine": "sa",
}


def _case(chk, case):
    src = load()
    pe = PE(src)
    kind, qed, nf = case
    if kind == "physical":
        f = src.func(f"{PH}.ad_to_evol_map")
        ob = pe.apply(pe.getattr(pe.import_ref(PH), "ad_to_evol_map"), [physical_members(pe, qed), nf, dag.sym("q2"), qed], {})
        inactive = list(range(nf + 1, 7))
    else:
        f = src.func(f"{MC}.split_ad_to_evol_map")
        ob = pe.apply(pe.getattr(pe.import_ref(MC), "split_ad_to_evol_map"), [matching_members(pe), nf, dag.sym("q2"), qed], {})
        inactive = list(range(nf + 2, 7))
    inst = f"{kind},qed={qed},nf={nf}"
    try:
        T = tensor_of(pe, ob, qed)
    except PERaise as e:
        chk.fail("inactive-heavy-quark-is-identity", f.qname, f"to_flavor_basis_tensor raises {e} ({inst})", where=f.where, instance=inst)
        return
    diffs, what = [], []
    for h in inactive:
        for p in (h, -h):
            ih = flav.idx(p)
            for j in range(14):
                want = 1 if j == ih else 0
                diffs.append(dag.sub(T[ih, 0, j, 0], want))
                what.append(f"weight of pid {flav.PIDS[j]} -> pid {p}")
                if j != ih:
                    diffs.append(dag.tonode(T[j, 0, ih, 0]))
                    what.append(f"weight of pid {p} -> pid {flav.PIDS[j]}")
    ok, info = dag.is_zero_fp(diffs, chk.seed, 2)
    chk.decide(ok, "inactive-heavy-quark-is-identity", f.qname,
               f"{inst}: {what[info['index']] if not ok else ''} is not {'one' if not ok and 'pid' in what[info['index']] and what[info['index']].split()[3] == what[info['index']].split()[-1] else 'as required (identity block)'}"
               f" for the inactive quark(s) {inactive}", where=f.where, instance=inst, data={"witness": info},
               detail=f"inactive {inactive}: identity rows/columns", how="PE + PIT F_p")


def atlas_follows_the_card(chk, src, rule="path-starts-in-the-flavour-number-of-this-run"):
    """runner.commons.atlas asked several times in ONE process for cards with the same matching scales and initial scale but different
    initial flavour numbers: the atlas it returns starts in the flavour number of THAT card - with the origin of an earlier run the
    path contains segments and matchings of a quark that is never active in this one."""
    from fractions import Fraction

    from ..arr import Arr
    from ..pe import Opaque, named_arguments

    fat = src.func("eko.runner.commons.atlas")
    pe = PE(src)
    made = []

    def mk_atlas(p_, a, k):
        o = Opaque()
        o.made_with = named_arguments(k)
        made.append(o)
        return o

    pe.overrides["eko.matchings.Atlas"] = mk_atlas
    pe.overrides["eko.io.runcards.masses"] = lambda p_, a, k: [Fraction(2), Fraction(20), Fraction(30000)]
    bad = None
    n = 0
    for nf0 in (4, 3, 5, 4):
        th, op = Opaque(), Opaque()
        th.heavy = Opaque()
        th.heavy.matching_ratios = Arr.from_nested([Fraction(1), Fraction(1), Fraction(1)])
        op.mu20 = Fraction(3)
        op.init = (dag.sym("mu0"), nf0)
        op.configs = Opaque()
        op.configs.evolution_method = "METHOD"
        try:
            got = pe.call(fat.qname, [th, op])
        except PERaise as e:
            bad = bad or (nf0, f"raises {e}")
            continue
        n += 1
        origin = getattr(got, "made_with", {}).get("origin") if isinstance(got, Opaque) else None
        if not (isinstance(origin, tuple) and len(origin) == 2 and origin[1] == nf0 and origin[0] == Fraction(3)) and bad is None:
            bad = (nf0, f"returns an atlas with origin {origin}")
    chk.decide(bad is None, rule, fat.qname,
               f"atlas asked for initial flavour numbers 4, 3, 5, 4 (same scales) in one process: for nf0 = {bad[0] if bad else ''} it {bad[1] if bad else ''}; "
               f"required origin (mu0^2, nf0) of the card of that call - the path of an earlier run crosses matchings of quarks that are never active here",
               where=fat.where, instance="atlas requests in one process", how="PE of consecutive requests in one evaluator with a recording Atlas")
    chk.floor("atlas requests", n, 4)


def run(chk):
    load()
    chk.rule_text = "rows/columns of inactive h, hbar in the flavour tensor are identity for all member values"
    cases = [("physical", qed, nf) for qed in (False, True) for nf in (3, 4, 5)]
    cases += [("matching", qed, nf) for qed in (False, True) for nf in (3, 4)]
    pmap(chk, _case, cases, jobs=10)
    # the product argument needs the factors of a path to be exactly those label sets: every segment of a path between nf0 and nf flavours
    # runs with at most max(nf0, nf) flavours, and every matching on it (upward or downward) is the one of a quark that the path does
    # (de)activate - never of a heavier one
    import itertools
    from fractions import Fraction

    src = load()
    pe = PE(src)
    fmp = src.func("eko.matchings.Atlas.matched_path")
    pts = [Fraction(x) for x in (5, 10, 15, 20, 25, 30, 35)]
    n_paths = 0
    bad = None
    for mu0, nf0, muf, nff in itertools.product(pts, (3, 4, 5), pts, (3, 4, 5)):
        atlas = pe.instantiate("eko.matchings.Atlas", [[10, 20, 30], (mu0, nf0)])
        try:
            blocks = pe.apply(pe.getattr(atlas, "matched_path"), [(muf, nff)], {})
        except PERaise as e:
            bad = bad or (f"origin=({mu0},{nf0}), target=({muf},{nff})", f"raises {e}")
            continue
        n_paths += 1
        top = max(nf0, nff)
        low = min(nf0, nff)
        for b in blocks:
            if b.cls.node.name == "Segment":
                if not low <= pe.getattr(b, "nf") <= top:
                    bad = bad or (f"origin=({mu0},{nf0}), target=({muf},{nff})", f"a segment runs with {pe.getattr(b, 'nf')} flavours")
            else:
                hq = pe.getattr(b, "hq")
                if not low + 1 <= hq <= top:
                    bad = bad or (f"origin=({mu0},{nf0}), target=({muf},{nff})",
                                  f"the path contains the {'inverse ' if pe.getattr(b, 'inverse') else ''}matching of quark {hq}")
    chk.decide(bad is None, "path-factors-leave-the-inactive-quarks-alone", fmp.qname,
               f"{bad[0] if bad else ''}: {bad[1] if bad else ''}, although the path only connects {'' if not bad else ''}flavour numbers between its end "
               f"points: the matching of a quark that is never active gives that quark's distributions non-trivial blocks", where=fmp.where,
               detail=f"{n_paths} paths", how="exhaustive PE of Atlas.matched_path")
    chk.floor("paths", n_paths, 400)
    chk.floor("configurations", len(cases), 10)
    atlas_follows_the_card(chk, src)
    chk.note(instances=len(cases), files=["src/eko/evolution_operator/physical.py", "src/eko/evolution_operator/matching_condition.py",
                                          "src/eko/member.py", "src/eko/evolution_operator/flavors.py"])
    chk.explanation = "Identity block of inactive heavy quarks in every evolution / matching label set, for symbolic members."
