"""C42 - reshaping an operator commutes with applying it (flavour rotations and grid re-interpolation)."""
from __future__ import annotations

import itertools

from .. import dag
from ..arr import Arr
from ..pe import PE, Obj, PERaise, ClassRef
from ..src import load

LEVEL = "proof"
META = {
    "text": "flavor_reshape and xgrid_reshape are partially evaluated on a symbolic rank-4 operator (with and without errors) and "
            "symbolic rotation matrices. FLAVOUR: for symbolic invertible matrices T (output side) and I (input side) and a "
            "symbolic input f, the reshaped operator applied to the rotated input I.f equals T applied to the original result, "
            "identically in all symbols (the input side carries the inverse of I, decided with the symbolic inverse) - for the "
            "target-only, input-only and simultaneous forms; errors go through the same contraction; to_evol / to_uni_evol "
            "pass the flavour->evolution and flavour->unified-evolution matrices to the sides selected by their flags. GRID: "
            "with the interpolation matrices modelled as symbolic matrices named by their provenance (basis of which grid, "
            "evaluated on which points), the reshaped operator equals M[operator grid -> target points] . O . M[input grid -> "
            "operator points]: the output side interpolates the operator's basis at the new points, the input side interpolates "
            "the *new* grid's basis at the operator's points (swapped construction), for the three forms, and the "
            "interpolator is built with the given degree in x-space mode.  The 'nothing to do' shortcuts return an equal copy."
            " The dispatcher of a reshape is built on the grid object (bare points become a logarithmic grid)."
            " Three reshapes in one evaluator between grids with the same points (logarithmic, linear, logarithmic) each use the interpolation of their own grids; memoising decorators and the grid's own __hash__/__eq__ are modelled by the evaluator.",
    "note": "That interpolation reproduces functions representable on the grids is C34; the tolerance used to call two grids equal "
            "is decided there. Here the contraction structure is decided for all operator values.",
    "technique": "partial evaluation with symbolic tensors and provenance-named interpolation matrices + polynomial identity testing over F_p",
    "engine": "sa",
}

MP = "eko.io.manipulate"
NP, NX = 2, 2


def sym_op(name, npid=None, nx=None):
    npid, nx = npid or NP, nx or NX
    return Arr.from_nested([[[[dag.sym(f"{name}_{a}{j}{b}{k}") for k in range(nx)] for b in range(npid)] for j in range(nx)] for a in range(npid)])


def sym_mat(name, n, m=None):
    m = n if m is None else m
    return Arr.from_nested([[dag.sym(f"{name}_{i}{j}") for j in range(m)] for i in range(n)])


def mk_operator(pe, with_err=True, name="O"):
    o = Obj(pe.src.cls("eko.io.items.Operator"))
    o.attrs.update(operator=sym_op(name), error=sym_op("d" + name) if with_err else None)
    return o


def apply_op(O, f):
    """(O f)[a,j] = sum_{b,k} O[a,j,b,k] f[b,k]"""
    A, J, B, K = O.shape
    return [[dag.addn([dag.mul(O[a, j, b, k], f[b][k]) for b in range(B) for k in range(K)]) for j in range(J)] for a in range(A)]


def matvec_pid(T, v):
    """(T v)[c,j] = sum_a T[c,a] v[a][j]"""
    n, m = T.shape
    return [[dag.addn([dag.mul(T[c, a], v[a][j]) for a in range(m)]) for j in range(len(v[0]))] for c in range(n)]


def run(chk):
    global NP, NX
    NP, NX = (3, 3) if chk.tier == "thorough" else (2, 2)
    src = load()
    chk.rule_text = "reshape(O) applied to the rotated input == rotation of (O applied to the input); grid forms == M_out . O . M_in by provenance"
    ffl = src.func(f"{MP}.flavor_reshape")
    fxg = src.func(f"{MP}.xgrid_reshape")
    f_in = [[dag.sym(f"f_{b}{k}") for k in range(NX)] for b in range(NP)]
    n_cases = 0
    for with_err in (True, False):
        for use_t, use_i in ((True, False), (False, True), (True, True)):
            pe = PE(src)
            pe.ext["numpy.allclose"] = lambda p, a, k: False
            pe.ext["warnings.warn"] = lambda p, a, k: None
            T = sym_mat("T", NP) if use_t else None
            I = sym_mat("I", NP) if use_i else None
            elem = mk_operator(pe, with_err)
            try:
                res = pe.call(ffl.qname, [elem], {"targetpids": T, "inputpids": I})
            except (PERaise, ValueError) as e:
                n_cases += 2
                chk.fail("flavour-reshape-commutes-with-apply", ffl.qname, f"raises {e}", where=ffl.where, instance=f"{use_t},{use_i},{with_err}")
                continue
            for attr in ("operator", "error"):
                O = elem.attrs[attr]
                R = pe.getattr(res, attr)
                if O is None:
                    chk.decide(R is None, "flavour-reshape-commutes-with-apply", ffl.qname, "an operator without errors acquires errors",
                               where=ffl.where, instance=f"noerr,{use_t},{use_i}")
                    continue
                n_cases += 1
                # rotated input  f' = I f ;  required  R f' == T (O f)
                fr = matvec_pid(I, f_in) if use_i else f_in
                lhs = apply_op(R, fr)
                rhs = apply_op(O, f_in)
                if use_t:
                    rhs = matvec_pid(T, rhs)
                ok, info = dag.is_zero_fp([dag.sub(x, y) for lr, rr in zip(lhs, rhs) for x, y in zip(lr, rr)], chk.seed, 2)
                chk.decide(ok, "flavour-reshape-commutes-with-apply", ffl.qname,
                           f"{attr}: target rotation {'T' if use_t else '-'}, input rotation {'I' if use_i else '-'}: the reshaped operator "
                           f"applied to the rotated input is not the rotated result of the original operator", where=ffl.where,
                           instance=f"{attr},{use_t},{use_i},{with_err}", data={"witness": info}, how="PE + PIT F_p (symbolic inverse)")
    # shortcuts
    pe = PE(src)
    pe.ext["numpy.allclose"] = lambda p, a, k: True
    pe.ext["warnings.warn"] = lambda p, a, k: None
    pe.ext["copy.deepcopy"] = lambda p, a, k: a[0]
    elem = mk_operator(pe)
    res = pe.call(ffl.qname, [elem], {"targetpids": sym_mat("T", NP), "inputpids": None})
    chk.decide(res is elem or (pe.getattr(res, "operator") is elem.attrs["operator"]), "nothing-to-do-returns-a-copy", ffl.qname,
               "a rotation close to the identity does not return a copy of the operator", where=ffl.where)
    try:
        pe.call(ffl.qname, [elem], {})
        chk.fail("nothing-to-do-returns-a-copy", ffl.qname, "no rotation given: expected ValueError", where=ffl.where, instance="refusal")
    except PERaise as e:
        chk.decide("ValueError" in str(e), "nothing-to-do-returns-a-copy", ffl.qname, f"no rotation given raises {e}", where=ffl.where, instance="refusal")
    # to_evol / to_uni_evol: which matrix goes to which side
    for fname, const in (("to_evol", "rotate_flavor_to_evolution"), ("to_uni_evol", "rotate_flavor_to_unified_evolution")):
        f = src.func(f"{MP}.{fname}")
        for source, target in itertools.product((True, False), repeat=2):
            pe = PE(src)
            cap = {}
            pe.overrides[ffl.qname] = lambda p, a, k, cap=cap: cap.update(args=a, kw=k)
            pe.call(f.qname, [mk_operator(pe)], {"source": source, "target": target})
            kw = cap.get("kw", {})
            M = pe.get_global("eko.basis_rotation", const)
            ok = (kw.get("inputpids") is M if source else kw.get("inputpids") is None) and \
                 (kw.get("targetpids") is M if target else kw.get("targetpids") is None)
            chk.decide(ok, "basis-rotation-wiring", f.qname, f"source={source}, target={target}: flavor_reshape is not called with {const} on "
                       f"exactly the selected side(s)", where=f.where, instance=f"{source},{target}", how="PE")
    # ---- grid -------------------------------------------------------------------------------------------------------------
    xg_cls = src.cls("eko.interpolation.XGrid")
    disp_cls = src.cls("eko.interpolation.InterpolatorDispatcher")

    def grid(tag):
        g = Obj(xg_cls)
        g.attrs.update(raw=("pts", tag), tag=tag)
        return g

    def M(basis, points, n=NX, m=NX):
        return Arr.from_nested([[dag.sym(f"M_{basis}_at_{points}_{i}{j}") for j in range(m)] for i in range(n)])

    for with_err in (True, False):
        for use_t, use_i, same in ((True, False, False), (False, True, False), (True, True, False), (True, True, True)):
            pe = PE(src)
            built = []
            tgt, inp = ("new", "new") if same else ("tgt", "inp")

            def mk_disp(p, a, k, built=built):
                d = Obj(disp_cls)
                a = list(a)
                xg = a[0] if a else k.get("xgrid")
                deg = a[1] if len(a) > 1 else k.get("polynomial_degree")
                mode = a[2] if len(a) > 2 else k.get("mode_N", True)
                # the real dispatcher wraps bare points into a default (logarithmic) grid: the grid's own log / linear flag is lost
                whole = isinstance(xg, Obj) and xg.cls is xg_cls
                d.attrs.update(basis=xg.attrs["tag"] if whole else f"default-log-grid-of-{xg[1] if isinstance(xg, tuple) and len(xg) == 2 else xg}",
                               deg=deg, mode_N=mode, from_grid_object=whole)
                built.append(d)
                return d

            pe.overrides[disp_cls.qname] = mk_disp
            pe.overrides[f"{disp_cls.qname}.get_interpolation"] = lambda p, a, k: M(a[0].attrs["basis"], a[1][1])
            pe.overrides[f"{MP}.xgrid_check"] = lambda p, a, k: False
            pe.overrides[f"{xg_cls.qname}.__eq__"] = lambda p, a, k: isinstance(a[1], Obj) and a[0].attrs["tag"] == a[1].attrs.get("tag")
            pe.ext["warnings.warn"] = lambda p, a, k: None
            elem = mk_operator(pe, with_err)
            deg = dag.sym("deg")
            try:
                res = pe.call(fxg.qname, [elem, grid("op"), deg], {"targetgrid": grid(tgt) if use_t else None, "inputgrid": grid(inp) if use_i else None})
            except (PERaise, ValueError) as e:
                n_cases += 2
                chk.fail("grid-reshape-is-Mout.O.Min", fxg.qname, f"raises {e}", where=fxg.where, instance=f"{use_t},{use_i},{with_err}")
                continue
            chk.decide(all(d.attrs["deg"] is deg and d.attrs["mode_N"] is False and d.attrs["from_grid_object"] for d in built) and len(built) == use_t + use_i,
                       "grid-reshape-is-Mout.O.Min", fxg.qname, f"interpolators built: {[d.attrs for d in built]}; required: built on the grid OBJECT "
                       f"(bare points become a logarithmic grid whatever the grid's flag says), the given degree, x-space mode, one per rotated side",
                       where=fxg.where, instance=f"dispatchers,{use_t},{use_i},{with_err},{same}")
            Mout = M("op", tgt) if use_t else None     # operator basis evaluated at the target points
            Min = M(inp, "op") if use_i else None      # input-grid basis evaluated at the operator's points
            for attr in ("operator", "error"):
                O = elem.attrs[attr]
                R = pe.getattr(res, attr)
                if O is None:
                    chk.decide(R is None, "grid-reshape-is-Mout.O.Min", fxg.qname, "an operator without errors acquires errors", where=fxg.where,
                               instance=f"noerr,{use_t},{use_i}")
                    continue
                n_cases += 1
                bad = []
                for a, i, b, l in itertools.product(range(NP), range(NX), range(NP), range(NX)):
                    terms = []
                    for j, k in itertools.product(range(NX), range(NX)):
                        if not use_t and j != i or not use_i and k != l:
                            continue
                        t = O[a, j, b, k]
                        if use_t:
                            t = dag.mul(Mout[i, j], t)
                        if use_i:
                            t = dag.mul(t, Min[k, l])
                        terms.append(t)
                    bad.append(dag.sub(R[a, i, b, l], dag.addn(terms)))
                ok, info = dag.is_zero_fp(bad, chk.seed, 2)
                chk.decide(ok, "grid-reshape-is-Mout.O.Min", fxg.qname,
                           f"{attr}: target grid {'yes' if use_t else 'no'}, input grid {'yes' if use_i else 'no'}: the result is not "
                           f"M[operator basis at target points] . O . M[input-grid basis at operator points]", where=fxg.where,
                           instance=f"{attr},{use_t},{use_i},{with_err},same={same}", data={"witness": info}, how="PE + PIT F_p")
    pe = PE(src)
    try:
        pe.call(fxg.qname, [mk_operator(pe), grid("op"), 1], {})
        chk.fail("nothing-to-do-returns-a-copy", fxg.qname, "no grid given: expected ValueError", where=fxg.where, instance="grid refusal")
    except PERaise as e:
        chk.decide("ValueError" in str(e), "nothing-to-do-returns-a-copy", fxg.qname, f"no grid given raises {e}", where=fxg.where, instance="grid refusal")
    # two reshapes in ONE process between grids with the same points, first logarithmic then linear: the second is built from the
    # interpolation of ITS grids (memoising decorators and the grid's own __hash__ / __eq__ are modelled by the evaluator)
    from fractions import Fraction

    pe = PE(src)
    pts_op, pts_new = [Fraction(1, 10), Fraction(1, 2), Fraction(1)][:NX] if NX <= 3 else None, None
    pts_op = [Fraction(i + 1, NX) for i in range(NX)]
    pts_new = [Fraction(2 * i + 1, 2 * NX) for i in range(NX)]

    def real_grid(points, log):
        g = Obj(xg_cls)
        raw = Arr.from_nested(list(points))
        g.attrs.update(raw=raw, _raw=raw, grid=raw, log=log, size=len(points), tag=("log" if log else "lin"))
        return g

    def mk_disp3(p, a, k):
        d = Obj(disp_cls)
        a = list(a)
        xg = a[0] if a else k.get("xgrid")
        d.attrs.update(basis=xg.attrs["tag"] if isinstance(xg, Obj) else "default-log-grid", polynomial_degree=a[1] if len(a) > 1 else k.get("polynomial_degree"),
                       log=xg.attrs.get("log") if isinstance(xg, Obj) else True, xgrid=xg)
        return d

    pe.overrides[disp_cls.qname] = mk_disp3
    pe.overrides[f"{disp_cls.qname}.get_interpolation"] = lambda p, a, k: Arr.from_nested(
        [[dag.sym(f"R{a[0].attrs['basis']}_{i}{j}") for j in range(NX)] for i in range(NX)])
    pe.ext["warnings.warn"] = lambda p, a, k: None
    stale = None
    for log in (True, False, True):
        elem = mk_operator(pe, True, name="S")
        tagw = "log" if log else "lin"
        try:
            res = pe.call(fxg.qname, [elem, real_grid(pts_op, log), 2], {"targetgrid": real_grid(pts_new, log), "inputgrid": None})
            used = {s_ for s_ in dag.symbols(dag.tonode(pe.getattr(res, "operator")[0, 0, 0, 0])) if s_.startswith("R")}
            ok = bool(used) and all(s_.startswith("R" + tagw) for s_ in used)
            got = sorted(used)[:3]
        except (PERaise, ValueError) as e:
            ok, got = False, f"raises {e}"
        if not ok and stale is None:
            stale = (tagw, got)
    chk.decide(stale is None, "grid-reshape-is-Mout.O.Min", fxg.qname,
               f"three reshapes in one process between grids with the same points - logarithmic, linear, logarithmic: the "
               f"{'logarithmic' if stale and stale[0] == 'log' else 'linear'} one is built from {stale[1] if stale else ''}; required the interpolation matrix of "
               f"the grids of THAT call (their log / linear flag included) - a matrix kept from an earlier call is handed out", where=fxg.where,
               instance="reshapes in sequence", how="PE of consecutive reshapes in one evaluator")

    chk.floor("tensor identities", n_cases, 18)
    chk.note(cases=n_cases, files=["src/eko/io/manipulate.py"])
    chk.explanation = "Contraction structure of both reshapes decided for all operator values by PE and identity testing."
