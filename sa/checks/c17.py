"""C17 - coupling evaluations are independent of evaluation history (ownership / effect rules)."""
from __future__ import annotations

import ast

from ..src import load, stmt_text

LEVEL = "other"
META = {
    "text": "History independence of a Couplings object is decided as an ownership discipline on its only mutable state (the "
            "reference values a_ref and the memo cache): (1) the cache key contains every parameter of compute(); (2) every value "
            "read from the cache or from a_ref outside __init__ escapes only through .copy() (or a scalar read), and every value "
            "stored in the cache is a copy; (3) no attribute of self other than the cache slot is written outside __init__, and no "
            "method mutates an array parameter in place; (4) every self attribute read by compute()/a() other than the cache is "
            "assigned only in __init__; (5) in-place updates in a() only target arrays that are owned copies (local alias analysis).",
    "note": "Sufficient structural conditions on eko/couplings.py::Couplings; the numerical solvers called by compute() are "
            "assumed pure functions of their arguments (they are module-level functions without global writes, checked). "
            "Not a behavioural test: nothing is executed.",
    "technique": "ownership / alias / effect analysis on the AST of one class (copy-on-read, copy-on-write, key completeness)",
    "engine": "sa",
}

CLS = "eko.couplings.Couplings"


def _is_self_attr(n, attr=None):
    return isinstance(n, ast.Attribute) and isinstance(n.value, ast.Name) and n.value.id == "self" and (
        attr is None or n.attr == attr)


def _parents(tree):
    par = {}
    for n in ast.walk(tree):
        for ch in ast.iter_child_nodes(n):
            par[ch] = n
    return par


def run(chk):
    src = load()
    cls = src.cls(CLS)
    chk.rule_text = "shared state (a_ref, cache) escapes only via .copy(); cache key complete; no writes to self outside __init__"
    methods = {k: f for k, f in cls.methods.items()}
    chk.need("compute" in methods and "a" in methods and "__init__" in methods, "Couplings.compute/a/__init__ vanished")
    init = methods["__init__"]
    init_attrs = set()
    for n in ast.walk(init.node):
        if isinstance(n, (ast.Assign, ast.AnnAssign, ast.AugAssign)):
            tgts = n.targets if isinstance(n, ast.Assign) else [n.target]
            for t in tgts:
                if _is_self_attr(t):
                    init_attrs.add(t.attr)
    chk.need({"a_ref", "cache"} <= init_attrs, "Couplings.__init__ no longer assigns a_ref and cache")
    SHARED = ("a_ref", "cache")

    # ---- (1) cache key completeness ------------------------------------------------------------
    comp = methods["compute"]
    params = [p for p in comp.params if p != "self"]
    # the key is whatever indexes the cache in compute(): `self.cache[K] = ...` with K a local name -> its (single) definition
    key_assign = None
    slots = [t.slice for st in ast.walk(comp.node) if isinstance(st, ast.Assign) for t in st.targets
             if isinstance(t, ast.Subscript) and _is_self_attr(t.value, "cache")]
    key_name = slots[0].id if slots and isinstance(slots[0], ast.Name) else None
    for st in ast.walk(comp.node):
        if isinstance(st, ast.Assign) and any(isinstance(t, ast.Name) and t.id == key_name for t in st.targets):
            key_assign = st
    chk.need(key_assign is not None, "compute() no longer stores into self.cache under a key built in a local variable")
    key_names = {n.id for n in ast.walk(key_assign.value) if isinstance(n, ast.Name)}
    for p in params:
        chk.decide(p in key_names, "cache-key-completeness", comp.qname,
                   f"parameter `{p}` of compute() does not enter the cache key `{stmt_text(key_assign)}`: two queries differing "
                   f"only in `{p}` would share a cache entry", where=comp.where, instance=p, detail=f"`{p}` in key")
    # the key must determine a_ref completely: both components
    comps = {stmt_text(e) for e in (key_assign.value.elts if isinstance(key_assign.value, ast.Tuple) else [])}
    a0 = any("a_ref[0]" in c for c in comps)
    a1 = any("a_ref[1]" in c for c in comps)
    chk.decide(a0 and a1, "cache-key-completeness", comp.qname, "the cache key does not contain both components of a_ref",
               where=comp.where, instance="a_ref components")
    # everything else the result depends on is immutable configuration: self attrs read in compute closure
    n_key = len(params)

    # ---- (2)+(3) loads / stores of shared state outside __init__ ---------------------------------
    n_loads = n_stores = 0
    for name, f in methods.items():
        if name == "__init__":
            continue
        par = _parents(f.node)
        for n in ast.walk(f.node):
            # stores
            if isinstance(n, (ast.Assign, ast.AugAssign, ast.AnnAssign, ast.Delete)):
                tgts = n.targets if isinstance(n, (ast.Assign, ast.Delete)) else [n.target]
                for t in tgts:
                    base = t
                    while isinstance(base, ast.Subscript):
                        base = base.value
                    if _is_self_attr(base):
                        n_stores += 1
                        is_cache_slot = isinstance(t, ast.Subscript) and _is_self_attr(t.value, "cache") \
                            and isinstance(n, ast.Assign)
                        if is_cache_slot:
                            v = n.value
                            copied = isinstance(v, ast.Call) and isinstance(v.func, ast.Attribute) and v.func.attr == "copy"
                            chk.decide(copied, "copy-on-write", f.qname,
                                       f"`{stmt_text(n)}` stores an array in the cache without copying it; the caller keeps a "
                                       f"reference and can change later results", where=f"{f.module.relpath}:{n.lineno}",
                                       instance=stmt_text(n), detail="cache stores a copy")
                        else:
                            chk.fail("no-state-write-outside-init", f.qname,
                                     f"`{stmt_text(n)}` writes attribute `{base.attr}` of the couplings object outside __init__ "
                                     f"(results would depend on earlier queries)", where=f"{f.module.relpath}:{n.lineno}",
                                     instance=stmt_text(n))
            # loads of shared arrays
            if _is_self_attr(n) and n.attr in SHARED and isinstance(n.ctx, ast.Load):
                p = par.get(n)
                val = n
                # self.cache[key]  ->  consider the subscript expression as the shared value
                if n.attr == "cache" and isinstance(p, ast.Subscript) and p.value is n:
                    if isinstance(p.ctx, (ast.Store, ast.Del)):
                        continue
                    val = p
                    p = par.get(p)
                elif n.attr == "cache":
                    # e.g. `key in self.cache`, len(self.cache): reads of the mapping itself are harmless
                    if isinstance(p, ast.Compare) or (isinstance(p, ast.Call) and val in p.args and
                                                      isinstance(p.func, ast.Name) and p.func.id == "len"):
                        continue
                n_loads += 1
                def judge(val, depth=0):
                    """(accepted, offending statement): .copy(), scalar element read, shape-like attribute - directly or through a
                    local name bound once to the shared value whose every use is one of these"""
                    p = par.get(val)
                    if isinstance(p, ast.Attribute) and p.value is val and p.attr == "copy" and isinstance(par.get(p), ast.Call):
                        return True, ""
                    if isinstance(p, ast.Subscript) and p.value is val and isinstance(p.ctx, ast.Load) and not isinstance(p.slice, ast.Slice):
                        return True, ""      # scalar element read (logging, float(...)): element of a float array is immutable
                    if isinstance(p, ast.Attribute) and p.value is val and p.attr in ("shape", "size", "dtype", "astype"):
                        return True, ""
                    if isinstance(p, ast.Assign) and p.value is val and len(p.targets) == 1 and isinstance(p.targets[0], ast.Name) and depth < 3:
                        nm = p.targets[0].id
                        stores = [x for x in ast.walk(f.node) if isinstance(x, ast.Name) and x.id == nm and isinstance(x.ctx, (ast.Store, ast.Del))]
                        if len(stores) == 1 and nm not in f.params:
                            for u in (x for x in ast.walk(f.node) if isinstance(x, ast.Name) and x.id == nm and isinstance(x.ctx, ast.Load)):
                                r = judge(u, depth + 1)
                                if not r[0]:
                                    return r
                            return True, ""
                    stm = p
                    while stm is not None and not isinstance(stm, ast.stmt):
                        stm = par.get(stm)
                    return False, stmt_text(stm) if stm is not None else ""

                ok, why = judge(val)
                chk.decide(ok, "copy-on-read", f.qname,
                           f"`{ast.unparse(val)}` (shared state) escapes un-copied in `{why}`: a caller or an in-place update "
                           f"can now change the reference/cached values seen by later queries",
                           where=f"{f.module.relpath}:{n.lineno}", instance=f"{ast.unparse(val)} in {why}",
                           detail=f"{ast.unparse(val)} -> .copy()/scalar read")
    chk.floor("loads of shared state outside __init__", n_loads, 2)
    chk.floor("stores to self outside __init__ (cache slot)", n_stores, 1)
    chk.floor("cache key parameters", n_key, 5)

    # ---- (3b) no in-place mutation of array parameters -----------------------------------------------
    for name, f in methods.items():
        ps = set(f.params) - {"self"}
        for n in ast.walk(f.node):
            tgt = None
            if isinstance(n, ast.AugAssign):
                tgt = n.target
            elif isinstance(n, ast.Assign):
                tgt = next((t for t in n.targets if isinstance(t, ast.Subscript)), None)
            if tgt is None:
                continue
            base = tgt
            while isinstance(base, (ast.Subscript, ast.Attribute)):
                base = base.value
            if isinstance(base, ast.Name) and base.id in ps and isinstance(tgt, ast.Subscript):
                chk.fail("no-inplace-update-of-parameters", f.qname,
                         f"`{stmt_text(n)}` updates the caller's array `{base.id}` in place", where=f"{f.module.relpath}:{n.lineno}",
                         instance=stmt_text(n))
    chk.ok("no-inplace-update-of-parameters", CLS, f"{len(methods)} methods scanned")

    # ---- (5) in-place updates in a(): targets must be owned -------------------------------------------
    fa = methods["a"]
    owned = set()
    aliases = {}
    bad = []
    n_inplace = 0

    def fresh(expr):
        """expression yields an array nobody else references"""
        if isinstance(expr, ast.Call):
            fn = expr.func
            if isinstance(fn, ast.Attribute) and fn.attr in ("copy", "astype"):
                return True
            if isinstance(fn, ast.Attribute) and _is_self_attr(fn) and fn.attr.startswith("compute"):
                return True  # compute() returns a copy or a fresh result (rules 2)
            if isinstance(fn, ast.Attribute) and isinstance(fn.value, ast.Name) and fn.value.id == "np" and fn.attr in (
                    "array", "zeros", "ones", "empty"):
                return True
        if isinstance(expr, ast.BinOp):
            return True
        if isinstance(expr, ast.Name):
            return expr.id in owned
        if isinstance(expr, ast.IfExp):
            return fresh(expr.body) and fresh(expr.orelse)
        return False

    for st in ast.walk(fa.node):
        if isinstance(st, ast.Assign) and len(st.targets) == 1 and isinstance(st.targets[0], ast.Name):
            nm = st.targets[0].id
            if fresh(st.value):
                owned.add(nm)
            elif isinstance(st.value, (ast.Constant, ast.Tuple)) or not _mentions_array(st.value):
                pass
            else:
                aliases[nm] = stmt_text(st)
    # iterate to a fixed point for aliases of owned names (new_a = final_a)
    changed = True
    while changed:
        changed = False
        for st in ast.walk(fa.node):
            if isinstance(st, ast.Assign) and len(st.targets) == 1 and isinstance(st.targets[0], ast.Name):
                nm = st.targets[0].id
                if nm not in owned and isinstance(st.value, ast.Name) and st.value.id in owned:
                    if all(fresh(s.value) or (isinstance(s.value, ast.Name) and s.value.id in owned)
                           for s in ast.walk(fa.node)
                           if isinstance(s, ast.Assign) and len(s.targets) == 1 and isinstance(s.targets[0], ast.Name)
                           and s.targets[0].id == nm):
                        owned.add(nm)
                        changed = True
    # a name is owned only if EVERY assignment to it is fresh/owned
    for st in ast.walk(fa.node):
        if isinstance(st, ast.Assign) and len(st.targets) == 1 and isinstance(st.targets[0], ast.Name):
            nm = st.targets[0].id
            if nm in owned and not (fresh(st.value) or (isinstance(st.value, ast.Name) and st.value.id in owned)):
                owned.discard(nm)
    for st in ast.walk(fa.node):
        tgt = None
        if isinstance(st, ast.AugAssign) and isinstance(st.target, ast.Subscript):
            tgt = st.target
        elif isinstance(st, ast.Assign):
            tgt = next((t for t in st.targets if isinstance(t, ast.Subscript)), None)
        if tgt is None:
            continue
        base = tgt
        while isinstance(base, ast.Subscript):
            base = base.value
        if isinstance(base, ast.Name):
            n_inplace += 1
            chk.decide(base.id in owned, "inplace-update-targets-owned-array", fa.qname,
                       f"`{stmt_text(st)}` updates `{base.id}` in place, but `{base.id}` may alias shared state "
                       f"({aliases.get(base.id, 'not every assignment to it is a fresh copy')})",
                       where=f"{fa.module.relpath}:{st.lineno}", instance=stmt_text(st), detail=f"{base.id} is an owned copy")
    chk.floor("in-place updates in a()", n_inplace, 1)
    # returned value of a(): must be owned
    for st in ast.walk(fa.node):
        if isinstance(st, ast.Return) and st.value is not None:
            chk.decide(fresh(st.value), "returned-value-is-owned", fa.qname,
                       f"`{stmt_text(st)}` hands out an array that may alias the object's state", where=f"{fa.module.relpath}:{st.lineno}",
                       instance=stmt_text(st), detail="returned array is an owned copy")

    # ---- (4) self attributes read by the query methods are configuration assigned only in __init__ ----
    read_attrs = set()
    for name in ("compute", "a", "a_s", "a_em", "compute_exact_alphaem_running", "compute_exact_fixed_alphaem",
                 "unidimensional_exact"):
        if name in methods:
            for n in ast.walk(methods[name].node):
                if _is_self_attr(n) and isinstance(n.ctx, ast.Load) and n.attr not in methods and not _is_property(cls, n.attr):
                    read_attrs.add(n.attr)
    for a in sorted(read_attrs):
        chk.decide(a in init_attrs, "configuration-fixed-at-construction", CLS,
                   f"attribute `{a}` is read by the query methods but never assigned in __init__", where=cls.where, instance=a,
                   detail=f"self.{a} assigned in __init__ only")

    # ---- module-level solvers have no global writes --------------------------------------------------
    mod = src.module("eko.couplings")
    for f in mod.funcs.values():
        gw = [n for n in ast.walk(f.node) if isinstance(n, (ast.Global, ast.Nonlocal))]
        chk.decide(not gw, "pure-solver-functions", f.qname, f"{f.qname} declares global/nonlocal state", where=f.where,
                   detail="no global/nonlocal")
    chk.note(methods=sorted(methods), shared_state=list(SHARED), init_attrs=sorted(init_attrs), owned_locals_in_a=sorted(owned),
             files=["src/eko/couplings.py"])
    chk.explanation = ("Ownership discipline on Couplings: shared arrays (a_ref, cache entries) never escape un-copied, are never "
                       "updated in place, the cache key covers every parameter, and nothing else is mutable after construction; "
                       "hence every query is a function of its arguments and the construction-time configuration only.")


def _mentions_array(expr):
    for n in ast.walk(expr):
        if isinstance(n, ast.Attribute) and isinstance(n.value, ast.Name) and n.value.id == "self":
            return True
        if isinstance(n, ast.Name) and n.id.endswith("_a"):
            return True
    return False


def _is_property(cls, name):
    f = cls.methods.get(name)
    return f is not None and any("property" in d for d in f.decorator_names())
