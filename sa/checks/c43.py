"""C43 - applying an EKO to a PDF is the operator contraction (+ optional basis rotation and re-interpolation)."""
from __future__ import annotations

import itertools

from .. import dag
from ..arr import Arr
from ..pe import PE, Obj, PERaise, Opaque
from ..src import load

LEVEL = "proof"
META = {
    "text": "apply_pdf is partially evaluated on a mock EKO holding two symbolic rank-4 operators (one with, one without errors) over "
            "the full 14-flavour basis and a symbolic grid, and a symbolic PDF-like object with some flavours missing. For every "
            "combination of QCD/QED, with/without rotation to the evolution basis and with/without target grid, every returned "
            "value is proved identical to the reference: result[ep][label_c][i] = sum_j M[i,j] sum_a R[c,a] sum_{b,k} "
            "O_ep[a,j,b,k] * xf_b(x_k, mu0^2)/x_k, with R the flavour->evolution (QCD) or flavour->unified-evolution (QED) "
            "matrix or the identity, M the interpolation matrix of the operator's own grid (built with the card's degree, "
            "x-space mode) at the target points or the identity, absent flavours contributing zero, the division by x applied "
            "exactly once, labels taken from the basis actually rotated to; errors go through the same chain with the stored "
            "error tensor and exist only for operators that have one."
            " The internal points in another order as target grid give the permutation (shared with C34)."
            " Three applications in one evaluator to archives with the same points and alternating kinds of interpolation each use an interpolator built on the grid object of the archive being applied.",
    "note": "Values of the interpolation matrix itself are C34.",
    "technique": "partial evaluation with symbolic tensors and a symbolic PDF object + polynomial identity testing over F_p",
    "engine": "sa",
}

AP = "ekobox.apply"
NX = 2


MU20 = dag.power(dag.sym("mu0"), 2)


class MockPdf(Opaque):
    def __init__(self, present):
        self.present = set(present)
        self.calls = []

    def hasFlavor(self, pid):
        return pid in self.present

    def xfxQ2(self, pid, x, q2):
        self.calls.append((pid, x, q2))
        return dag.fn("xf", dag.const(pid), dag.tonode(x), dag.tonode(q2))


class MockCard(Opaque):
    pass


class MockEko(Opaque):
    _real = "eko.io.struct.EKO"  # members not set here are the real archive's properties

    def __init__(self, src, ops, qed):
        xg = Obj(src.cls("eko.interpolation.XGrid"))
        xs = [dag.sym(f"x{k}") for k in range(NX)]
        xg.attrs.update(raw=Arr.from_nested(xs), grid=Arr.from_nested(xs), log=True, tag="op")
        self.xgrid = xg
        # the initial point as the archive offers it: squared in the metadata / mu20, as (mu0, nf0) in the operator card
        self.mu20 = MU20
        self.metadata = MockCard()
        self.metadata.origin = (MU20, 4)
        self.theory_card = MockCard()
        self.theory_card.order = (1, 1 if qed else 0)
        self.operator_card = MockCard()
        self.operator_card._real = "eko.io.runcards.OperatorCard"
        self.operator_card.init = (dag.sym("mu0"), 4)
        self.operator_card.mu20 = MU20
        self.operator_card.configs = MockCard()
        self.operator_card.configs.interpolation_polynomial_degree = dag.sym("deg")
        self._ops = ops

    def items(self):
        return list(self._ops.items())


def sym_op(name, npid, nx):
    return Arr.from_nested([[[[dag.sym(f"{name}_{a}_{j}_{b}_{k}") for k in range(nx)] for b in range(npid)] for j in range(nx)] for a in range(npid)])


def run(chk):
    global NX
    NX = 3 if chk.tier == "thorough" else 2
    src = load()
    chk.rule_text = "apply_pdf(eko, pdf)[ep][label][i] == M . R . (O_ep . xf/x) for every option combination"
    fap = src.func(f"{AP}.apply_pdf")
    pe0 = PE(src)
    pids = list(pe0.get_global("eko.basis_rotation", "flavor_basis_pids"))
    chk.need(len(pids) == 14, "flavor basis no longer has 14 entries")
    present = [p for p in pids if p not in (22, -6, 6, 5)]
    n_id = 0
    disp_cls = src.cls("eko.interpolation.InterpolatorDispatcher")
    for qed, rot, tgt in itertools.product((False, True), (False, True), (False, True)):
        pe = PE(src)
        ops = {}
        for i, with_err in enumerate((True, False)):
            o = Obj(src.cls("eko.io.items.Operator"))
            o.attrs.update(operator=sym_op(f"O{i}", 14, NX), error=sym_op(f"E{i}", 14, NX) if with_err else None)
            ops[(dag.sym(f"mu2_{i}"), 4 + i)] = o
        eko = MockEko(src, ops, qed)
        pdf = MockPdf(present)
        built = []

        def mk_disp(p, a, k, built=built):
            d = Obj(disp_cls)
            d.attrs.update(xgrid=k.get("xgrid", a[0] if a else None), deg=k.get("polynomial_degree", a[1] if len(a) > 1 else None),
                           mode_N=k.get("mode_N", a[2] if len(a) > 2 else True))
            d.attrs.update(polynomial_degree=d.attrs["deg"], log=getattr(d.attrs["xgrid"], "attrs", {}).get("log"))
            built.append(d)
            return d

        NT = 3
        Mx = Arr.from_nested([[dag.sym(f"M_{i}{j}") for j in range(NX)] for i in range(NT)])
        pe.overrides[disp_cls.qname] = mk_disp
        pe.overrides[f"{disp_cls.qname}.get_interpolation"] = lambda p, a, k: Mx
        target = Arr.from_nested([dag.sym(f"xt{i}") for i in range(NT)]) if tgt else None
        inst = f"qed={qed},rotate={rot},targetgrid={tgt}"
        try:
            pdfs, errs = pe.call(fap.qname, [eko, pdf], {"targetgrid": target, "rotate_to_evolution_basis": rot})
        except (PERaise, ValueError) as e:
            chk.fail("apply-is-the-contraction", fap.qname, f"{inst}: raises {e}", where=fap.where, instance=inst)
            continue
        if tgt:
            ok = len(built) >= 1 and all(d.attrs["xgrid"] is eko.xgrid and d.attrs["deg"] is dag.sym("deg") and d.attrs["mode_N"] is False for d in built)
            chk.decide(ok, "target-grid-uses-the-operator-grid", f"{AP}.rotate_result", f"{inst}: interpolators built with "
                       f"{[(getattr(d.attrs['xgrid'], 'attrs', {}).get('tag', type(d.attrs['xgrid']).__name__), d.attrs['deg'], d.attrs['mode_N']) for d in built]}; "
                       f"required: the EKO's own XGrid object (keeping its log flag), the card's degree, x-space mode",
                       where=src.func(f"{AP}.rotate_result").where, instance=inst)
        if rot:
            Rm = pe.get_global("eko.basis_rotation", "rotate_flavor_to_unified_evolution" if qed else "rotate_flavor_to_evolution")
            labels = list(pe.get_global("eko.basis_rotation", "unified_evol_basis_pids" if qed else "evol_basis_pids"))
        else:
            Rm = None
            labels = pids
        # input f[b][k]
        f = [[dag.div(dag.fn("xf", dag.const(p), dag.sym(f"x{k}"), MU20), dag.sym(f"x{k}")) if p in present else dag.const(0)
              for k in range(NX)] for p in pids]
        for (ep, o), res, kind in [(x, pdfs, "operator") for x in ops.items()] + [(x, errs, "error") for x in ops.items()]:
            T = o.attrs[kind]
            if T is None:
                chk.decide(ep not in res, "apply-is-the-contraction", fap.qname, f"{inst}: an operator without errors yields an error entry",
                           where=fap.where, instance=inst + ",noerr")
                continue
            if ep not in res:
                chk.fail("apply-is-the-contraction", fap.qname, f"{inst}: no {kind} result for point {ep}", where=fap.where, instance=inst + kind)
                continue
            got = res[ep]
            chk.decide(list(got.keys()) == labels, "labels-match-the-basis", fap.qname, f"{inst}: result labelled {list(got.keys())[:5]}..., "
                       f"required {labels[:5]}...", where=fap.where, instance=inst + kind)
            base = [[dag.addn([dag.mul(T[a, j, b, k], f[b][k]) for b in range(14) for k in range(NX) if f[b][k] is not dag.const(0)])
                     for j in range(NX)] for a in range(14)]
            if Rm is not None:
                base = [[dag.addn([dag.mul(dag.tonode(Rm[c, a]), base[a][j]) for a in range(14) if dag.tonode(Rm[c, a]) is not dag.const(0)])
                         for j in range(NX)] for c in range(14)]
            if tgt:
                base = [[dag.addn([dag.mul(Mx[i, j], base[c][j]) for j in range(NX)]) for i in range(NT)] for c in range(14)]
            diffs = []
            for c, lab in enumerate(labels):
                vec = got.get(lab)
                if vec is None:
                    diffs.append(dag.const(1))
                    continue
                vals = vec.flat() if isinstance(vec, Arr) else list(vec)
                if len(vals) != len(base[c]):
                    diffs.append(dag.const(1))
                    continue
                diffs.extend(dag.sub(dag.tonode(v), w) for v, w in zip(vals, base[c]))
            ok, info = dag.is_zero_fp(diffs, chk.seed, 2)
            n_id += 1
            chk.decide(ok, "apply-is-the-contraction", fap.qname,
                       f"{inst}, {kind} at {ep}: the returned values are not M . R . (O . xf/x) (contraction indices, division by x, rotation "
                       f"matrix or interpolation side differ)", where=fap.where, instance=f"{inst},{kind},{ep[1]}", data={"witness": info},
                       how="PE + PIT F_p")
        # every present flavour asked exactly once per grid point at the initial scale
        want_calls = {(p, k) for p in present for k in range(NX)}
        got_calls = {(p, int(str(x)[1:])) for p, x, q in pdf.calls if dag.tonode(q) is MU20 and str(x).startswith("x")}
        chk.decide(got_calls == want_calls and len(pdf.calls) == len(want_calls), "pdf-sampled-on-the-operator-grid", f"{AP}.apply_pdf_flavor",
                   f"{inst}: the PDF is sampled {len(pdf.calls)} times; required once per present flavour and grid point at mu0^2",
                   where=src.func(f"{AP}.apply_pdf_flavor").where, instance=inst)
    # the matrix the target grid goes through (stood in for above by a symbolic matrix): internal points given in another order are a
    # different target grid - the results must come back in the order asked for
    from .c34 import permuted_target_rule

    permuted_target_rule(chk, src, "target-grid-is-reinterpolation")
    # three applications in ONE process to archives with the same x points but alternating kinds of interpolation: whatever
    # interpolator an application uses was built on ITS grid object (with its log / linear flag)
    pe = PE(src)
    used = []

    def mk_disp2(p, a, k):
        d = Obj(disp_cls)
        d.attrs.update(xgrid=k.get("xgrid", a[0] if a else None), polynomial_degree=k.get("polynomial_degree", a[1] if len(a) > 1 else None),
                       mode_N=k.get("mode_N", a[2] if len(a) > 2 else True))
        d.attrs["log"] = getattr(d.attrs["xgrid"], "attrs", {}).get("log")
        return d

    pe.overrides[disp_cls.qname] = mk_disp2
    pe.overrides[f"{disp_cls.qname}.get_interpolation"] = lambda p, a, k: used.append(a[0]) or Arr.from_nested([[dag.sym(f"M_{i}{j}") for j in range(NX)] for i in range(2)])
    stale = None
    for turn, log in enumerate((True, False, True)):
        o = Obj(src.cls("eko.io.items.Operator"))
        o.attrs.update(operator=sym_op(f"P{turn}", 14, NX), error=sym_op(f"Q{turn}", 14, NX))
        eko = MockEko(src, {(dag.sym("mu2_0"), 4): o}, False)
        eko.xgrid.attrs.update(log=log, _raw=eko.xgrid.attrs["raw"], size=NX)
        del used[:]
        try:
            pe.call(fap.qname, [eko, MockPdf(present)], {"targetgrid": Arr.from_nested([dag.sym("xt0"), dag.sym("xt1")]), "rotate_to_evolution_basis": False})
        except (PERaise, ValueError) as e:
            stale = stale or (turn, f"raises {e}")
            continue
        wrong = [d for d in used if not (isinstance(d, Obj) and d.attrs.get("xgrid") is eko.xgrid)]
        if (wrong or not used) and stale is None:
            stale = (turn, f"uses an interpolator built on {[('another grid object, log=' + str(getattr(d.attrs.get('xgrid'), 'attrs', {}).get('log'))) if isinstance(d, Obj) else type(d).__name__ for d in wrong] or 'nothing'}")
    chk.decide(stale is None, "target-grid-uses-the-operator-grid", f"{AP}.rotate_result",
               f"three applications in one process to archives with the same x points, logarithmic / linear / logarithmic: application {stale[0] + 1 if stale else ''} "
               f"{stale[1] if stale else ''}; required: the interpolator of the archive being applied (its grid object with its flag) - something kept "
               f"from an earlier application is reused", where=src.func(f"{AP}.rotate_result").where, instance="applications in sequence",
               how="PE of consecutive applications in one evaluator")
    chk.floor("tensor identities", n_id, 20)
    chk.note(identities=n_id, files=["src/ekobox/apply.py"])
    chk.explanation = "Whole apply chain decided for all operator and PDF values, for the 8 option combinations."
