"""C32 - evolution-basis operators are reconstructed exactly in the flavour basis (exhaustive, exact)."""
from __future__ import annotations

from .. import dag, flav
from ..arr import Arr
from fractions import Fraction

from ..pe import PE, PERaise, decide_on_values
from ..src import load

LEVEL = "proof"
META = {
    "text": "For every label set the library builds - PhysicalOperator.ad_to_evol_map (nf 3-6) and MatchingCondition."
            "split_ad_to_evol_map (nf 3-5), in QCD and in the unified QED basis - the members are given independent symbolic values "
            "and OperatorBase.to_flavor_basis_tensor is partially evaluated. The resulting 14x14 flavour tensor is proved equal, "
            "entry by entry as a linear form in the member symbols, to B_out^-1 . O . B_in where B are the intrinsic evolution "
            "bases with nf_out / nf_in active flavours WRITTEN IN THE CHECKER from their documented definitions (S, V, T_k, V_k; "
            "in QED S_delta = nd/nu sum_up - sum_down, Td3.., heavy quarks as q+/q-), and B^-1 is an exact matrix inverse. "
            "get_range is proved to return the intended (nf_in, nf_out) for each set. The library's flavour-content tables "
            "(pids_from_intrinsic_evol / _unified_evol) are also compared with the reference bases label by label."
            " The physical label sets of nf = 3, 4, 5, 6, 3 are also rotated one after the other in ONE evaluator (QED and QCD): nothing remembered from an earlier flavour number enters.",
    "note": "Exhaustive over the finite configuration space; exact rationals; member values are scalars (x-grid of length one), "
            "which is general because the reconstruction acts on the flavour indices only (structure visible in the source: the "
            "x-block op.value is multiplied by scalar weights).",
    "technique": "partial evaluation over the finite configuration space + exact linear algebra against a reference change of basis",
    "engine": "sa",
}

PH = "eko.evolution_operator.physical.PhysicalOperator"
MC = "eko.evolution_operator.matching_condition.MatchingCondition"
FL = "eko.evolution_operator.flavors"


def physical_members(pe, qed):
    labels = pe.get_global(flav.BR, "full_unified_labels" if qed else "full_labels")
    return flav.symbolic_members(pe, labels)


def matching_members(pe):
    keys = [(100, 100), (100, 21), (21, 100), (21, 21), (200, 200), (90, 100), (90, 21), (90, 90), (100, 90), (21, 90), (91, 91)]
    return flav.symbolic_members(pe, keys, prefix="m")


def tensor_of(pe, opbase, qed):
    val, err = pe.apply(pe.getattr(opbase, "to_flavor_basis_tensor"), [qed], {})
    return val


def compare(chk, pe, opbase, qed, nf_in, nf_out, construct, where, inst):
    members = {}
    for k, v in pe.getattr(opbase, "op_members").items():
        members[pe.getattr(k, "name")] = v.attrs["value"][0, 0]
    try:
        ref = flav.reference_tensor(members, nf_in, nf_out, qed)
    except KeyError as e:
        chk.fail("flavour-tensor-equals-change-of-basis", construct, f"member {e} names a distribution that does not exist in the "
                 f"intrinsic basis with nf_in={nf_in}/nf_out={nf_out} ({inst})", where=where, instance=inst)
        return
    try:
        T = tensor_of(pe, opbase, qed)
    except PERaise as e:
        chk.fail("flavour-tensor-equals-change-of-basis", construct, f"to_flavor_basis_tensor raises {e} ({inst})", where=where, instance=inst)
        return
    diffs = []
    pos = []
    for o in range(14):
        for i in range(14):
            diffs.append(dag.sub(T[o, 0, i, 0], ref[o][i]))
            pos.append((flav.PIDS[o], flav.PIDS[i]))
    ok, info = dag.is_zero_fp(diffs, chk.seed, 2)
    where_bad = pos[info["index"]] if not ok else None
    chk.decide(ok, "flavour-tensor-equals-change-of-basis", construct,
               f"{inst}: flavour tensor entry (out pid {where_bad[0] if where_bad else ''}, in pid {where_bad[1] if where_bad else ''}) = "
               f"{dag.short(dag.tonode(T[flav.idx(where_bad[0]), 0, flav.idx(where_bad[1]), 0]), 160) if where_bad else ''} differs from the change of basis "
               f"{dag.short(ref[flav.idx(where_bad[0])][flav.idx(where_bad[1])], 160) if where_bad else ''}", where=where, instance=inst,
               data={"witness": info}, detail=f"{len(members)} members, 196 entries", how="PE + PIT F_p")


def _case(chk, case):
    src = load()
    box = [None]
    pe = PE(src, assume=lambda text, env: decide_on_values(box[0], text, env))    # symbolic member values are generic: not within a tolerance of zero
    box[0] = pe
    f_phys = src.func(f"{PH}.ad_to_evol_map")
    f_match = src.func(f"{MC}.split_ad_to_evol_map")
    f_rng = src.func(f"{FL}.get_range")
    kind = case[0]
    if kind == "table":
        _, qed, nf = case
        fn = f"{FL}.pids_from_intrinsic_unified_evol" if qed else f"{FL}.pids_from_intrinsic_evol"
        f = src.func(fn)
        B = flav.reference_basis(nf, qed)
        bad = None
        for lab, want in sorted(B.items()):
            try:
                w = pe.call(fn, [lab, nf, False])
                got = [dag.as_const(x) for x in w.flat()]
                wn = pe.call(fn, [lab, nf, True])
                gotn = [dag.as_const(x) for x in wn.flat()]
            except PERaise as e:
                bad = (lab, f"raises {e}")
                break
            nrm = sum(x * x for x in want)
            if got != want:
                bad = (lab, f"{[str(x) for x in got]} != {[str(x) for x in want]}")
                break
            if gotn != [x / nrm for x in want]:
                bad = (lab, "normalised weights are not w/(w.w)")
                break
        chk.decide(bad is None, "flavour-content-table", fn,
                   f"qed={qed}, nf={nf}: weights of `{bad[0] if bad else ''}`: {bad[1] if bad else ''} (order ph, tbar..dbar, g, d..t)",
                   where=f.where, instance=f"qed={qed},nf={nf}", detail=f"{len(B)} labels", how="exact")
    elif kind == "physical":
        _, qed, nf = case[:3]
        tiny = len(case) > 3
        inst = f"physical,qed={qed},nf={nf}" + (",all member values of size 1e-10" if tiny else "")
        opm = physical_members(pe, qed)
        if tiny:
            # members that are small but not zero (a very short step, a suppressed mixing): they are rotated like any other
            for i, (k_, m_) in enumerate(sorted(opm.items())):
                m_.attrs["value"] = Arr.from_nested([[Fraction(i + 1, 10 ** 10)]])
                m_.attrs["error"] = Arr.from_nested([[Fraction(i + 1, 10 ** 11)]])
        ob = pe.apply(pe.getattr(pe.import_ref(PH), "ad_to_evol_map"), [opm, nf, dag.sym("q2"), qed], {})
        rng = pe.call(f_rng.qname, [list(pe.getattr(ob, "op_members").keys()), qed])
        chk.decide(tuple(rng) == (nf, nf), "range-of-label-set", f_rng.qname, f"{inst}: get_range = {rng}, expected ({nf}, {nf})",
                   where=f_rng.where, instance=inst)
        compare(chk, pe, ob, qed, nf, nf, f_phys.qname, f_phys.where, inst)
    elif kind == "matching":
        _, qed, nf = case
        inst = f"matching,qed={qed},nf={nf}"
        opm = matching_members(pe)
        ob = pe.apply(pe.getattr(pe.import_ref(MC), "split_ad_to_evol_map"), [opm, nf, dag.sym("q2"), qed], {})
        rng = pe.call(f_rng.qname, [list(pe.getattr(ob, "op_members").keys()), qed])
        chk.decide(tuple(rng) == (nf, nf), "range-of-label-set", f_rng.qname, f"{inst}: get_range = {rng}, expected ({nf}, {nf})",
                   where=f_rng.where, instance=inst)
        compare(chk, pe, ob, qed, nf, nf, f_match.qname, f_match.where, inst)
    else:
        # products (physical(nf+1) @ rotated matching) have different nf on the two sides: to_flavor_basis_tensor handles
        # nf_in != nf_out through get_range; exercised with a hand-made label set
        _, qed, nf_in, nf_out = case
        inst = f"mixed,qed={qed},nf_in={nf_in},nf_out={nf_out}"
        tops = {False: {3: "T8", 4: "T15", 5: "T24", 6: "T35"}, True: {3: "Td3", 4: "Tu3", 5: "Td8", 6: "Tu8"}}[qed]
        top_in, top_out = tops[nf_in], tops[nf_out]
        names = ["S.S", "g.S", f"{top_out}.{top_in}", "S.g", f"{top_out}.S", "V.V", f"g.{top_in}"]
        mcls = src.cls("eko.member.MemberName")
        members = {}
        for nm in names:
            members[pe.instantiate(mcls.qname, [nm])] = flav.make_member(pe, dag.sym("x_" + nm.replace(".", "_")))
        ob = pe.instantiate("eko.member.OperatorBase", [members, dag.sym("q2")])
        rng = pe.call(f_rng.qname, [list(members.keys()), qed])
        chk.decide(tuple(rng) == (nf_in, nf_out), "range-of-label-set", f_rng.qname, f"{inst}: get_range = {rng}",
                   where=f_rng.where, instance=inst)
        compare(chk, pe, ob, qed, nf_in, nf_out, "eko.member.OperatorBase.to_flavor_basis_tensor",
                src.func("eko.member.OperatorBase.to_flavor_basis_tensor").where, inst)


def run(chk):
    from ..core import pmap

    load()
    chk.rule_text = "to_flavor_basis_tensor(members) == B_out^-1 . O . B_in with reference intrinsic bases"
    cases = []
    for qed in (False, True):
        for nf in (3, 4, 5, 6):
            cases.append(("table", qed, nf))
            cases.append(("physical", qed, nf))
            if nf in (4, 6):
                cases.append(("physical", qed, nf, "tiny"))
        for nf in (3, 4, 5):
            cases.append(("matching", qed, nf))
        for nf_in, nf_out in ((3, 4), (4, 5), (5, 6), (4, 3), (6, 5)):
            cases.append(("mixed", qed, nf_in, nf_out))
    cases.sort(key=lambda c: {"physical": 0, "matching": 1, "mixed": 2, "table": 3}[c[0]])
    pmap(chk, _case, cases, jobs=12)
    # operators of several flavour numbers rotated one after the other in ONE process (what a variable-flavour-number run does): each
    # tensor is the change of basis of ITS flavour number - weights remembered from an earlier one must not be re-used
    src = load()
    box = [None]
    pe = PE(src, assume=lambda text, env: decide_on_values(box[0], text, env))
    box[0] = pe
    f_phys = src.func(f"{PH}.ad_to_evol_map")
    for qed in (True, False):
        for nf in (3, 4, 5, 6, 3):
            inst = f"physical,qed={qed},nf={nf},after other flavour numbers in the same process"
            try:
                ob = pe.apply(pe.getattr(pe.import_ref(PH), "ad_to_evol_map"), [physical_members(pe, qed), nf, dag.sym("q2"), qed], {})
                compare(chk, pe, ob, qed, nf, nf, f_phys.qname, f_phys.where, inst)
            except PERaise as e:
                chk.fail("flavour-tensor-equals-change-of-basis", f_phys.qname, f"{inst}: raises {e}", where=f_phys.where, instance=inst)
    chk.floor("label sets", len(cases), 8 + 8 + 6 + 10)
    chk.note(instances=len(cases), files=["src/eko/member.py", "src/eko/evolution_operator/flavors.py",
                                          "src/eko/evolution_operator/physical.py", "src/eko/evolution_operator/matching_condition.py"])
    chk.explanation = "Flavour tensors of all library label sets equal the exact change of basis with independently written bases."
