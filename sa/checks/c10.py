"""C10 - evolution kernels are trivial at equal couplings and compose where exact."""
from __future__ import annotations

import ast

from fractions import Fraction

from .. import dag, kern
from ..arr import Arr
from ..pe import PERaise

LEVEL = "proof"
META = {
    "text": "Every non-singlet method (8 methods x orders 1-4) is extracted as a formula and proved to equal 1 at a1=a0; the "
            "singlet dispatcher is proved to return the identity for equal couplings for every method and order (evaluated with "
            "one symbol for both couplings: the closed forms are 0/0 there); the QED non-singlet, singlet and valence kernels are proved to be "
            "the identity when all coupling steps coincide. Composition E(a2,a1)E(a1,a0) = E(a2,a0) is proved as an identity in "
            "all symbols for the non-singlet exact, expanded and ordered-truncated kernels at orders 1-4, in three orderings of the couplings (two steps towards higher scales, two towards lower scales, a step down followed by a step up - conditions that compare couplings are decided per ordering), and for the LO singlet "
            "kernel with a general 2x2 matrix. Every singlet method that iterates over coupling steps (orders 2-4) is proved to "
            "accumulate its steps in path order: with a free intermediate grid point am the two-step kernel is exactly "
            "K(am->a1) @ K(a0->am) of the one-step kernels (later step on the left).",
    "note": "Formula level (branches of log/atan/sqrt/cbrt assumed principal, log(u/v)=log u-log v). Of the iterated singlet "
            "kernel's composition up to discretisation error only the path ordering of the step product is decided (a necessary "
            "condition: for the reversed product the error does not shrink with the number of steps); the size of the "
            "discretisation error is a runtime quantity. PIT in F_p (error < 1e-30).",
    "technique": "partial evaluation to formulas + polynomial identity testing",
    "engine": "sa",
}


def run(chk):
    src, pe, M = kern.setup(chk)
    kern.install_expm_model(pe)
    chk.trusted += ["random interpretation in F_p"]
    chk.rule_text = "E(a,a) == 1 ; E(a2,a1) E(a1,a0) == E(a2,a0)"
    a0, a1, a2, nf = dag.sym("a0"), dag.sym("a1"), dag.sym("a2"), dag.sym("nf")
    nd = src.func(f"{kern.NS}.dispatcher")
    sd = src.func(f"{kern.SG}.dispatcher")
    n_inst = 0

    # ---- identity at equal couplings: non-singlet, all methods and orders
    for n in range(1, 5):
        g = kern.ns_gamma(n)
        for mname, mem in M.items():
            inst = f"order={n},method={mname}"
            n_inst += 1
            try:
                E = pe.call(nd.qname, [(n, 0), mem, g, a1, a0, nf])
                E0 = dag.substitute(dag.tonode(E), {"a1": a0})
                ok, info = dag.is_zero_fp([dag.sub(E0, 1)], chk.seed, 3)
            except ZeroDivisionError as e:
                ok, info = False, {"error": str(e)}
            chk.decide(ok, "identity-at-equal-couplings", nd.qname, f"non-singlet kernel is not 1 at a1=a0 ({inst})",
                       where=nd.where, instance=inst, data={"witness": info}, how="PIT F_p")

    # ---- identity at equal couplings: singlet dispatcher (guard) ------------------------------
    # (evaluated: with the same symbol for both couplings every method must return the identity; the closed forms are 0/0 there, so
    # a dispatcher that does not single the case out fails with a division by an exact zero)
    for n in range(1, 5):
        G = kern.sg_gamma(n)
        for mname, mem in M.items():
            inst = f"order={n},method={mname}"
            n_inst += 1
            try:
                K = pe.call(sd.qname, [(n, 0), mem, G, a0, a0, nf, 2, (n + 1, 0)])
                ok = isinstance(K, Arr) and K.shape == (2, 2)
                info = {}
                if ok:
                    ok, info = dag.is_zero_fp(kern.mat_sub(K, kern.eye(2)).flat(), chk.seed, 2)
            except (ZeroDivisionError, PERaise) as e:
                ok, info = False, {"error": str(e)}
            chk.decide(ok, "identity-at-equal-couplings", sd.qname, f"singlet dispatcher does not return the identity at a1=a0 ({inst})",
                       where=sd.where, instance=inst, data={"witness": info}, how="PE + PIT F_p")

    # ---- QED kernels: all coupling steps equal ------------------------------------------------------
    aem = dag.sym("aem")
    mu = dag.sym("mu2")
    for n in (1, 2, 3, 4):
        for m in (1, 2):
            for its in (1, 3):
                inst = f"order=({n},{m}),iterations={its}"
                as_list = Arr.from_nested([a0] * (its + 1))
                a_half = Arr.from_nested([[a0, aem]] * its)
                for qn, dim in ((f"{kern.QSG}.dispatcher", 4), (f"{kern.QVL}.dispatcher", 2)):
                    f = src.func(qn)
                    G = Arr.from_nested([[[[dag.sym(f"Q{i}_{j}_{r}{c}") for c in range(dim)] for r in range(dim)]
                                          for j in range(m + 1)] for i in range(n + 1)])
                    n_inst += 1
                    try:
                        K = pe.call(qn, [(n, m), M["ITERATE_EXACT"], G, as_list, a_half, 5, its, (10, 0)])
                        ok, info = dag.is_zero_fp(kern.mat_sub(K, kern.eye(dim)).flat(), chk.seed, 2)
                    except (ZeroDivisionError, PERaise) as e:
                        ok, info = False, {"error": str(e)}
                    chk.decide(ok, "identity-at-equal-couplings", qn, f"QED kernel is not the identity when all coupling steps coincide ({inst})",
                               where=f.where, instance=inst, data={"witness": info}, how="PE + PIT F_p")
                fq = src.func(f"{kern.QNS}.dispatcher")
                G = Arr.from_nested([[dag.sym(f"G{i}_{j}") for j in range(m + 1)] for i in range(n + 1)])
                aem_list = Arr.from_nested([aem] * its)
                n_inst += 1
                try:
                    E = pe.call(fq.qname, [(n, m), M["ITERATE_EXACT"], G, as_list, aem_list, False, 5, its, mu, mu])
                    ok, info = dag.is_zero_fp([dag.sub(E, 1)], chk.seed, 2)
                except (ZeroDivisionError, PERaise) as e:
                    ok, info = False, {"error": str(e)}
                chk.decide(ok, "identity-at-equal-couplings", fq.qname,
                           f"QED non-singlet kernel is not 1 for coinciding couplings and scales ({inst})",
                           where=fq.where, instance=inst, data={"witness": info}, how="PE + PIT F_p")

    # ---- composition --------------------------------------------------------------------------
    # in every ordering of the three couplings (conditions that compare couplings are decided per regime): two steps towards higher
    # scales, two towards lower scales, and a step down in scale followed by a step up
    F_ = Fraction
    regimes = (("forward", {"a0": F_(30, 1000), "a1": F_(25, 1000), "a2": F_(20, 1000)}),
               ("backward", {"a0": F_(20, 1000), "a1": F_(25, 1000), "a2": F_(30, 1000)}),
               ("down-then-up", {"a0": F_(25, 1000), "a1": F_(30, 1000), "a2": F_(20, 1000)}))
    for n in range(1, 5):
        g = kern.ns_gamma(n)
        for mname in ("ITERATE_EXACT", "ITERATE_EXPANDED", "ORDERED_TRUNCATED"):
            for rname, rep in regimes:
                inst = f"order={n},method={mname},couplings={rname}"
                n_inst += 1
                try:
                    with kern.direction(rep):
                        E21 = pe.call(nd.qname, [(n, 0), M[mname], g, a2, a1, nf])
                        E10 = pe.call(nd.qname, [(n, 0), M[mname], g, a1, a0, nf])
                        E20 = pe.call(nd.qname, [(n, 0), M[mname], g, a2, a0, nf])
                    ok, info = dag.is_zero_fp([dag.sub(dag.mul(E21, E10), E20)], chk.seed, 3)
                except (ZeroDivisionError, PERaise) as e:
                    ok, info = False, {"error": str(e)}
                chk.decide(ok, "exact-composition", nd.qname, f"E(a2,a1)E(a1,a0) != E(a2,a0) for the non-singlet kernel ({inst})",
                           where=nd.where, instance=inst, data={"witness": info}, how="PIT F_p")
    G = kern.sg_gamma(1)
    f = src.func(f"{kern.SG}.lo_exact")
    # LO singlet: K(a2,a1)K(a1,a0) and K(a2,a0) both solve dX/da2 = gamma0/(beta0 a2) X with the same value at a2=a1 iff
    # K satisfies that linear ODE exactly and K(a,a)=1 (identity guard above); uniqueness then gives composition.
    # (A direct product test is not decidable by random interpretation: exp is an uninterpreted atom there.)
    from .. import literature as lit

    K10 = pe.call(sd.qname, [(1, 0), M["ITERATE_EXACT"], G, a1, a0, nf, 1, (1, 0)])
    dK = kern.mat_map(lambda x: dag.diff(x, "a1"), K10)
    Gam = kern.mat_map(lambda x: dag.div(x, dag.mul(lit.BETA_QCD[(2, 0)][0], a1)), G[0])
    ok, info = dag.is_zero_fp(kern.mat_sub(dK, kern.mat_mul(Gam, K10)).flat(), chk.seed, 3)
    n_inst += 1
    chk.decide(ok, "exact-composition", f.qname,
               "LO singlet kernel does not satisfy dK/da1 = gamma0/(beta0 a1) K exactly, so K(a2,a1)K(a1,a0) != K(a2,a0)",
               where=f.where, data={"witness": info}, how="DAG differentiation + PIT F_p (ODE uniqueness)")
    ok, info = dag.is_zero_fp(kern.mat_sub(kern.mat_mul(G[0], K10), kern.mat_mul(K10, G[0])).flat(), chk.seed, 3)
    chk.decide(ok, "exact-composition", f.qname, "LO singlet kernel does not commute with gamma0 (not a function of gamma0)",
               where=f.where, instance="commutes", data={"witness": info}, how="PIT F_p")
    # ---- iterated singlet kernels are PATH-ORDERED products -----------------------------------------------
    # "composes up to its discretisation error" has one part that is visible in the shape of the code: a kernel built from
    # several coupling steps must multiply the later step on the LEFT.  With a free intermediate grid point am the two-step
    # kernel must then be exactly K(am->a1) @ K(a0->am) of the one-step kernels (for the reversed product the composition
    # error does not vanish with the number of steps).  Order 1 is skipped: all step generators commute there.
    am = dag.sym("am")
    grid_calls = []
    old_geom = pe.ext.get("numpy.geomspace")

    def geom(pe_, a, k):
        num = pe_.as_index(k.get("num", a[2] if len(a) > 2 else 50))
        grid_calls.append(num)
        if num == 3:
            return Arr.from_nested([a[0], am, a[1]])
        return old_geom(pe_, a, k)

    pe.ext["numpy.geomspace"] = geom
    n_path = 0
    try:
        for n in range(2, 5):
            G = kern.sg_gamma(n)
            for mname, mem in M.items():
                inst = f"order={n},method={mname}"
                try:
                    del grid_calls[:]
                    K2 = pe.call(sd.qname, [(n, 0), mem, G, a1, a0, nf, 2, (n + 1, 0)])
                    if 3 not in grid_calls:
                        continue  # this method does not iterate over coupling steps
                    K_late = pe.call(sd.qname, [(n, 0), mem, G, a1, am, nf, 1, (n + 1, 0)])
                    K_early = pe.call(sd.qname, [(n, 0), mem, G, am, a0, nf, 1, (n + 1, 0)])
                    ok, info = dag.is_zero_fp(kern.mat_sub(K2, kern.mat_mul(K_late, K_early)).flat(), chk.seed, 2)
                except (ZeroDivisionError, PERaise) as e:
                    ok, info = False, {"error": str(e)}
                n_path += 1
                n_inst += 1
                chk.decide(ok, "iterated-kernel-is-path-ordered", sd.qname,
                           f"the two-step singlet kernel a0 -> am -> a1 is not K(am->a1) @ K(a0->am): the coupling steps are not "
                           f"accumulated in path order (later step on the left), so composition fails beyond discretisation error ({inst})",
                           where=sd.where, instance=inst, data={"witness": info}, how="PE with a free grid point + PIT F_p")
    finally:
        pe.ext["numpy.geomspace"] = old_geom
    chk.floor("iterating singlet methods x orders", n_path, 12)
    chk.floor("kernel instances", n_inst, 32 + 32 + 16 + 13)
    chk.note(instances=n_inst, files=["src/eko/kernels/non_singlet.py", "src/eko/kernels/singlet.py",
                                      "src/eko/kernels/singlet_qed.py", "src/eko/kernels/valence_qed.py",
                                      "src/eko/kernels/non_singlet_qed.py"])
    chk.explanation = "Kernel formulas at equal couplings and their composition law decided as identities in all symbols."
