"""C15 - running couplings solve their renormalisation group equations (formula level)."""
from __future__ import annotations

from types import SimpleNamespace

from .. import dag, literature as lit
from ..arr import Arr
from ..pe import PE, Obj, PERaise, decide_on_values
from ..series import valuation_at_least
from ..src import load

LEVEL = "other"  # one obligation is a recorded known finding (expanded N3LO), so the run is not a complete proof
META = {
    "text": "(1) EXACT solutions: Couplings.compute_exact_fixed_alphaem / compute_exact_alphaem_running / unidimensional_exact are "
            "partially evaluated with scipy's solve_ivp replaced by a recorder; the right-hand side handed to the integrator, the "
            "integration variable and the initial value are extracted for every order (1-4) x (0-2), nf 3-6, and proved equal to "
            "the truncated RGEs da_s/dlnmu^2 = -a_s^2 (sum_k beta_k a_s^k + beta^(2,1) a_em), da_em/dlnmu^2 = -a_em^2 (sum_k "
            "beta^(0,k+2) a_em^k + beta^(1,2) a_s) with the LITERATURE beta coefficients (so both the wiring of beta.py and the "
            "truncation are decided), starting from the reference values. (2) EXPANDED solutions: every order returns the "
            "reference value at the reference scale exactly, and expanded_nlo/nnlo/n3lo satisfy the RGE up to terms beyond the "
            "working order: da/dL + sum beta_k a^(k+2) = O(a_ref^(n+2)) at fixed beta0 a_ref L (Laurent-series valuation). (3) the "
            "fixed- and running-alpha_em variants coincide as formulas when the QED order is zero.",
    "note": "The accuracy of the ODE integrator, and monotonic decrease of the coupling, are runtime statements and are not "
            "decided. Literature table: sa/literature.py.",
    "technique": "partial evaluation with a mocked ODE integrator (extraction of the right-hand side) + polynomial identity testing + series valuation",
    "engine": "sa",
}

CP = "eko.couplings"


def _mk_self(pe, src, order, running):
    o = Obj(src.cls(f"{CP}.Couplings"))
    o.attrs.update(order=order, alphaem_running=running, decoupled_running=False, method="exact", cache={})
    return o


def run(chk):
    src = load()
    pe = PE(src)
    chk.trusted += ["sa/literature.py", "random interpretation in F_p", "sa/series.py"]
    chk.rule_text = "recorded ODE right-hand side == truncated RGE with literature beta; expanded(ref, L=0) == ref; RGE residual beyond working order"
    rec = []

    def solve_ivp(pe_, args, kwargs):
        f, span, y0 = args[0], args[1], args[2]
        extra = kwargs.get("args", [])
        t = dag.sym("t")
        if isinstance(y0, Arr) and y0.size > 1:
            y = Arr.from_nested([dag.sym("y0"), dag.sym("y1")])
        else:
            y = dag.sym("y0")
        rhs = pe_.apply(f, [t, y] + list(extra), {})
        rec.append({"rhs": rhs, "span": span, "y0": y0})
        n = y0.size if isinstance(y0, Arr) else len(y0)
        return SimpleNamespace(y=[[dag.sym(f"SOL{i}")] for i in range(n)])

    pe.ext["scipy.integrate.solve_ivp"] = solve_ivp
    a_s, a_em, s0, s1 = dag.sym("as_ref"), dag.sym("aem_ref"), dag.sym("mu2_from"), dag.sym("mu2_to")
    u = dag.fn("log", dag.div(s1, s0))
    y0s, y1s = dag.sym("y0"), dag.sym("y1")
    n_inst = 0
    nl = 3
    for nf in ((3, 4, 5, 6) if chk.tier == "thorough" else (4, 5)):
        betas = [dag.substitute(lit.BETA_QCD[(2 + i, 0)][0], {"nf": nf}) for i in range(4)]
        bq = [lit.beta_qed_aem2(nf, nl), lit.beta_qed_aem3(nf, nl)]
        bmix_s, bmix_e = lit.beta_qcd_as2aem1(nf), lit.beta_qed_aem2as1(nf)
        for n in (1, 2, 3, 4):
            for m in (0, 1, 2):
                for running in (False, True):
                    inst = f"order=({n},{m}),nf={nf},running={running}"
                    n_inst += 1
                    selfo = _mk_self(pe, src, (n, m), running)
                    aref = Arr.from_nested([a_s, a_em])
                    del rec[:]
                    meth = "compute_exact_alphaem_running" if running else "compute_exact_fixed_alphaem"
                    f = src.func(f"{CP}.Couplings.{meth}")
                    try:
                        args = [aref, nf, nl, s0, s1] if running else [aref, nf, s0, s1]
                        out = pe.apply(pe.getattr(selfo, meth), args, {})
                    except PERaise as e:
                        chk.fail("exact-rge-right-hand-side", f.qname, f"raises {e} ({inst})", where=f.where, instance=inst)
                        continue
                    if not rec:
                        # LO closed form: a = ref/(1 + beta0 ref u)
                        b0 = betas[0] if not (m >= 1 and not running) else dag.add(betas[0], dag.mul(a_em, bmix_s))
                        want = dag.div(a_s, dag.add(1, dag.mul(dag.mul(b0, a_s), u)))
                        ok, info = dag.is_zero_fp([dag.sub(out[0], want), dag.sub(out[1], a_em)], chk.seed, 2)
                        chk.decide(ok and n == 1, "exact-rge-right-hand-side", f.qname,
                                   f"{inst}: no ODE is integrated and the closed form is not the LO solution", where=f.where, instance=inst,
                                   data={"witness": info}, how="PIT F_p")
                        continue
                    r = rec[0]
                    two_dim = isinstance(r["rhs"], Arr)
                    diffs = []
                    if two_dim:
                        # span (0, u); y = (a_s, a_em)
                        want_s = dag.neg(dag.mul(dag.power(y0s, 2), dag.addn([dag.mul(betas[k], dag.power(y0s, k)) for k in range(n)]
                                                                               + [dag.mul(y1s, bmix_s)])))
                        want_e = dag.neg(dag.mul(dag.power(y1s, 2), dag.addn([dag.mul(bq[k], dag.power(y1s, k)) for k in range(m)]
                                                                               + [dag.mul(y0s, bmix_e)])))
                        diffs = [dag.sub(r["rhs"][0], want_s), dag.sub(r["rhs"][1], want_e), dag.sub(r["span"][1], u), dag.tonode(r["span"][0]),
                                 dag.sub(r["y0"][0], a_s), dag.sub(r["y0"][1], a_em), dag.sub(out[0], dag.sym("SOL0")),
                                 dag.sub(out[1], dag.sym("SOL1"))]
                    else:
                        # one-dimensional: integration variable beta0_eff * u, rhs * beta0_eff must be the RGE
                        b0 = betas[0]
                        if m >= 1 and not running:
                            b0 = dag.add(b0, dag.mul(a_em, bmix_s))
                        want = dag.neg(dag.mul(dag.power(y0s, 2), dag.addn([dag.mul(b0, 1)] + [dag.mul(betas[k], dag.power(y0s, k))
                                                                                                 for k in range(1, n)])))
                        y0v = r["y0"][0] if isinstance(r["y0"], (tuple, list, Arr)) else r["y0"]
                        diffs = [dag.sub(dag.mul(r["rhs"], b0), want), dag.sub(r["span"][1], dag.mul(b0, u)), dag.tonode(r["span"][0]),
                                 dag.sub(y0v, a_s), dag.sub(out[0], dag.sym("SOL0")), dag.sub(out[1], a_em)]
                        if running and m >= 1:
                            diffs.append(dag.ONE)  # with running alpha_em and QED order >= 1 the coupled system must be integrated
                    ok, info = dag.is_zero_fp(diffs, chk.seed, 2)
                    chk.decide(ok, "exact-rge-right-hand-side", f.qname,
                               f"{inst}: the ODE handed to the integrator is not the RGE truncated at this order with the literature "
                               f"beta coefficients (component {info.get('index')}: 0/1 right-hand sides, 2/3 integration range, "
                               f"then initial values / returned solution)", where=f.where, instance=inst, data={"witness": info},
                               detail="rhs, range, initial value, returned components", how="PE + PIT F_p")
    chk.floor("exact-solution configurations", n_inst, 48)

    # ---- expanded -----------------------------------------------------------------------------------------------
    fr = src.func(f"{CP}.couplings_expanded_alphaem_running")
    ff = src.func(f"{CP}.couplings_expanded_fixed_alphaem")
    for nf in (3, 4, 5, 6):
        for n in (1, 2, 3, 4):
            for m in (0, 1, 2):
                inst = f"order=({n},{m}),nf={nf}"
                aref = Arr.from_nested([a_s, a_em])
                r1 = pe.call(fr.qname, [(n, m), aref, nf, nl, s0, s0, False])
                r2 = pe.call(ff.qname, [(n, m), aref, nf, s0, s0])
                ok, info = dag.is_zero_fp([dag.sub(r1[0], a_s), dag.sub(r1[1], a_em), dag.sub(r2[0], a_s), dag.sub(r2[1], a_em)], chk.seed, 2)
                chk.decide(ok, "expanded-reference-value", fr.qname, f"{inst}: the expanded coupling at the reference scale is not the "
                           f"reference value (component {info.get('index')})", where=fr.where, instance=inst, how="PIT F_p")
                if m == 0:
                    g1 = pe.call(fr.qname, [(n, 0), aref, nf, nl, s0, s1, False])
                    g2 = pe.call(ff.qname, [(n, 0), aref, nf, s0, s1])
                    ok, info = dag.is_zero_fp([dag.sub(g1[0], g2[0]), dag.sub(g1[1], g2[1])], chk.seed, 2)
                    chk.decide(ok, "fixed-and-running-coincide-without-qed", fr.qname,
                               f"{inst}: with QED order 0 the running- and fixed-alpha_em expanded couplings differ", where=fr.where,
                               instance=inst, how="PIT F_p")
    # RGE residual of the expanded QCD solutions
    ref, lmu = dag.sym("ref"), dag.sym("lmu")
    nfs = dag.sym("nf")
    bl = [lit.BETA_QCD[(2 + i, 0)][0] for i in range(4)]
    fe = src.func(f"{CP}.expanded_qcd")
    for n in (1, 2, 3, 4):
        bvec = [dag.div(bl[i], bl[0]) for i in range(n)]
        a = pe.call(fe.qname, [ref, n, bl[0], bvec, lmu])
        res = dag.add(dag.diff(a, "lmu"), dag.addn([dag.mul(bl[k], dag.power(a, k + 2)) for k in range(n)]))
        ok, info = valuation_at_least([res], {"ref": 1, "lmu": -1}, n + 2, chk.seed, 2)
        chk.decide(ok, "expanded-solves-rge-to-working-order", fe.qname,
                   f"order {n}: da/dL + sum_k beta_k a^(k+2) starts at a_ref^{info.get('lowest_power')} at fixed beta0 a_ref L; an "
                   f"N^{n - 1}LO expanded solution must satisfy the RGE through a_ref^{n + 1}", where=fe.where, instance=f"order={n}",
                   data={"witness": info}, detail=f"residual = O(a_ref^{n + 2})", how="series over F_p")
        a0 = dag.substitute(dag.tonode(a), {"lmu": 0})
        ok0, _ = dag.is_zero_fp([dag.sub(a0, ref)], chk.seed, 2)
        chk.decide(ok0, "expanded-reference-value", fe.qname, f"order {n}: expanded_qcd(ref, L=0) != ref", where=fe.where, instance=f"qcd,{n}")
    # ---- lepton threshold: with QED switched on, a segment whose ends see different numbers of leptons is solved in two pieces
    # split at m_tau^2, each with its own lepton number; without QED it is solved in one piece
    fa = src.func(f"{CP}.Couplings.a")
    seg_cls = src.cls("eko.matchings.Segment")
    mtau2 = dag.power(dag.tonode(pe.get_global("eko.constants", "MTAU")), 2)
    n_lep = 0
    for qcd in (1, 3):
        for qed in (0, 1, 2):
            for nli, nlf in ((2, 3), (3, 2), (3, 3)):
                self_ = Obj(src.cls(f"{CP}.Couplings"))
                self_.attrs.update(a_ref=Arr.from_nested([dag.sym("a_ref"), dag.sym("aem_ref")]), order=(qcd, qed), hqm_scheme="POLE",
                                   thresholds_ratios=[1, 1, 1], atlas=Obj(src.cls("eko.matchings.Atlas")), cache={}, method="exact",
                                   alphaem_running=True, decoupled_running=False)
                seg = pe.instantiate(seg_cls.qname, [dag.sym("mu_from"), dag.sym("mu_to"), 4])
                calls = []

                def compute_model(pe_, args, kwargs, calls=calls):
                    calls.append(list(args[1:]))
                    return Arr.from_nested([dag.sym(f"A{len(calls)}"), dag.sym(f"AEM{len(calls)}")])

                pe.overrides[f"{CP}.Couplings.compute"] = compute_model
                pe.overrides["eko.matchings.Atlas.path"] = lambda pe_, args, kwargs: [seg]
                pe.overrides["eko.matchings.is_downward_path"] = lambda pe_, args, kwargs: False
                pe.overrides["eko.matchings.lepton_number"] = lambda pe_, args, kwargs, nli=nli, nlf=nlf: nli if dag.tonode(args[0]) is dag.sym("mu_from") else nlf
                pe.assume = lambda text, env, pe=pe: decide_on_values(pe, text, env) if "isclose" in text else None  # distinct symbolic scales are not close
                inst = f"order=({qcd},{qed}),leptons {nli}->{nlf}"
                try:
                    pe.apply(pe.getattr(self_, "a"), [dag.sym("mu_to"), 4], {})
                except PERaise as e:
                    chk.fail("lepton-threshold-splits-the-segment", fa.qname, f"{inst}: raises {e}", where=fa.where, instance=inst)
                    continue
                finally:
                    pe.assume = None
                    for q in (f"{CP}.Couplings.compute", "eko.matchings.Atlas.path", "eko.matchings.lepton_number", "eko.matchings.is_downward_path"):
                        pe.overrides.pop(q, None)
                n_lep += 1
                shape = [(c[1], c[2], dag.short(dag.tonode(c[3])), dag.short(dag.tonode(c[4]))) for c in calls]
                if qed != 0 and nli != nlf:
                    ok = len(calls) == 2 and calls[0][1:3] == [4, nli] and dag.tonode(calls[0][3]) is dag.sym("mu_from") \
                        and dag.is_zero_fp([dag.sub(dag.tonode(calls[0][4]), mtau2), dag.sub(dag.tonode(calls[1][3]), mtau2)], chk.seed, 1)[0] \
                        and calls[1][1:3] == [4, nlf] and dag.tonode(calls[1][4]) is dag.sym("mu_to") \
                        and isinstance(calls[1][0], Arr) and dag.tonode(calls[1][0][0]) is dag.sym("A1")
                    want = f"two solves: (nf=4, nl={nli}, mu_from -> m_tau^2) then, from its result, (nf=4, nl={nlf}, m_tau^2 -> mu_to)"
                else:
                    ok = len(calls) == 1 and calls[0][1:3] == [4, nli] and dag.tonode(calls[0][3]) is dag.sym("mu_from") and dag.tonode(calls[0][4]) is dag.sym("mu_to")
                    want = "one solve over the whole segment"
                chk.decide(ok, "lepton-threshold-splits-the-segment", fa.qname, f"{inst}: the couplings are solved as {shape}; required {want}: the QED "
                           f"beta function changes its lepton number at m_tau, so a_em does not solve its RGE across it otherwise", where=fa.where,
                           instance=inst, how="PE with recording solver")
    chk.floor("lepton-threshold cases", n_lep, 18)
    # ---- the reference point stays the reference value, whatever was evaluated before -----------------------------------------
    # "the coupling at the reference point equals the reference value" must hold for every history of calls on one object: no
    # method reachable from an evaluation may write the stored reference (directly or through a local alias of it)
    from .. import effects as E

    ccls = src.cls("eko.couplings.Couplings")
    roots = [m.qname for nm, m in ccls.methods.items() if nm in ("a", "a_s", "a_em", "compute", "compute_exact", "compute_aem_as", "compute_exact_alphaem_running",
                                                                   "compute_exact_fixed_alphaem", "unidimensional_exact")]
    chk.need("eko.couplings.Couplings.a" in roots, "Couplings.a not found")
    reach = [q for q in E.reach(src, roots) if q.startswith("eko.couplings.Couplings.")]
    n_m = 0
    for q in sorted(set(reach) | set(roots)):
        f = src.funcs.get(q)
        if f is None or f.node.name == "__init__":
            continue
        n_m += 1
        w = [x for x in E.self_writes(f) if x[0] in ("a_ref", "nf_ref", "mu2_ref", "thresholds_ratios", "order", "method")]
        chk.decide(not w, "evaluation-leaves-the-reference-untouched", q,
                   f"writes the object's reference data: {[(a, t) for a, t, _ in w][:2]}: after such a call the coupling at the reference "
                   f"point is no longer the reference value and every later evaluation starts from the changed value", where=f.where,
                   instance=q.rsplit(".", 1)[1])
    chk.floor("evaluation methods of Couplings", n_m, 3)
    chk.note(instances=n_inst, files=["src/eko/couplings.py", "src/eko/beta.py"])
    chk.explanation = ("Right-hand sides of the integrated ODEs extracted and compared with the literature RGEs; expanded solutions "
                       "checked at the reference point and against the RGE to working order.")
