"""C47 - solving is reproducible across processes and hash seeds (sources of run-to-run variation are absent)."""
from __future__ import annotations

import ast

from .. import effects as E
from ..src import load

LEVEL = "proof"
META = {
    "text": "Two runs of a deterministic program can differ only through a source of run-to-run variation. Decided, over the whole of "
            "eko and ekore: (1) HASH ORDER: no iteration, conversion to a sequence, unpacking or pop over a set whose elements are "
            "provably strings (their order follows PYTHONHASHSEED); sets of other elements are listed in the evidence. (2) HASH "
            "VALUES: the builtin hash() is only applied inside __hash__ methods (value used for dictionary lookup only) or to an "
            "inventory Header; every Header subclass is a frozen dataclass without its own __hash__ whose fields all resolve to "
            "float/int/bool - types whose hash does not depend on the process - so the hash-derived archive member names "
            "(inventory.encode) are the same in every run; the byte order and width of the encoding are module constants. (3) "
            "CLOCKS AND RANDOMNESS: every call of time.*, datetime.now, random.*, numpy.random.*, uuid, os.getpid, id() feeds "
            "logging only (directly or through a local used only in logging calls). (4) no numba kernel is compiled with "
            "parallel=True / fastmath / prange (thread-schedule dependent reductions), no thread pools; (5) worker purity and "
            "ordered collection (C03) are imported as given there."
            " The kind of a set-valued name is joined over all its assignments (a set of strings on one branch counts).",
    "note": "Bitwise equality of floating-point results additionally relies on scipy/numba/numpy being deterministic for equal "
            "inputs on one machine; file-system listing order and tar timestamps are outside the statement.",
    "technique": "effect / taint rules on the AST over the whole package: hash-order dependent iteration, hash() call sites, nondeterminism sources to sinks, decorator flags",
    "engine": "sa",
}

NUMERIC = {"float", "int", "bool"}
POSITIVE_EXAMPLE = '''
def f(nf):
    active = {f"V{n}" for n in range(nf)}
    out = {}
    for k in active:
        out[k] = 1
    names = set(["a", "b"])
    return list(names), out
'''


def _resolve_alias(src, module, ann: ast.expr, depth=0):
    """resolve a type annotation through module-level aliases to a base name"""
    if depth > 6:
        return None
    d = src.dotted(ann)
    if d is None:
        return None
    if d in NUMERIC:
        return d
    head = d.split(".")[0]
    m = module
    name = d
    if head in m.imports:
        q = m.imports[head] + d[len(head):]
        mod, _, name = q.rpartition(".")
        mod = src.canonical(mod)
        if mod not in src.modules:
            return None
        m = src.modules[mod]
    if name in m.consts:
        return _resolve_alias(src, m, m.consts[name], depth + 1)
    return None


def run(chk):
    src = load()
    chk.rule_text = "no hash-order dependent iteration over str sets; hash() only on process-independent values; clocks/randomness only logged"
    funcs = [f for q, f in src.funcs.items() if q.startswith(("eko.", "ekore.")) and f.parent is None]
    chk.floor("functions analysed", len(funcs), 600)
    # ---- (1) set iteration -------------------------------------------------------------------------------------------------
    pos = E.set_iterations(ast.parse(POSITIVE_EXAMPLE))
    chk.need(sum(1 for k, _, _ in pos if k == "str") >= 2, "self-test of the set-iteration rule failed: the positive example is not recognised")
    n_str = 0
    other = []
    for f in funcs:
        for kind, text, ln in E.set_iterations(f.node):
            if kind == "str":
                n_str += 1
                chk.fail("no-hash-order-dependent-iteration", f.qname, f"`{text}` walks a set of strings: its order follows PYTHONHASHSEED, so "
                         f"whatever is built from it (dictionary order, summation order) differs between runs", where=f"{f.module.relpath}:{ln}",
                         instance=text[:60])
            else:
                other.append(f"{f.qname}: {text}")
    for name, m in src.modules.items():
        if not name.startswith(("eko", "ekore")):
            continue
        top = ast.Module(body=[s for s in m.tree.body if not isinstance(s, (ast.FunctionDef, ast.ClassDef))], type_ignores=[])
        for kind, text, ln in E.set_iterations(top):
            if kind == "str":
                n_str += 1
                chk.fail("no-hash-order-dependent-iteration", name, f"module level `{text}` walks a set of strings", where=f"{m.relpath}:{ln}",
                         instance=text[:60])
    if not n_str:
        chk.ok("no-hash-order-dependent-iteration", "eko, ekore", f"{len(funcs)} functions; sets of non-string elements iterated: {other}",
               how="set-typed expression inference + order-sensitive sinks")
    # ---- (2) hash values -----------------------------------------------------------------------------------------------------
    hdr = src.cls("eko.io.items.Header")
    hclasses = [hdr] + E.subclasses(src, hdr)
    chk.floor("header classes", len(hclasses), 4)
    n_fields = 0
    for c in hclasses:
        decs = [ast.unparse(d) for d in c.node.decorator_list]
        chk.decide(any("dataclass" in d and "frozen=True" in d for d in decs) and "__hash__" not in c.methods, "archive-names-are-process-independent",
                   c.qname, f"header class must be a frozen dataclass with the generated hash (decorators {decs})", where=c.where, instance="class")
        for name, (ann, default) in c.fields().items():
            node = next(st.annotation for st in c.node.body if isinstance(st, ast.AnnAssign) and isinstance(st.target, ast.Name) and st.target.id == name)
            base = _resolve_alias(src, c.module, node)
            n_fields += 1
            chk.decide(base in NUMERIC, "archive-names-are-process-independent", f"{c.qname}.{name}",
                       f"field `{name}: {ann}` does not resolve to float/int/bool (got {base}): the hash of the header, and with it the archive "
                       f"member name, may depend on the process (str/bytes/None/objects hash per process)", where=c.where, instance=name)
    chk.floor("header fields", n_fields, 9)
    n_hash = 0
    for f in funcs:
        for n in E.own_nodes(f.node):
            if isinstance(n, ast.Call) and isinstance(n.func, ast.Name) and n.func.id == "hash" and "hash" not in E.local_names(f):
                n_hash += 1
                if f.node.name == "__hash__":
                    continue
                arg = n.args[0] if n.args else None
                ok = False
                if isinstance(arg, ast.Name):
                    for p in f.node.args.args:
                        if p.arg == arg.id and p.annotation is not None:
                            q = src.resolve_name(f.module, src.dotted(p.annotation) or "")
                            ok = q in {c.qname for c in hclasses}
                chk.decide(ok, "archive-names-are-process-independent", f.qname, f"`{ast.unparse(n)}`: hash() outside __hash__ applied to "
                           f"something that is not an inventory Header", where=f"{f.module.relpath}:{n.lineno}", instance=ast.unparse(n))
    chk.floor("hash() call sites", n_hash, 2)
    enc = src.func("eko.io.inventory.encode")
    # the bytes of the hash: length and byte order of every int.to_bytes() in the encoder must evaluate to literals of the source
    # (not to the machine's byte order or word size)
    from ..pe import PE, Env, PEError

    pe_ = PE(src)
    tb = [n for n in ast.walk(enc.node) if isinstance(n, ast.Call) and isinstance(n.func, ast.Attribute) and n.func.attr == "to_bytes"]
    chk.need(tb, "eko.io.inventory.encode no longer converts the hash with int.to_bytes: anchor changed")
    for c in tb:
        args = {"length": c.args[0] if c.args else None, "byteorder": c.args[1] if len(c.args) > 1 else None}
        args.update({k.arg: k.value for k in c.keywords})
        vals = {}
        for k, v in args.items():
            try:
                vals[k] = pe_.eval(v, Env(enc.module)) if v is not None else None
            except Exception as e:  # not a value of the source (sys.byteorder, struct.calcsize, ...)
                vals[k] = f"<{type(e).__name__}>"
        chk.decide(isinstance(vals.get("length"), int) and vals.get("byteorder") in ("little", "big"), "archive-names-are-process-independent", enc.qname,
                   f"`{ast.unparse(c)[:70]}` is evaluated with length={vals.get('length')!r}, byteorder={vals.get('byteorder')!r}: both must be "
                   f"literal values of the source, otherwise the same header gets different file names on different machines",
                   where=f"{enc.module.relpath}:{c.lineno}", instance="encoding", how="PE of the call's arguments")
    # ---- (3) clocks and randomness ----------------------------------------------------------------------------------------------
    n_nd = 0
    for f in funcs:
        for q, ln, only_logged, text in E.nondet_calls(src, f):
            n_nd += 1
            chk.decide(only_logged, "clocks-and-randomness-only-logged", f.qname, f"`{text}` ({q}) reaches something else than a logging call",
                       where=f"{f.module.relpath}:{ln}", instance=f"{text}")
    chk.floor("clock/random call sites", n_nd, 4)
    # ---- (4) thread-schedule dependent compilation flags ----------------------------------------------------------------------
    n_dec = 0
    for f in funcs + [g for g in src.funcs.values() if g.parent is not None and g.qname.startswith(("eko.", "ekore."))]:
        for d in f.node.decorator_list:
            s = ast.unparse(d)
            if "njit" in s or "jit" in s:
                n_dec += 1
                bad = [k.arg for k in getattr(d, "keywords", []) if k.arg in ("parallel", "fastmath", "nogil")
                       and not (isinstance(k.value, ast.Constant) and k.value.value is False)]
                if bad:
                    chk.fail("no-schedule-dependent-kernels", f.qname, f"compiled with {bad}: reductions then depend on the thread schedule / "
                             f"reassociation", where=f.where, instance=",".join(bad))
        for n in E.own_nodes(f.node):
            if isinstance(n, ast.Call):
                d = src.dotted(n.func) or ""
                if d.split(".")[-1] in ("prange", "ThreadPool", "ThreadPoolExecutor", "Thread"):
                    chk.fail("no-schedule-dependent-kernels", f.qname, f"`{ast.unparse(n)[:60]}` introduces thread scheduling", where=f"{f.module.relpath}:{n.lineno}",
                             instance=d)
    chk.ok("no-schedule-dependent-kernels", "eko, ekore", f"{n_dec} compiled functions", how="decorator flags")
    chk.floor("compiled functions", n_dec, 300)
    chk.note(functions=len(funcs), other_sets=other, hash_sites=n_hash, nondet_sites=n_nd,
             files=["src/eko/**", "src/ekore/**"])
    chk.explanation = "Whole-package rules on sources of run-to-run variation."
