"""C45 - LHAPDF export of evolved PDFs is self-consistent (info ranges, members, alpha_s, block values)."""
from __future__ import annotations

import ast
from fractions import Fraction

from .. import dag
from ..arr import Arr
from ..pe import PE, PERaise, Opaque
from ..src import load

LEVEL = "proof"
META = {
    "text": "(1) info_file.build is partially evaluated on symbolic cards with an UNSORTED evolution grid and a caller-provided x "
            "range: XMin/XMax given by the caller survive (the defaults - first/last point of the operator grid - apply only "
            "when none is given), QMin/QMax are sqrt of the minimum / maximum of the grid whatever its order, NumFlavors is the "
            "largest nf, NumMembers the number passed, OrderQCD the order minus one, the masses those of the card, and the "
            "alpha_s section is merged in. (2) build_alphas: the couplings object is the one built by runner.commons.couplings "
            "from the same two cards (the constructor the solver uses - masses in the chosen scheme, matching scales), and "
            "AlphaS_Vals[i] = 4 pi a_s(Q_i^2, nf_to = nf of the patch of Q_i) with AlphaS_Qs the scales regrouped by nf and "
            "sorted. (3) evolve_pdfs, evaluated with a mock solver / archive / exporter: every member is applied with the "
            "explicit target grid, the info receives the x range of the grid actually written (target grid if given, else the "
            "operator grid) and the number of members, and the data handed to the exporter are, block by block (one per nf, "
            "scales sorted), value[(x, Q), pid] = x * applied[(Q^2, nf)][pid][index of x] on exactly the written grid."
            " The alpha_s instance lists two scales in two flavour patches each.",
    "note": "The printed-precision round trip of data files and the files themselves are not decided.",
    "technique": "partial evaluation with symbolic cards and mock collaborators + exact comparison / identity testing",
    "engine": "sa",
}

IF = "ekobox.info_file"


class M(Opaque):
    pass


class HQ(M):
    """heavy-quark triple: attributes c, b, t and, like the real list-based class, iteration / indexing in that order"""

    def _seq(self):
        return [self.c, self.b, self.t]

    def __iter__(self):
        return iter(self._seq())

    def __getitem__(self, i):
        return self._seq()[i]

    def __len__(self):
        return 3


def cards():
    op = M()
    op._real = "eko.io.runcards.OperatorCard"  # members not set here are the real card's properties
    op.init = (dag.sym("mu0"), 4)
    op.mugrid = [(Fraction(10), 5), (Fraction(2), 3), (Fraction(50), 5), (Fraction(3), 4)]
    op.mu2grid = [Fraction(100), Fraction(4), Fraction(2500), Fraction(9)]
    op.xgrid = M()
    op.xgrid.raw = Arr.from_nested([dag.sym("xa"), dag.sym("xb"), dag.sym("xc")])
    op.configs = M()
    th = M()
    th._real = "eko.io.runcards.TheoryCard"
    th.order = (3, 0)
    th.couplings = M()
    th.couplings.ref = (dag.sym("mz"), 5)
    th.couplings.alphas = dag.sym("alphas_ref")
    th.heavy = M()
    th.heavy.masses = HQ()
    for q in "cbt":
        r = M()
        r.value = dag.sym("m" + q)
        setattr(th.heavy.masses, q, r)
    return th, op


def _norm(v):
    if isinstance(v, Arr):
        return ("arr", tuple(v.flat()))
    if isinstance(v, (list, tuple)):
        return ("seq", tuple(_norm(x) for x in v))
    return v


def _same_args(got, want, seed):
    (ga, gk), (wa, wk) = got, want
    if len(ga) != len(wa) or set(gk) != set(wk):
        return False
    pairs = list(zip(ga, wa)) + [(gk[k], wk[k]) for k in wk]

    def same(a, b):
        a, b = _norm(a), _norm(b)
        if isinstance(a, tuple) and isinstance(b, tuple) and len(a) == len(b) == 2 and a[0] == b[0] and a[0] in ("arr", "seq"):
            return len(a[1]) == len(b[1]) and all(same(x, y) for x, y in zip(a[1], b[1]))
        if isinstance(a, (dag.Node, Fraction, int, float)) and isinstance(b, (dag.Node, Fraction, int, float)) \
                and not isinstance(a, bool) and not isinstance(b, bool):
            return dag.is_zero_fp([dag.sub(dag.tonode(a), dag.tonode(b))], seed, 2)[0]
        return a is b or a == b

    return all(same(a, b) for a, b in pairs)


def _show(args):
    a, k = args
    def sh(v):
        v = _norm(v)
        if isinstance(v, tuple) and len(v) == 2 and v[0] in ("arr", "seq"):
            return "[" + ", ".join(sh(x) for x in v[1]) + "]"
        if isinstance(v, dag.Node):
            return dag.short(v)
        return type(v).__name__ if isinstance(v, Opaque) else str(v)
    return "(" + ", ".join([sh(x) for x in a] + [f"{n}={sh(x)}" for n, x in sorted(k.items())]) + ")"


def _effective_range(ia, ik, upd):
    """x range the info file ends up with: the caller's update wins, otherwise the builder's default, the first / last point of
    the operator card's grid it is given (decided for info_file.build in section 1)"""
    opc = ia[1] if len(ia) > 1 else ik.get("operators_card")
    try:
        raw = opc.xgrid.raw
        dflt = (raw[0], raw[len(raw) - 1])
    except Exception:
        dflt = (None, None)
    if not isinstance(upd, dict):
        return (None, None)
    return (upd.get("XMin", dflt[0]), upd.get("XMax", dflt[1]))


def _assigned(f, key):
    """info_update[key] is assigned in function f"""
    return any(isinstance(n, ast.Assign) and any(isinstance(t, ast.Subscript) and isinstance(t.slice, ast.Constant) and t.slice.value == key
                                                 for t in n.targets) for n in ast.walk(f.node))


def _float_cast(f, key):
    """info_update[key] is assigned from float(...) in function f"""
    for n in ast.walk(f.node):
        if isinstance(n, ast.Assign) and len(n.targets) == 1 and isinstance(n.targets[0], ast.Subscript) \
                and isinstance(n.targets[0].slice, ast.Constant) and n.targets[0].slice.value == key:
            v = n.value
            if not (isinstance(v, ast.Call) and isinstance(v.func, ast.Name) and v.func.id == "float"):
                return False
    return True


def run(chk):
    src = load()
    chk.rule_text = "info ranges bound the written grids; alpha_s from the solver's couplings at (Q^2, nf); blocks == x * applied on the written grid"
    fb = src.func(f"{IF}.build")
    fa = src.func(f"{IF}.build_alphas")
    # ---- (1) build -----------------------------------------------------------------------------------------------------------
    for given in (True, False):
        pe = PE(src)
        pe.module_globals(src.modules["ekobox.genpdf.load"])["template_info"] = {"Format": "lhagrid1"}
        pe.overrides[fa.qname] = lambda p, a, k: {"AlphaS_Vals": "AV", "AlphaS_Qs": "AQ"}
        pe.ext["copy.deepcopy"] = lambda p, a, k: dict(a[0]) if isinstance(a[0], dict) else a[0]
        th, op = cards()
        upd = {"Extra": 1}
        if given:
            upd.update(XMin=dag.sym("txmin"), XMax=dag.sym("txmax"))
        try:
            r = pe.call(fb.qname, [th, op, 3, upd])
        except PERaise as e:
            chk.fail("info-ranges-bound-the-written-grids", fb.qname, f"raises {e}", where=fb.where, instance=f"given={given}")
            continue
        want_x = (dag.sym("txmin"), dag.sym("txmax")) if given else (dag.sym("xa"), dag.sym("xc"))
        got_x = (r.get("XMin"), r.get("XMax"))
        chk.decide(all(dag.tonode(g) is w for g, w in zip(got_x, want_x)) if None not in got_x else False, "info-ranges-bound-the-written-grids", fb.qname,
                   f"x range given by the caller: {given}; info has XMin/XMax = {got_x}, required {want_x} (an explicit target grid must be "
                   f"honoured; otherwise the operator grid)", where=fb.where, instance=f"x,given={given}", how="PE")
        chk.decide(r.get("QMin") == 2 and r.get("QMax") == 50, "info-ranges-bound-the-written-grids", fb.qname,
                   f"evolution grid scales [10, 2, 50, 3] (unsorted): QMin/QMax = {r.get('QMin')}/{r.get('QMax')}, required 2/50", where=fb.where,
                   instance=f"q,given={given}", how="PE")
        ok = r.get("NumMembers") == 3 and r.get("NumFlavors") == 5 and r.get("OrderQCD") == 2 and r.get("MCharm") is dag.sym("mc") \
            and r.get("MBottom") is dag.sym("mb") and r.get("MTop") is dag.sym("mt") and r.get("MZ") is dag.sym("mz") and r.get("AlphaS_Vals") == "AV" \
            and r.get("Extra") == 1 and len(r.get("Flavors", [])) == 14
        chk.decide(ok, "info-matches-the-data", fb.qname, f"members/flavours/order/masses/alpha_s section: {dict((k, r.get(k)) for k in ('NumMembers', 'NumFlavors', 'OrderQCD', 'MCharm', 'MZ', 'AlphaS_Vals'))}",
                   where=fb.where, instance=f"given={given}", how="PE")
    # ---- (2) build_alphas ------------------------------------------------------------------------------------------------------
    # the alpha_s table must come from a coupling object built exactly like the solver's: both constructions are evaluated with a
    # recording Couplings class and compared argument by argument (so calling the solver's constructor and an equivalent own
    # construction are both accepted)
    pe = PE(src)
    built = []

    class SC(Opaque):
        def a_s(self, mu2, nf_to=None):
            return dag.fn("as", dag.tonode(mu2), dag.const(nf_to if nf_to is not None else -1))

    def mk(p, a, k):
        built.append((list(a), dict(k)))
        return SC()

    pe.overrides["eko.couplings.Couplings"] = mk
    pe.overrides["eko.io.runcards.masses"] = lambda p, a, k: ("MASSES", a[0], a[1] if len(a) > 1 else k.get("evmeth"))
    th, op = cards()
    EV = pe.enum_members(pe.get_global("eko.io.types", "EvolutionMethod").cls)
    SVM = pe.enum_members(pe.get_global("eko.io.types", "ScaleVariationsMethod").cls)
    th.heavy.matching_ratios = [dag.sym("kc"), dag.sym("kb"), dag.sym("kt")]
    th.heavy.masses_scheme = "SCHEME"
    th.xif = dag.sym("xif")
    op.configs.evolution_method = EV["ITERATE_EXACT"]
    op.configs.scvar_method = SVM["EXPONENTIATED"]
    # two scales are listed in two adjacent flavour patches each (sub-grids may share their boundary): the coupling differs there
    op.mugrid = [(Fraction(10), 5), (Fraction(2), 3), (Fraction(50), 5), (Fraction(3), 4), (Fraction(3), 3), (Fraction(10), 4)]
    op.mu2grid = [m * m for m, _ in op.mugrid]
    pe.call("eko.runner.commons.couplings", [th, op])
    chk.need(len(built) == 1, "runner.commons.couplings no longer builds exactly one Couplings object")
    ref_args = built.pop()
    try:
        r = pe.call(fa.qname, [th, op])
    except PERaise as e:
        r = None
        chk.fail("alphas-from-the-solver-couplings", fa.qname, f"build_alphas raises {e}", where=fa.where)
    if r is not None:
        okc = len(built) == 1 and _same_args(built[0], ref_args, chk.seed)
        chk.decide(okc, "alphas-from-the-solver-couplings", fa.qname, f"build_alphas constructs {len(built)} coupling object(s) with "
                   f"{_show(built[0]) if built else None}; the solver's constructor gives {_show(ref_args)} for the same cards - the alpha_s "
                   f"table must describe the coupling the operators were computed with", where=fa.where, how="sibling comparison by PE")
        want = [(Fraction(2), 3), (Fraction(3), 3), (Fraction(3), 4), (Fraction(10), 4), (Fraction(10), 5), (Fraction(50), 5)]
        qs = r.get("AlphaS_Qs")
        vals = r.get("AlphaS_Vals")
        okq = qs == [w[0] for w in want]
        diffs = []
        if okq and isinstance(vals, list) and len(vals) == len(want):
            for v, (mu, nf) in zip(vals, want):
                w = dag.mul(dag.mul(dag.const(4), dag.sym("pi")), dag.fn("as", dag.const(mu * mu), dag.const(nf)))
                diffs.append(dag.sub(dag.tonode(v), w))
            ok, info = dag.is_zero_fp(diffs, chk.seed, 2)
        else:
            ok, info = False, {"qs": str(qs)}
        chk.decide(okq and ok, "alphas-at-the-listed-scales", fa.qname, f"AlphaS_Qs = {qs}, AlphaS_Vals = {[dag.short(dag.tonode(v)) for v in vals] if isinstance(vals, list) else vals}; "
                   f"required 4 pi a_s(Q^2, nf_to=nf) at {want}", where=fa.where, data={"witness": info}, how="PE + PIT")
        chk.decide(r.get("AlphaS_MZ") is dag.sym("alphas_ref") and r.get("AlphaS_OrderQCD") == 2, "alphas-at-the-listed-scales", fa.qname,
                   "AlphaS_MZ / AlphaS_OrderQCD are not the card's reference value / order - 1", where=fa.where, instance="meta")
    # ---- (3) evolve_pdfs --------------------------------------------------------------------------------------------------------
    fe = src.func("ekobox.evol_pdf.evolve_pdfs")
    for explicit in (False, True):
        pe = PE(src)
        th, op = cards()
        cap = {}
        tgt = M()
        tgt.raw = Arr.from_nested([Fraction(1, 5), Fraction(3, 5)])
        op.xgrid.raw = Arr.from_nested([Fraction(1, 10), Fraction(1, 2), Fraction(1)])
        eqv = lambda a, b: dag.is_zero_fp([dag.sub(dag.tonode(a), dag.tonode(b))], chk.seed, 1)[0]
        written = tgt if explicit else op.xgrid
        nxw = 2 if explicit else 3
        # unsorted, several nf, and one scale (9) shared by two adjacent patches, as LHAPDF sub-grids may share their boundary
        evolgrid = [(Fraction(100), 5), (Fraction(4), 3), (Fraction(2500), 5), (Fraction(9), 4), (Fraction(9), 3)]
        pids = list(pe.get_global("eko.basis_rotation", "flavor_basis_pids"))

        class Eko(Opaque):
            _real = "eko.io.struct.EKO"

            def __init__(self):
                self.evolgrid = list(evolgrid)

            def __enter__(self):
                return self

            def __exit__(self, *a):
                return False

        eko = Eko()
        applied = []

        def apply_pdf(p, a, k):
            member = a[1]
            applied.append((a[0], member, a[2] if len(a) > 2 else k.get("targetgrid")))
            res = {ep: {pid: Arr.from_nested([dag.sym(f"f_{member}_{ep[0]}_{ep[1]}_{pid}_{i}".replace("-", "m")) for i in range(nxw)])
                        for pid in pids} for ep in evolgrid}
            return (res, None)

        pe.overrides["ekobox.apply.apply_pdf"] = apply_pdf
        pe.overrides["eko.runner.managed.solve"] = lambda p, a, k: cap.update(solved=(a, k))
        pe.overrides["eko.io.struct.EKO.read"] = lambda p, a, k: eko
        pe.overrides["ekobox.info_file.build"] = lambda p, a, k: cap.update(info_args=(a, k)) or "INFO"
        pe.overrides["ekobox.genpdf.export.dump_set"] = lambda p, a, k: cap.update(dump=a)
        inst = f"explicit-target={explicit}"
        try:
            pe.call(fe.qname, [["A", "B"], th, op], {"store_path": "STORE", "targetgrid": tgt if explicit else None, "name": "N"})
        except PERaise as e:
            chk.fail("blocks-equal-applied-pdfs", fe.qname, f"{inst}: raises {e}", where=fe.where, instance=inst)
            continue
        ia, ik = cap.get("info_args", ((), {}))
        upd = ik.get("info_update", ia[3] if len(ia) > 3 else {})
        nmem = ia[2] if len(ia) > 2 else ik.get("num_members")
        wraw = written.raw
        xmin, xmax = _effective_range(ia, ik, upd)
        chk.decide(isinstance(upd, dict) and xmin is not None and eqv(xmin, wraw[0]) and eqv(xmax, wraw[nxw - 1]) and nmem == 2,
                   "info-ranges-bound-the-written-grids", fe.qname, f"{inst}: info built with update {upd} and {nmem} members, i.e. x range "
                   f"({xmin}, {xmax}) after the defaults of the info builder; required the first/last point of the written grid and 2 members",
                   where=fe.where, instance=inst, how="PE with mocks")
        # apply_pdf interpolates by iterating over the target points (len(), `for x in targetgrid`): it needs the plain array of
        # points, not the grid object
        def plain_points(v):
            return isinstance(v, (Arr, list, tuple)) and len(v) == 2 and all(eqv(a, b) for a, b in zip((v.flat() if isinstance(v, Arr) else v), tgt.raw.flat()))

        chk.decide([x[1] for x in applied] == ["A", "B"] and all(x[0] is eko and (plain_points(x[2]) if explicit else x[2] is None) for x in applied),
                   "target-grid-is-honoured", fe.qname, f"{inst}: members applied with target grid {[(x[1], type(x[2]).__name__) for x in applied]}; required: "
                   f"every member, on the archive just read, with the plain array of the explicit target points (apply_pdf iterates over them) "
                   f"or None", where=fe.where, instance=inst)
        chk.decide(isinstance(upd, dict) and all(isinstance(upd.get(k), (float, int, Fraction)) or (isinstance(upd.get(k), dag.Node) and dag.as_const(upd.get(k)) is not None)
                                                 for k in ("XMin", "XMax") if k in upd) and all(_float_cast(fe, k) for k in ("XMin", "XMax") if _assigned(fe, k)),
                   "info-values-are-plain-numbers", fe.qname, f"{inst}: XMin/XMax handed to the info file are not cast to float: the info file is written "
                   f"with a safe YAML dumper, which refuses NumPy scalars", where=fe.where, instance=inst)
        d = cap.get("dump")
        ok = d is not None and d[0] == "N" and d[1] == "INFO" and len(d[2]) == 2
        bad = []
        if ok:
            for mi, member in enumerate(("A", "B")):
                blocks = d[2][mi]
                want_patches = [(3, [Fraction(4), Fraction(9)]), (4, [Fraction(9)]), (5, [Fraction(100), Fraction(2500)])]
                if len(blocks) != 3:
                    bad.append(f"{len(blocks)} blocks")
                    continue
                for blk, (nf, q2s) in zip(blocks, want_patches):
                    xs = list(blk["xgrid"].flat()) if isinstance(blk["xgrid"], Arr) else list(blk["xgrid"])
                    if len(xs) != nxw or not all(eqv(x, wraw[i]) for i, x in enumerate(xs)) or list(blk["mu2grid"]) != q2s:
                        bad.append(f"grid of block nf={nf}: x={xs}, mu2={blk['mu2grid']}")
                        continue
                    data = blk["data"]
                    row = 0
                    for xi in range(nxw):
                        for q2 in q2s:
                            for pi, pid in enumerate(pids):
                                w = dag.mul(dag.tonode(wraw[xi]), dag.sym(f"f_{member}_{q2}_{nf}_{pid}_{xi}".replace("-", "m")))
                                bad_val = dag.sub(dag.tonode(data[row, pi]), w)
                                z, _ = dag.is_zero_fp([bad_val], chk.seed, 1)
                                if not z:
                                    bad.append(f"value at x[{xi}], Q2={q2}, pid={pid}, member {member}")
                            row += 1
        chk.decide(ok and not bad, "blocks-equal-applied-pdfs", fe.qname, f"{inst}: exporter called with name/info/members ok={ok}; deviations: {bad[:3]}; "
                   f"required value[(x, Q), pid] = x * applied[(Q^2, nf)][pid][index of x], one block per nf with sorted scales, on the written grid",
                   where=fe.where, instance=inst, how="PE with mocks + PIT")
    # ---- (4) histories: one info_update dict handed to two exports ----------------------------------------------------------------------
    # the caller's dict may be reused; whatever an earlier export left in it, the x range of the next set must bound ITS written grid
    for first, second in ((True, False), (False, True), (False, False)):
        pe = PE(src)
        th, op = cards()
        tgt = M()
        tgt.raw = Arr.from_nested([Fraction(1, 5), Fraction(3, 5)])
        op.xgrid.raw = Arr.from_nested([Fraction(1, 10), Fraction(1, 2), Fraction(1)])
        eqv = lambda a, b: dag.is_zero_fp([dag.sub(dag.tonode(a), dag.tonode(b))], chk.seed, 1)[0]
        evolgrid = [(Fraction(100), 5)]
        pids = list(pe.get_global("eko.basis_rotation", "flavor_basis_pids"))
        cap = {}

        class Eko2(Opaque):
            _real = "eko.io.struct.EKO"

            def __init__(self):
                self.evolgrid = list(evolgrid)

            def __enter__(self):
                return self

            def __exit__(self, *a):
                return False

        def apply_pdf2(p, a, k, cap=cap):
            n = cap["nx"]
            return ({ep: {pid: Arr.from_nested([dag.sym(f"g{i}") for i in range(n)]) for pid in pids} for ep in evolgrid}, None)

        pe.overrides["ekobox.apply.apply_pdf"] = apply_pdf2
        pe.overrides["eko.runner.managed.solve"] = lambda p, a, k: None
        pe.overrides["eko.io.struct.EKO.read"] = lambda p, a, k: Eko2()
        pe.overrides["ekobox.info_file.build"] = lambda p, a, k, cap=cap: cap.update(info_args=(a, dict(k), dict(k.get("info_update", a[3] if len(a) > 3 else {}) or {}))) or "INFO"
        pe.overrides["ekobox.genpdf.export.dump_set"] = lambda p, a, k: None
        shared = {}
        for step, explicit in enumerate((first, second)):
            inst = f"shared info_update, call {step + 1} of (target={first}, target={second})"
            cap["nx"] = 2 if explicit else 3
            try:
                pe.call(fe.qname, [["A"], th, op], {"store_path": "STORE", "targetgrid": tgt if explicit else None, "name": "N", "info_update": shared})
            except PERaise as e:
                chk.fail("info-ranges-bound-the-written-grids", fe.qname, f"{inst}: raises {e}", where=fe.where, instance=inst)
                break
            ia, ik, upd = cap["info_args"]
            xmin, xmax = _effective_range(ia, ik, upd)
            wraw = (tgt if explicit else op.xgrid).raw
            chk.decide(xmin is not None and eqv(xmin, wraw[0]) and eqv(xmax, wraw[len(wraw) - 1]), "info-ranges-bound-the-written-grids", fe.qname,
                       f"{inst}: the info file gets the x range ({xmin}, {xmax}) but the set is written on [{wraw[0]}, {wraw[len(wraw) - 1]}]: a range "
                       f"left in the caller's dict by the previous export survives", where=fe.where, instance=inst, how="PE with mocks, two calls")
    chk.note(files=["src/ekobox/info_file.py", "src/ekobox/evol_pdf.py", "src/ekobox/genpdf/__init__.py", "src/ekobox/utils.py"])
    chk.explanation = "Info ranges, alpha_s wiring and block values decided by PE with symbolic cards and mock collaborators."
