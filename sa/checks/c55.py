"""C55 - settings that do not apply to a configuration do not change its EKO (formula-level independence)."""
from __future__ import annotations

import ast
from fractions import Fraction

from .. import dag, qk
from ..arr import Arr
from ..core import pmap
from ..pe import PE, Obj, PERaise, decide_on_values
from ..src import load, stmt_text

LEVEL = "proof"
META = {
    "text": "The integrand kernels quad_ker_qcd / quad_ker_qed (everything between the settings and the numbers that are "
            "integrated) are partially evaluated twice, with two different values of a setting, in every configuration the "
            "documentation declares the setting irrelevant for, and the two extracted formulas are proved identical: the "
            "iteration count for every method that does not iterate (truncated, ordered-truncated, decompose-*), the expansion "
            "order for every non-perturbative method, the N3LO variation tuple and the FHMRUVV switch for orders 1-3 (QCD and "
            "QED), for singlet and non-singlet sectors. For the electromagnetic-running flag without QED: the QCD kernel does "
            "not receive it (call-site rule), Couplings.a is partially evaluated with mocked solver for both flag values across a "
            "segment that crosses the tau threshold and must issue identical solver calls, and the fixed/running coupling "
            "solutions are formula-identical at QED order 0 (expanded) / integrate the same ODE (exact). For the backward "
            "inversion method: the matching operator's method is FORWARD whatever the setting when the matching is not inverse."
            " The exact solvers with and without the em_running flag integrate systems of the same dimension with the same right-hand side.",
    "note": "Identity of the formulas that are integrated implies bitwise identity of the results for a deterministic integrator "
            "(C03/C47). Array shapes that depend on an irrelevant setting but are never read (a_half for QED order 0) are listed.",
    "technique": "differential partial evaluation (two runs differing in one setting) + polynomial identity testing; call-site rules",
    "engine": "sa",
}

CP = "eko.couplings"


def _same(a, b, seed):
    fa = a.flat() if isinstance(a, Arr) else [a]
    fb = b.flat() if isinstance(b, Arr) else [b]
    if len(fa) != len(fb):
        return False, {"index": -1}
    return dag.is_zero_fp([dag.sub(x, y) for x, y in zip(fa, fb)], seed, 2)


ITER = ("ITERATE_EXACT", "ITERATE_EXPANDED", "PERTURBATIVE_EXACT", "PERTURBATIVE_EXPANDED")
PERT = ("PERTURBATIVE_EXACT", "PERTURBATIVE_EXPANDED")


def pmap_count(chk, fn, cases):
    """pmap, returning the number of obligations the workers recorded"""
    n = [0]
    orig = chk.decide

    def counting(*a, **k):
        n[0] += 1
        return orig(*a, **k)

    chk.decide = counting
    try:
        pmap(chk, fn, cases, jobs=14)
    finally:
        del chk.decide
    return n[0]


def _diff_case(rec, case):
    src, pe = qk.make_pe()
    M, SV = qk.enums(pe)
    fq = src.func(f"{qk.QK}.quad_ker_qcd")
    fe = src.func(f"{qk.QK}.quad_ker_qed")
    if case[0] == "qcd-methods":
        _, n, mname, m0, m1 = case
        base = dict(order=(n, 0), mode0=m0, mode1=m1, method=M[mname], nf=4, sv_mode=SV["unvaried"])
        # iteration count
        if mname not in ITER or m0 != 100:
            a = qk.qcd(pe, its=1, **base)
            b = qk.qcd(pe, its=7, **base)
            ok, info = _same(a, b, rec.seed)
            rec.decide(ok, "iterations-irrelevant-for-non-iterating-methods", fq.qname,
                       f"order={n}, {mname}, sector {m0}: the kernel changes with ev_op_iterations although the method does "
                       f"not iterate", where=fq.where, instance=f"{n},{mname},{m0}", how="differential PE + PIT")
        # expansion order
        if mname not in PERT or m0 != 100:
            a = qk.qcd(pe, its=2, max_order=(n, 0), **base)
            b = qk.qcd(pe, its=2, max_order=(n + 4, 0), **base)
            ok, info = _same(a, b, rec.seed)
            rec.decide(ok, "max-order-irrelevant-for-non-perturbative-methods", fq.qname,
                       f"order={n}, {mname}, sector {m0}: the kernel changes with ev_op_max_order although the method is not "
                       f"perturbative", where=fq.where, instance=f"{n},{mname},{m0}", how="differential PE + PIT")
    elif case[0] == "qcd-n3lo":
        # N3LO variation / parametrisation below N3LO
        _, n, m0, m1 = case
        base = dict(order=(n, 0), mode0=m0, mode1=m1, method=M["TRUNCATED"], nf=4, sv_mode=SV["unvaried"])
        ref = qk.qcd(pe, var=qk.VAR0, fh=True, **base)
        for var, fh in (((1, 2, 1, 2, 1, 2, 1), True), (qk.VAR0, False), ((2, 2, 2, 2, 2, 2, 2), False)):
            b = qk.qcd(pe, var=var, fh=fh, **base)
            ok, info = _same(ref, b, rec.seed)
            rec.decide(ok, "n3lo-settings-irrelevant-below-n3lo", fq.qname,
                       f"order={n}, sector {m0}: the kernel depends on n3lo_ad_variation/use_fhmruvv below N3LO", where=fq.where,
                       instance=f"{n},{m0},{var},{fh}", how="differential PE + PIT")
    else:
        _, n, m, m0, m1 = case
        base = dict(order=(n, m), mode0=m0, mode1=m1, method=M["ITERATE_EXACT"], nf=4, sv_mode=SV["unvaried"], its=1)
        ref = qk.qed(pe, var=qk.VAR0, fh=True, **base)
        b = qk.qed(pe, var=(1, 2, 1, 2, 1, 2, 1), fh=False, **base)
        ok, info = _same(ref, b, rec.seed)
        rec.decide(ok, "n3lo-settings-irrelevant-below-n3lo", fe.qname,
                   f"order=({n},{m}), sector {m0}: the QED kernel depends on n3lo settings below N3LO", where=fe.where,
                   instance=f"({n},{m}),{m0}", how="differential PE + PIT")
        # expansion order never applies with QED
        b2 = qk.qed(pe, max_order=(3, 0), **base)
        ok, info = _same(ref, b2, rec.seed)
        rec.decide(ok, "max-order-irrelevant-for-non-perturbative-methods", fe.qname,
                   f"order=({n},{m}), sector {m0}: the QED kernel depends on ev_op_max_order", where=fe.where,
                   instance=f"({n},{m}),{m0}", how="differential PE + PIT")


def run(chk):
    src, pe = qk.make_pe()
    M, SV = qk.enums(pe)
    chk.rule_text = "kernel(setting=v1) == kernel(setting=v2) as formulas, in every configuration where the setting is documented irrelevant"
    fq = src.func(f"{qk.QK}.quad_ker_qcd")
    fe = src.func(f"{qk.QK}.quad_ker_qed")
    sectors = ((100, 21), (10201, 0))
    # independent differential extractions: run in parallel, obligations replayed in order
    cases = [("qcd-methods", n, mname, m0, m1) for n in (1, 2, 3, 4) for mname in M for (m0, m1) in sectors]
    cases += [("qcd-n3lo", n, m0, m1) for n in (1, 2, 3) for (m0, m1) in sectors + ((10200, 0), (10101, 0))]
    cases += [("qed", n, m, m0, m1) for n, m in ((1, 1), (2, 2), (3, 1)) for (m0, m1) in ((21, 22), (10200, 10204), (10102, 0))]
    n_inst = pmap_count(chk, _diff_case, cases)
    chk.floor("differential kernel extractions", n_inst, 100)

    # ---- electromagnetic running flag without QED -----------------------------------------------------------
    fad = src.func(f"{qk.QK}.quad_ker_ad")
    okc = False
    for c in ast.walk(fad.node):
        if isinstance(c, ast.Call) and ast.unparse(c.func).endswith("quad_ker_qcd"):
            okc = not any(isinstance(a, ast.Name) and a.id == "alphaem_running" for a in list(c.args) + [k.value for k in c.keywords])
    chk.decide(okc, "em-running-flag-not-passed-to-qcd-kernel", fad.qname, "quad_ker_ad passes alphaem_running to the pure-QCD kernel",
               where=fad.where)
    # Couplings.a: identical solver calls for both flag values across the tau threshold
    pec = PE(src)
    cls = src.cls(f"{CP}.Couplings")
    seg_cls = src.cls("eko.matchings.Segment")
    fa = src.func(f"{CP}.Couplings.a")
    for order in ((1, 0), (2, 0), (3, 0), (4, 0)):
        traces = {}
        for running in (False, True):
            selfo = Obj(cls)
            selfo.attrs.update(a_ref=Arr.from_nested([dag.sym("a_ref"), dag.sym("aem_ref")]), order=order, hqm_scheme="POLE",
                               thresholds_ratios=[1, 1, 1], atlas=Obj(src.cls("eko.matchings.Atlas")), cache={}, method="expanded",
                               alphaem_running=running, decoupled_running=False)
            seg = pec.instantiate(seg_cls.qname, [Fraction(2), Fraction(100), 4])
            calls = []

            def compute_model(pe_, args, kwargs, calls=calls):
                calls.append(tuple(args[1:]))
                return Arr.from_nested([dag.sym(f"A{len(calls)}"), dag.sym(f"AEM{len(calls)}")])

            leps = iter([2, 3])
            pec.overrides[f"{CP}.Couplings.compute"] = compute_model
            pec.overrides["eko.matchings.Atlas.path"] = lambda pe_, a, k: [seg]
            pec.overrides["eko.matchings.lepton_number"] = lambda pe_, a, k, it=leps: next(it)
            pec.assume = lambda text, env: decide_on_values(pec, text, env) if "isclose" in text else None   # origin 2 and target 100 are apart
            try:
                pec.apply(pec.getattr(selfo, "a"), [Fraction(100), 4], {})
            finally:
                pec.assume = None
                for q in (f"{CP}.Couplings.compute", "eko.matchings.Atlas.path", "eko.matchings.lepton_number"):
                    pec.overrides.pop(q, None)
            traces[running] = [(len(c), str(c[1:])) for c in calls]
        chk.decide(traces[False] == traces[True], "em-running-flag-irrelevant-without-qed", fa.qname,
                   f"order={order}: across a segment that crosses the tau threshold Couplings.a issues {len(traces[True])} solver call(s) "
                   f"with alphaem_running=True but {len(traces[False])} with False, although QED is off (the coupling, and every "
                   f"operator, then depend on the flag)", where=fa.where, instance=str(order),
                   detail=f"{len(traces[False])} identical solver call(s)", how="PE with mocked solver")
    # fixed vs running coincide at QED order 0: expanded formulas (exact variants integrate the same ODE: C15)
    fr = src.func(f"{CP}.couplings_expanded_alphaem_running")
    ff = src.func(f"{CP}.couplings_expanded_fixed_alphaem")
    aref = Arr.from_nested([dag.sym("as_ref"), dag.sym("aem_ref")])
    s0, s1 = dag.sym("mu2_from"), dag.sym("mu2_to")
    for n in (1, 2, 3, 4):
        for nf in (3, 4, 5, 6):
            g1 = pec.call(fr.qname, [(n, 0), aref, nf, 3, s0, s1, False])
            g2 = pec.call(ff.qname, [(n, 0), aref, nf, s0, s1])
            ok, info = _same(g1, g2, chk.seed)
            chk.decide(ok, "em-running-flag-irrelevant-without-qed", fr.qname,
                       f"order=({n},0), nf={nf}: running- and fixed-alpha_em expanded couplings differ although QED is off", where=fr.where,
                       instance=f"expanded,{n},{nf}", how="PIT F_p")
    # exact variants at QED order 0: same ODE
    from types import SimpleNamespace

    rec = []

    def solve_ivp(pe_, args, kwargs):
        f, span, y0 = args[0], args[1], args[2]
        y0l = list(y0.flat()) if isinstance(y0, Arr) else list(y0) if isinstance(y0, (tuple, list)) else [y0]
        dim = len(y0l)
        # the state handed to the right-hand side has the dimension of the initial value: one coupling, or the coupled system
        y = dag.sym("y0") if dim == 1 else Arr.from_nested([dag.sym(f"y{i}") for i in range(dim)])
        rhs = pe_.apply(f, [dag.sym("t"), y] + list(kwargs.get("args", [])), {})
        rhs0 = rhs.flat()[0] if isinstance(rhs, Arr) else rhs[0] if isinstance(rhs, (list, tuple)) else rhs
        if dim > 1:
            rhs0 = dag.substitute(dag.tonode(rhs0), {"y0": dag.sym("y0")})
        rec.append((rhs0, span[1], y0l[0], dim))
        return SimpleNamespace(y=[[dag.sym(f"SOL{i}")] for i in range(dim)])

    pec.ext["scipy.integrate.solve_ivp"] = solve_ivp
    for n in (2, 3, 4):
        outs = {}
        for running in (False, True):
            selfo = Obj(cls)
            selfo.attrs.update(order=(n, 0), alphaem_running=running, decoupled_running=False, method="exact", cache={})
            del rec[:]
            meth = "compute_exact_alphaem_running" if running else "compute_exact_fixed_alphaem"
            args = [aref, 4, 3, s0, s1] if running else [aref, 4, s0, s1]
            out = pec.apply(pec.getattr(selfo, meth), args, {})
            outs[running] = (list(rec), out)
        (ra, oa), (rb, ob) = outs[False], outs[True]
        ok = len(ra) == len(rb) == 1 and ra[0][3] == rb[0][3]      # the same number of solver calls, on systems of the same dimension
        if ok:
            ok, info = dag.is_zero_fp([dag.sub(ra[0][0], rb[0][0]), dag.sub(ra[0][1], rb[0][1]), dag.sub(ra[0][2], rb[0][2]),
                                       dag.sub(oa[1], ob[1])], chk.seed, 2)
        chk.decide(ok, "em-running-flag-irrelevant-without-qed", f"{CP}.Couplings.compute_exact_alphaem_running",
                   f"order=({n},0): the exact solvers integrate different ODEs for the two flag values although QED is off (solver calls: "
                   f"{len(ra)} on a system of dimension {[r_[3] for r_ in ra]} without the flag, {len(rb)} of dimension {[r_[3] for r_ in rb]} with it; an adaptive "
                   f"solver controls its steps on the whole state, so even an inert extra component changes a_s at the solver tolerance)",
                   where=src.func(f"{CP}.Couplings.compute_exact_alphaem_running").where, instance=f"exact,{n}", how="PE + PIT")
    # ---- backward inversion method when not backward -----------------------------------------------------------------
    fo = src.func("eko.evolution_operator.operator_matrix_element.OperatorMatrixElement.__init__")
    target = None
    for st in ast.walk(fo.node):
        if isinstance(st, ast.Assign) and any(isinstance(t, ast.Attribute) and t.attr == "backward_method" for t in st.targets):
            target = st
    chk.need(target is not None, "OperatorMatrixElement.__init__ no longer assigns backward_method")
    from ..pe import Env

    inv = pe.get_global("eko.io.types", "InversionMethod")
    vals = []
    for choice in list(pe.enum_members(inv.cls).values()) + [None]:
        env = Env(fo.module)
        env.vars.update(config={"backward_inversion": choice}, is_backward=False)
        v = pe.eval(target.value, env)
        vals.append(v.attrs.get("_name_") if isinstance(v, Obj) else v)
    chk.decide(all(v == "FORWARD" for v in vals), "inversion-method-irrelevant-for-forward-matching", fo.qname,
               f"`{stmt_text(target)[:90]}`: with is_backward=False the matching method is {vals} depending on the setting", where=fo.where,
               detail="FORWARD for every value of backward_inversion")
    chk.note(instances=n_inst, files=["src/eko/evolution_operator/quad_ker.py", "src/eko/couplings.py",
                                      "src/eko/evolution_operator/operator_matrix_element.py"],
             unread_shapes=["Operator.compute_aem_list: a_half has ev_op_iterations rows at QED order 0 but quad_ker_qcd never receives it"])
    chk.explanation = "Differential extraction of the integrand kernels and coupling solver calls under changes of irrelevant settings."
